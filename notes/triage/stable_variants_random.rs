use adf_bdd::adf::Adf;
use adf_bdd::adf::heuristics::Heuristic;
use adf_bdd::parser::AdfParser;
use adf_bdd::datatypes::Term;
use std::collections::BTreeSet;

struct Rng(u64);
impl Rng { fn next(&mut self) -> u64 { self.0 ^= self.0 << 13; self.0 ^= self.0 >> 7; self.0 ^= self.0 << 17; self.0 } fn below(&mut self, n: u64) -> u64 { self.next() % n } }
fn form(r: &mut Rng, n: usize, d: usize) -> String {
    let k = if d == 0 { r.below(3) } else { r.below(9) };
    match k {
        0 | 1 => format!("x{}", r.below(n as u64)),
        2 => if r.below(4)==0 { if r.below(2)==0 {"c(v)".into()} else {"c(f)".into()} } else { format!("neg(x{})", r.below(n as u64)) },
        3 => format!("neg({})", form(r,n,d-1)),
        4 => format!("and({},{})", form(r,n,d-1), form(r,n,d-1)),
        5 => format!("or({},{})", form(r,n,d-1), form(r,n,d-1)),
        6 => format!("xor({},{})", form(r,n,d-1), form(r,n,d-1)),
        7 => format!("imp({},{})", form(r,n,d-1), form(r,n,d-1)),
        _ => format!("iff({},{})", form(r,n,d-1), form(r,n,d-1)),
    }
}
fn set(it: impl Iterator<Item=Vec<Term>>) -> (BTreeSet<Vec<Term>>, usize) {
    let v: Vec<_> = it.collect(); let n=v.len(); (v.into_iter().collect(), n)
}
fn main() {
    let args: Vec<String> = std::env::args().collect();
    let total: usize = args.get(1).map(|s| s.parse().unwrap()).unwrap_or(20000);
    let ng = args.get(2).map(|s| s=="ng").unwrap_or(false);
    let mut r = Rng(0x9E3779B97F4A7C15);
    let mut bad=0usize;
    for n in 0..total {
        let ns = 3 + (r.below(4) as usize);
        let mut input = String::new();
        for i in 0..ns { input += &format!("s(x{i})."); }
        for i in 0..ns { let d = r.below(3) as usize + 1; input += &format!("ac(x{i},{}).", form(&mut r, ns, d)); }
        let parser = AdfParser::default();
        parser.parse()(&input).unwrap();
        let mut adf = Adf::from_parser(&parser);
        let (reference, rn) = set(adf.stable());
        assert_eq!(reference.len(), rn);
        let mut check = |name: &str, (s, cnt): (BTreeSet<Vec<Term>>, usize)| {
            if s != reference || cnt != rn { bad+=1; if bad < 12 { println!("MISMATCH {name} {input} ref={reference:?} got={s:?} cnt={cnt}"); } }
        };
        let mut adf = Adf::from_parser(&parser);
        check("heu_a", set(adf.stable_count_optimisation_heu_a()));
        let mut adf = Adf::from_parser(&parser);
        check("heu_b", set(adf.stable_count_optimisation_heu_b()));
        if ng {
        for h in [Heuristic::Simple, Heuristic::MinModMinPathsMaxVarImp, Heuristic::MinModMaxVarImpMinPaths, Heuristic::Rand] {
            let mut adf = Adf::from_parser(&parser);
            adf.seed([n as u8; 32]);
            check(&format!("ng {h:?}"), set(adf.stable_nogood(h)));
        }}
    }
    println!("checked {total} adfs, {bad} mismatches");
}
