// factgen: rustc_private driver that dumps type-checked MIR (mir_promoted) of the
// workspace crates of ellmau/adf-obdd as JSON facts. Used as RUSTC_WORKSPACE_WRAPPER.
//
// It never executes any code of the analysed crates; it only reads what the
// compiler computed (resolved callees, types, constants, CFG).
#![feature(rustc_private)]
#![allow(clippy::all)]

extern crate rustc_abi;
extern crate rustc_ast;
extern crate rustc_driver;
extern crate rustc_hir;
extern crate rustc_interface;
extern crate rustc_middle;
extern crate rustc_session;
extern crate rustc_span;

use rustc_driver::Compilation;
use rustc_hir::def::DefKind;
use rustc_hir::def_id::{DefId, LocalDefId};
use rustc_middle::mir::{
    self, AggregateKind, BasicBlock, Body, BorrowKind, CastKind, Const as MirConst, ConstValue,
    Operand, Place, ProjectionElem, Rvalue, StatementKind, TerminatorKind, UnwindAction,
    VarDebugInfoContents,
};
use rustc_middle::ty::{self, Instance, Ty, TyCtxt, TypeVisitableExt, TypingEnv};
use rustc_span::hygiene::{ExpnKind, MacroKind};
use rustc_span::Span;
use std::fmt::Write as _;

// ---------------------------------------------------------------- JSON
enum J {
    Null,
    Bool(bool),
    Int(i128),
    Str(String),
    Arr(Vec<J>),
    Obj(Vec<(&'static str, J)>),
}

fn esc(s: &str, out: &mut String) {
    out.push('"');
    for c in s.chars() {
        match c {
            '"' => out.push_str("\\\""),
            '\\' => out.push_str("\\\\"),
            '\n' => out.push_str("\\n"),
            '\r' => out.push_str("\\r"),
            '\t' => out.push_str("\\t"),
            c if (c as u32) < 0x20 => {
                let _ = write!(out, "\\u{:04x}", c as u32);
            }
            c => out.push(c),
        }
    }
    out.push('"');
}

impl J {
    fn write(&self, out: &mut String) {
        match self {
            J::Null => out.push_str("null"),
            J::Bool(b) => out.push_str(if *b { "true" } else { "false" }),
            J::Int(i) => {
                let _ = write!(out, "{}", i);
            }
            J::Str(s) => esc(s, out),
            J::Arr(v) => {
                out.push('[');
                for (i, x) in v.iter().enumerate() {
                    if i > 0 {
                        out.push(',');
                    }
                    x.write(out);
                }
                out.push(']');
            }
            J::Obj(v) => {
                out.push('{');
                for (i, (k, x)) in v.iter().enumerate() {
                    if i > 0 {
                        out.push(',');
                    }
                    esc(k, out);
                    out.push(':');
                    x.write(out);
                }
                out.push('}');
            }
        }
    }
}
fn s(x: impl Into<String>) -> J {
    J::Str(x.into())
}
fn opt<T>(x: Option<T>, f: impl FnOnce(T) -> J) -> J {
    match x {
        Some(v) => f(v),
        None => J::Null,
    }
}

// ---------------------------------------------------------------- context
struct Cx<'tcx> {
    tcx: TyCtxt<'tcx>,
}

impl<'tcx> Cx<'tcx> {
    fn path(&self, d: DefId) -> String {
        // crate-qualified path, stable across configurations
        // workspace crates seen from another member: canonical definition path, not the re-export path
        let kn = self.tcx.crate_name(d.krate);
        let p = if !d.is_local() && kn.as_str() == "adf_bdd" {
            rustc_middle::ty::print::with_no_visible_paths!(self.tcx.def_path_str(d))
        } else {
            self.tcx.def_path_str(d)
        };
        if d.is_local() {
            format!("{}::{}", self.tcx.crate_name(rustc_hir::def_id::LOCAL_CRATE), p)
        } else {
            p
        }
    }

    fn loc(&self, sp: Span) -> J {
        let sp = sp.source_callsite();
        let sm = self.tcx.sess.source_map();
        if sp.is_dummy() {
            return J::Null;
        }
        let lo = sm.lookup_char_pos(sp.lo());
        let hi = sm.lookup_char_pos(sp.hi());
        let file = match &lo.file.name {
            rustc_span::FileName::Real(r) => match r.local_path() {
                Some(p) => p.to_string_lossy().into_owned(),
                None => format!("{:?}", lo.file.name),
            },
            other => format!("{:?}", other),
        };
        J::Arr(vec![
            s(file),
            J::Int(lo.line as i128),
            J::Int(lo.col.0 as i128 + 1),
            J::Int(hi.line as i128),
            J::Int(hi.col.0 as i128 + 1),
        ])
    }

    /// chain of expansions from innermost to outermost:
    /// "m:log::trace", "d:ForLoop", "a:..", derive -> "D:Serialize"
    fn exp(&self, sp: Span) -> J {
        let mut v = Vec::new();
        let mut cur = sp;
        let mut guard = 0;
        while cur.from_expansion() && guard < 32 {
            let data = cur.ctxt().outer_expn_data();
            let tag = match data.kind {
                ExpnKind::Root => break,
                ExpnKind::Macro(MacroKind::Bang, name) => format!("m:{}", name),
                ExpnKind::Macro(MacroKind::Attr, name) => format!("a:{}", name),
                ExpnKind::Macro(MacroKind::Derive, name) => format!("D:{}", name),
                ExpnKind::AstPass(_) => "p:astpass".to_string(),
                ExpnKind::Desugaring(k) => format!("d:{:?}", k),
            };
            v.push(s(tag));
            cur = data.call_site;
            guard += 1;
        }
        if v.is_empty() {
            J::Null
        } else {
            J::Arr(v)
        }
    }

    fn ty(&self, t: Ty<'tcx>, depth: u32) -> J {
        let disp = format!("{:?}", t);
        if depth > 6 {
            return J::Obj(vec![("k", s("deep")), ("s", s(disp))]);
        }
        match t.kind() {
            ty::Bool | ty::Char | ty::Int(_) | ty::Uint(_) | ty::Float(_) | ty::Str | ty::Never => {
                J::Obj(vec![("k", s("prim")), ("s", s(disp))])
            }
            ty::Adt(def, args) => J::Obj(vec![
                ("k", s("adt")),
                ("path", s(self.path(def.did()))),
                ("args", self.gargs(args, depth + 1)),
                ("s", s(disp)),
            ]),
            ty::Ref(_, inner, m) => J::Obj(vec![
                ("k", s("ref")),
                ("mut", J::Bool(m.is_mut())),
                ("to", self.ty(*inner, depth + 1)),
            ]),
            ty::RawPtr(inner, m) => J::Obj(vec![
                ("k", s("ptr")),
                ("mut", J::Bool(m.is_mut())),
                ("to", self.ty(*inner, depth + 1)),
            ]),
            ty::Tuple(elems) => J::Obj(vec![
                ("k", s("tuple")),
                ("elems", J::Arr(elems.iter().map(|e| self.ty(e, depth + 1)).collect())),
            ]),
            ty::Slice(e) => J::Obj(vec![("k", s("slice")), ("elem", self.ty(*e, depth + 1))]),
            ty::Array(e, _) => J::Obj(vec![
                ("k", s("array")),
                ("elem", self.ty(*e, depth + 1)),
                ("s", s(disp)),
            ]),
            ty::Closure(def, _args) => {
                J::Obj(vec![("k", s("closure")), ("def", s(self.path(*def)))])
            }
            ty::Coroutine(def, _args) => {
                J::Obj(vec![("k", s("coroutine")), ("def", s(self.path(*def)))])
            }
            ty::CoroutineClosure(def, _args) => {
                J::Obj(vec![("k", s("coroutineclosure")), ("def", s(self.path(*def)))])
            }
            ty::FnDef(def, args) => J::Obj(vec![
                ("k", s("fndef")),
                ("path", s(self.path(*def))),
                ("args", self.gargs(args, depth + 1)),
            ]),
            ty::FnPtr(..) => J::Obj(vec![("k", s("fnptr")), ("s", s(disp))]),
            ty::Dynamic(..) => J::Obj(vec![("k", s("dyn")), ("s", s(disp))]),
            ty::Param(p) => J::Obj(vec![("k", s("param")), ("s", s(p.name.to_string()))]),
            ty::Alias(alias) => J::Obj(vec![
                ("k", s("alias")),
                ("def", s(self.path(alias.kind.def_id()))),
                ("args", self.gargs(alias.args, depth + 1)),
                ("s", s(disp)),
            ]),
            _ => J::Obj(vec![("k", s("other")), ("s", s(disp))]),
        }
    }

    fn gargs(&self, args: ty::GenericArgsRef<'tcx>, depth: u32) -> J {
        let mut v = Vec::new();
        for a in args.iter() {
            if let Some(t) = a.as_type() {
                v.push(self.ty(t, depth));
            } else if let Some(c) = a.as_const() {
                v.push(J::Obj(vec![("k", s("const")), ("s", s(format!("{:?}", c)))]));
            }
            // regions are skipped
        }
        J::Arr(v)
    }

    fn place(&self, body: &Body<'tcx>, p: &Place<'tcx>) -> J {
        let mut proj = Vec::new();
        let mut cur_ty = mir::PlaceTy::from_ty(body.local_decls[p.local].ty);
        for elem in p.projection.iter() {
            let j = match elem {
                ProjectionElem::Deref => J::Obj(vec![("k", s("deref"))]),
                ProjectionElem::Field(f, _) => {
                    let mut name = J::Null;
                    if let ty::Adt(def, _) = cur_ty.ty.kind() {
                        let vidx = cur_ty.variant_index.unwrap_or(rustc_abi::FIRST_VARIANT);
                        if def.is_struct() || def.is_enum() || def.is_union() {
                            if let Some(variant) = def.variants().get(vidx) {
                                if let Some(fd) = variant.fields.get(f) {
                                    name = s(fd.name.to_string());
                                }
                            }
                        }
                    }
                    J::Obj(vec![("k", s("field")), ("i", J::Int(f.as_u32() as i128)), ("name", name)])
                }
                ProjectionElem::Index(l) => {
                    J::Obj(vec![("k", s("index")), ("l", J::Int(l.as_u32() as i128))])
                }
                ProjectionElem::ConstantIndex { offset, from_end, .. } => J::Obj(vec![
                    ("k", s("cindex")),
                    ("i", J::Int(offset as i128)),
                    ("from_end", J::Bool(from_end)),
                ]),
                ProjectionElem::Subslice { from, to, from_end } => J::Obj(vec![
                    ("k", s("subslice")),
                    ("from", J::Int(from as i128)),
                    ("to", J::Int(to as i128)),
                    ("from_end", J::Bool(from_end)),
                ]),
                ProjectionElem::Downcast(name, v) => J::Obj(vec![
                    ("k", s("downcast")),
                    ("variant", opt(name, |n| s(n.to_string()))),
                    ("vi", J::Int(v.as_u32() as i128)),
                ]),
                ProjectionElem::OpaqueCast(_) => J::Obj(vec![("k", s("opaquecast"))]),
                ProjectionElem::UnwrapUnsafeBinder(_) => J::Obj(vec![("k", s("unwrapbinder"))]),
            };
            proj.push(j);
            cur_ty = cur_ty.projection_ty(self.tcx, elem);
        }
        J::Obj(vec![("l", J::Int(p.local.as_u32() as i128)), ("p", J::Arr(proj))])
    }

    fn scalar_of(&self, val: ConstValue, t: Ty<'tcx>) -> Option<J> {
        match val {
            ConstValue::Scalar(sc) => {
                let int = sc.try_to_scalar_int().ok()?;
                let size = int.size();
                let bits = int.to_bits(size);
                match t.kind() {
                    ty::Bool => Some(J::Obj(vec![("bool", J::Bool(bits != 0))])),
                    ty::Int(_) => {
                        let v = size.sign_extend(bits) as i128;
                        Some(J::Obj(vec![("int", J::Int(v))]))
                    }
                    ty::Uint(_) => Some(J::Obj(vec![("int", J::Int(bits as i128))])),
                    ty::Char => Some(J::Obj(vec![(
                        "char",
                        s(char::from_u32(bits as u32).map(|c| c.to_string()).unwrap_or_default()),
                    )])),
                    ty::Adt(def, _) => {
                        // scalar-valued newtype such as Term(1) / Var(usize::MAX - 1)
                        Some(J::Obj(vec![
                            ("adt", s(self.path(def.did()))),
                            ("bits", s(format!("{}", bits))),
                        ]))
                    }
                    _ => Some(J::Obj(vec![("bits", s(format!("{}", bits)))])),
                }
            }
            _ => None,
        }
    }

    fn constant(&self, owner: LocalDefId, c: &mir::ConstOperand<'tcx>) -> J {
        let t = c.const_.ty();
        let tj = self.ty(t, 0);
        let mut v: J = J::Null;
        match t.kind() {
            ty::FnDef(def, args) => {
                v = J::Obj(vec![("fn", self.fnref(owner, *def, args))]);
            }
            _ => {}
        }
        if matches!(v, J::Null) {
            match c.const_ {
                MirConst::Val(val, ty_) => {
                    v = self.constval(val, ty_);
                }
                MirConst::Unevaluated(uv, ty_) => {
                    if let Some(p) = uv.promoted {
                        v = J::Obj(vec![("promoted", J::Int(p.as_u32() as i128))]);
                    } else {
                        let env = TypingEnv::post_analysis(self.tcx, owner);
                        let scalar_like = matches!(
                            ty_.kind(),
                            ty::Bool | ty::Int(_) | ty::Uint(_) | ty::Char | ty::Adt(..) | ty::Ref(..)
                        );
                        let mut done = false;
                        if scalar_like && !uv.args.has_param() && !uv.args.has_infer() {
                            if let Ok(val) = c.const_.eval(self.tcx, env, c.span) {
                                let j = self.constval(val, ty_);
                                if !matches!(j, J::Null) {
                                    v = J::Obj(vec![
                                        ("item", s(self.path(uv.def))),
                                        ("val", j),
                                    ]);
                                    done = true;
                                }
                            }
                        }
                        if !done {
                            v = J::Obj(vec![("item", s(self.path(uv.def)))]);
                        }
                    }
                }
                MirConst::Ty(_, ct) => {
                    v = J::Obj(vec![("tyconst", s(format!("{:?}", ct)))]);
                }
            }
        }
        J::Obj(vec![("k", s("const")), ("ty", tj), ("v", v)])
    }

    fn constval(&self, val: ConstValue, t: Ty<'tcx>) -> J {
        match val {
            ConstValue::Scalar(_) => self.scalar_of(val, t).unwrap_or(J::Null),
            ConstValue::ZeroSized => J::Obj(vec![("zst", s(format!("{:?}", t)))]),
            ConstValue::Slice { alloc_id, meta } => {
                // &str / &[u8] constants
                let is_str = match t.kind() {
                    ty::Ref(_, inner, _) => matches!(inner.kind(), ty::Str),
                    _ => false,
                };
                if is_str {
                    if let rustc_middle::mir::interpret::GlobalAlloc::Memory(alloc) =
                        self.tcx.global_alloc(alloc_id)
                    {
                        let a = alloc.inner();
                        let len = meta as usize;
                        if len <= a.len() {
                            let bytes = a.inspect_with_uninit_and_ptr_outside_interpreter(0..len);
                            return J::Obj(vec![(
                                "str",
                                s(String::from_utf8_lossy(bytes).into_owned()),
                            )]);
                        }
                    }
                }
                J::Obj(vec![("opaque", s("slice"))])
            }
            ConstValue::Indirect { .. } => J::Obj(vec![("opaque", s("indirect"))]),
        }
    }

    /// `<P as Trait>::Assoc` normalised for type P (used for clap's TypedValueParser::Value)
    fn assoc_of(&self, owner: LocalDefId, trait_path_suffix: &str, assoc: &str, p: Ty<'tcx>) -> Option<Ty<'tcx>> {
        let tcx = self.tcx;
        let tr = tcx.all_traits_including_private().find(|d| tcx.def_path_str(*d).ends_with(trait_path_suffix))?;
        let item = tcx
            .associated_items(tr)
            .in_definition_order()
            .find(|i| i.name().as_str() == assoc && i.is_type())?;
        let proj = Ty::new_projection(tcx, item.def_id, [p]);
        let env = TypingEnv::post_analysis(tcx, owner);
        tcx.try_normalize_erasing_regions(env, ty::Unnormalized::new(proj)).ok()
    }

    fn fnref(&self, owner: LocalDefId, def: DefId, args: ty::GenericArgsRef<'tcx>) -> J {
        let mut fields = vec![("path", s(self.path(def))), ("args", self.gargs(args, 1))];
        let dp = self.tcx.def_path_str(def);
        if dp.ends_with("Arg::value_parser") {
            if let Some(p) = args.iter().filter_map(|a| a.as_type()).next() {
                let p_has_params = p.has_param() || p.has_infer();
                if !p_has_params {
                    if let Some(v) = self.assoc_of(owner, "builder::TypedValueParser", "Value", p) {
                        fields.push(("parser_value", self.ty(v, 1)));
                    }
                }
            }
        }
        // trait method? try to resolve to the impl
        let is_trait_item = self.tcx.trait_of_assoc(def).is_some();
        if is_trait_item {
            fields.push(("trait_item", J::Bool(true)));
            let env = TypingEnv::post_analysis(self.tcx, owner);
            if let Ok(Some(inst)) = Instance::try_resolve(self.tcx, env, def, args) {
                let idef = inst.def_id();
                let kind = match inst.def {
                    ty::InstanceKind::Item(_) => "item",
                    ty::InstanceKind::ClosureOnceShim { .. } => "closure_once_shim",
                    ty::InstanceKind::FnPtrShim(..) => "fnptr_shim",
                    ty::InstanceKind::Virtual(..) => "virtual",
                    ty::InstanceKind::CloneShim(..) => "clone_shim",
                    ty::InstanceKind::DropGlue(..) => "drop_glue",
                    ty::InstanceKind::ReifyShim(..) => "reify_shim",
                    _ => "other",
                };
                fields.push((
                    "impl",
                    J::Obj(vec![
                        ("path", s(self.path(idef))),
                        ("kind", s(kind)),
                        ("args", self.gargs(inst.args, 1)),
                    ]),
                ));
            }
        }
        J::Obj(fields)
    }

    fn operand(&self, owner: LocalDefId, body: &Body<'tcx>, o: &Operand<'tcx>) -> J {
        match o {
            Operand::Copy(p) => J::Obj(vec![("k", s("copy")), ("pl", self.place(body, p))]),
            Operand::Move(p) => J::Obj(vec![("k", s("move")), ("pl", self.place(body, p))]),
            Operand::Constant(c) => self.constant(owner, c),
            _ => J::Obj(vec![("k", s("runtimecheck"))]),
        }
    }

    fn rvalue(&self, owner: LocalDefId, body: &Body<'tcx>, rv: &Rvalue<'tcx>) -> J {
        match rv {
            Rvalue::Use(o, ..) => J::Obj(vec![("k", s("use")), ("o", self.operand(owner, body, o))]),
            Rvalue::Repeat(o, n) => J::Obj(vec![
                ("k", s("repeat")),
                ("o", self.operand(owner, body, o)),
                ("n", s(format!("{:?}", n))),
            ]),
            Rvalue::Ref(_, bk, p) => J::Obj(vec![
                ("k", s("ref")),
                (
                    "mut",
                    J::Bool(matches!(bk, BorrowKind::Mut { .. })),
                ),
                ("fake", J::Bool(matches!(bk, BorrowKind::Fake(_)))),
                ("pl", self.place(body, p)),
            ]),
            Rvalue::RawPtr(_, p) => J::Obj(vec![("k", s("rawptr")), ("pl", self.place(body, p))]),
            Rvalue::Cast(kind, o, t) => J::Obj(vec![
                ("k", s("cast")),
                ("kind", s(match kind {
                    CastKind::IntToInt => "IntToInt".to_string(),
                    CastKind::PointerCoercion(pc, _) => format!("PointerCoercion({:?})", pc),
                    other => format!("{:?}", other),
                })),
                ("o", self.operand(owner, body, o)),
                ("ty", self.ty(*t, 0)),
            ]),
            Rvalue::BinaryOp(op, ops) => J::Obj(vec![
                ("k", s("binop")),
                ("op", s(format!("{:?}", op))),
                ("l", self.operand(owner, body, &ops.0)),
                ("r", self.operand(owner, body, &ops.1)),
            ]),
            Rvalue::UnaryOp(op, o) => J::Obj(vec![
                ("k", s("unop")),
                ("op", s(format!("{:?}", op))),
                ("o", self.operand(owner, body, o)),
            ]),
            Rvalue::Discriminant(p) => {
                J::Obj(vec![("k", s("discriminant")), ("pl", self.place(body, p))])
            }
            Rvalue::Aggregate(kind, ops) => {
                let opsj = J::Arr(ops.iter().map(|o| self.operand(owner, body, o)).collect());
                let kj = match &**kind {
                    AggregateKind::Array(_) => J::Obj(vec![("k", s("array"))]),
                    AggregateKind::Tuple => J::Obj(vec![("k", s("tuple"))]),
                    AggregateKind::Adt(def, vidx, _args, _, _) => {
                        let adt = self.tcx.adt_def(*def);
                        let variant = &adt.variants()[*vidx];
                        J::Obj(vec![
                            ("k", s("adt")),
                            ("path", s(self.path(*def))),
                            ("variant", s(variant.name.to_string())),
                            (
                                "fields",
                                J::Arr(variant.fields.iter().map(|f| s(f.name.to_string())).collect()),
                            ),
                        ])
                    }
                    AggregateKind::Closure(def, _) => {
                        J::Obj(vec![("k", s("closure")), ("def", s(self.path(*def)))])
                    }
                    AggregateKind::Coroutine(def, _) => {
                        J::Obj(vec![("k", s("coroutine")), ("def", s(self.path(*def)))])
                    }
                    AggregateKind::CoroutineClosure(def, _) => {
                        J::Obj(vec![("k", s("coroutineclosure")), ("def", s(self.path(*def)))])
                    }
                    AggregateKind::RawPtr(..) => J::Obj(vec![("k", s("rawptr"))]),
                };
                J::Obj(vec![("k", s("aggregate")), ("kind", kj), ("ops", opsj)])
            }
            Rvalue::CopyForDeref(p) => {
                J::Obj(vec![("k", s("use")), ("o", J::Obj(vec![("k", s("copy")), ("pl", self.place(body, p))]))])
            }
            Rvalue::ThreadLocalRef(d) => J::Obj(vec![("k", s("tls")), ("def", s(self.path(*d)))]),
            other => J::Obj(vec![("k", s("other")), ("s", s(format!("{:?}", other)))]),
        }
    }

    fn unwind(&self, u: &UnwindAction) -> J {
        match u {
            UnwindAction::Continue => s("continue"),
            UnwindAction::Unreachable => s("unreachable"),
            UnwindAction::Terminate(_) => s("terminate"),
            UnwindAction::Cleanup(bb) => J::Int(bb.as_u32() as i128),
        }
    }

    fn bb(&self, b: BasicBlock) -> J {
        J::Int(b.as_u32() as i128)
    }

    fn terminator(&self, owner: LocalDefId, body: &Body<'tcx>, t: &mir::Terminator<'tcx>) -> J {
        let sp = t.source_info.span;
        let mut f: Vec<(&'static str, J)> = Vec::new();
        match &t.kind {
            TerminatorKind::Goto { target } => {
                f.push(("k", s("goto")));
                f.push(("t", self.bb(*target)));
            }
            TerminatorKind::SwitchInt { discr, targets } => {
                f.push(("k", s("switch")));
                f.push(("d", self.operand(owner, body, discr)));
                let dty = discr.ty(&body.local_decls, self.tcx);
                f.push(("dty", self.ty(dty, 0)));
                f.push((
                    "targets",
                    J::Arr(
                        targets
                            .iter()
                            .map(|(v, bb)| J::Arr(vec![s(format!("{}", v)), self.bb(bb)]))
                            .collect(),
                    ),
                ));
                f.push(("otherwise", self.bb(targets.otherwise())));
            }
            TerminatorKind::UnwindResume => f.push(("k", s("resume"))),
            TerminatorKind::UnwindTerminate(_) => f.push(("k", s("terminate"))),
            TerminatorKind::Return => f.push(("k", s("return"))),
            TerminatorKind::Unreachable => f.push(("k", s("unreachable"))),
            TerminatorKind::Drop { place, target, unwind, replace, .. } => {
                f.push(("k", s("drop")));
                f.push(("pl", self.place(body, place)));
                f.push(("t", self.bb(*target)));
                f.push(("unwind", self.unwind(unwind)));
                f.push(("replace", J::Bool(*replace)));
            }
            TerminatorKind::Call { func, args, destination, target, unwind, fn_span, .. } => {
                f.push(("k", s("call")));
                f.push(("f", self.operand(owner, body, func)));
                f.push((
                    "args",
                    J::Arr(args.iter().map(|a| self.operand(owner, body, &a.node)).collect()),
                ));
                f.push(("dest", self.place(body, destination)));
                f.push(("t", opt(*target, |b| self.bb(b))));
                f.push(("unwind", self.unwind(unwind)));
                f.push(("fn_loc", self.loc(*fn_span)));
            }
            TerminatorKind::TailCall { func, args, .. } => {
                f.push(("k", s("tailcall")));
                f.push(("f", self.operand(owner, body, func)));
                f.push((
                    "args",
                    J::Arr(args.iter().map(|a| self.operand(owner, body, &a.node)).collect()),
                ));
            }
            TerminatorKind::Assert { cond, expected, target, unwind, msg } => {
                f.push(("k", s("assert")));
                f.push(("cond", self.operand(owner, body, cond)));
                f.push(("expected", J::Bool(*expected)));
                f.push(("t", self.bb(*target)));
                f.push(("unwind", self.unwind(unwind)));
                let m = format!("{:?}", msg);
                let kind = m.split(|c: char| !c.is_alphanumeric()).next().unwrap_or("").to_string();
                f.push(("msg", s(kind)));
            }
            TerminatorKind::Yield { value, resume, drop, .. } => {
                f.push(("k", s("yield")));
                f.push(("value", self.operand(owner, body, value)));
                f.push(("t", self.bb(*resume)));
                f.push(("drop", opt(*drop, |b| self.bb(b))));
            }
            TerminatorKind::CoroutineDrop => f.push(("k", s("coroutinedrop"))),
            TerminatorKind::FalseEdge { real_target, imaginary_target } => {
                f.push(("k", s("falseedge")));
                f.push(("t", self.bb(*real_target)));
                f.push(("imaginary", self.bb(*imaginary_target)));
            }
            TerminatorKind::FalseUnwind { real_target, unwind } => {
                f.push(("k", s("falseunwind")));
                f.push(("t", self.bb(*real_target)));
                f.push(("unwind", self.unwind(unwind)));
            }
            TerminatorKind::InlineAsm { .. } => f.push(("k", s("asm"))),
        }
        f.push(("loc", self.loc(sp)));
        f.push(("exp", self.exp(sp)));
        J::Obj(f)
    }

    fn body(&self, owner: LocalDefId, body: &Body<'tcx>) -> Vec<(&'static str, J)> {
        let mut locals = Vec::new();
        for (_l, decl) in body.local_decls.iter_enumerated() {
            locals.push(J::Obj(vec![
                ("ty", self.ty(decl.ty, 0)),
                ("mut", J::Bool(decl.mutability.is_mut())),
                ("user", J::Bool(decl.is_user_variable())),
            ]));
        }
        let mut dbg = Vec::new();
        for vdi in body.var_debug_info.iter() {
            let val = match &vdi.value {
                VarDebugInfoContents::Place(p) => self.place(body, p),
                VarDebugInfoContents::Const(c) => self.constant(owner, c),
            };
            dbg.push(J::Obj(vec![
                ("name", s(vdi.name.to_string())),
                ("v", val),
                ("arg", opt(vdi.argument_index, |i| J::Int(i as i128))),
            ]));
        }
        let mut blocks = Vec::new();
        for (_bb, data) in body.basic_blocks.iter_enumerated() {
            let mut stmts = Vec::new();
            for st in data.statements.iter() {
                let sp = st.source_info.span;
                match &st.kind {
                    StatementKind::Assign(b) => {
                        let (pl, rv) = &**b;
                        stmts.push(J::Obj(vec![
                            ("k", s("assign")),
                            ("pl", self.place(body, pl)),
                            ("rv", self.rvalue(owner, body, rv)),
                            ("loc", self.loc(sp)),
                            ("exp", self.exp(sp)),
                        ]));
                    }
                    StatementKind::SetDiscriminant { place, variant_index } => {
                        stmts.push(J::Obj(vec![
                            ("k", s("setdiscr")),
                            ("pl", self.place(body, place)),
                            ("vi", J::Int(variant_index.as_u32() as i128)),
                            ("loc", self.loc(sp)),
                        ]));
                    }
                    StatementKind::StorageDead(l) => {
                        stmts.push(J::Obj(vec![
                            ("k", s("dead")),
                            ("l", J::Int(l.as_u32() as i128)),
                        ]));
                    }
                    _ => {}
                }
            }
            let term = data.terminator();
            blocks.push(J::Obj(vec![
                ("cleanup", J::Bool(data.is_cleanup)),
                ("stmts", J::Arr(stmts)),
                ("term", self.terminator(owner, body, term)),
            ]));
        }
        vec![
            ("argc", J::Int(body.arg_count as i128)),
            ("locals", J::Arr(locals)),
            ("debug", J::Arr(dbg)),
            ("blocks", J::Arr(blocks)),
        ]
    }

    fn attrs_of(&self, did: LocalDefId) -> J {
        // Derive-helper attributes (#[serde(skip)], #[strum(disabled)], ...) are read from the source text that
        // precedes the item: from the end of the previous line that does not start with `#[`/`///` up to the item.
        let sm = self.tcx.sess.source_map();
        let sp = self.tcx.def_span(did);
        let mut v = Vec::new();
        let lo = sm.lookup_char_pos(sp.lo());
        let file = lo.file.clone();
        let mut line = lo.line; // 1-based line of the item
        // attributes on the same line before the item
        if let Some(src) = file.get_line(line - 1) {
            let prefix: String = src.chars().take(lo.col.0).collect();
            collect_attrs(&prefix, &mut v);
        }
        // preceding attribute / doc lines
        while line > 1 {
            line -= 1;
            let Some(src) = file.get_line(line - 1) else { break };
            let t = src.trim();
            if t.starts_with("#[") || t.starts_with("#![") {
                collect_attrs(t, &mut v);
            } else if t.starts_with("///") || t.starts_with("//") || t.is_empty() {
                continue;
            } else {
                break;
            }
        }
        J::Arr(v)
    }
}

fn collect_attrs(text: &str, out: &mut Vec<J>) {
    let b: Vec<char> = text.chars().collect();
    let mut i = 0;
    while i + 1 < b.len() {
        if b[i] == '#' && b[i + 1] == '[' {
            let mut depth = 0i32;
            let mut j = i + 1;
            while j < b.len() {
                if b[j] == '[' {
                    depth += 1;
                } else if b[j] == ']' {
                    depth -= 1;
                    if depth == 0 {
                        break;
                    }
                }
                j += 1;
            }
            let a: String = b[i..=j.min(b.len() - 1)].iter().collect();
            out.push(J::Str(a));
            i = j + 1;
        } else {
            i += 1;
        }
    }
}

struct FactGen {
    features: Vec<String>,
}

impl rustc_driver::Callbacks for FactGen {
    fn after_expansion<'tcx>(
        &mut self,
        _compiler: &rustc_interface::interface::Compiler,
        tcx: TyCtxt<'tcx>,
    ) -> Compilation {
        let out_dir = match std::env::var("FACTGEN_OUT") {
            Ok(d) => d,
            Err(_) => return Compilation::Continue,
        };
        let cx = Cx { tcx };
        let crate_name = tcx.crate_name(rustc_hir::def_id::LOCAL_CRATE).to_string();
        let pkg = std::env::var("CARGO_PKG_NAME").unwrap_or_else(|_| crate_name.clone());

        // ---- bodies
        let mut bodies = Vec::new();
        for def in tcx.hir_body_owners() {
            let kind = tcx.def_kind(def);
            let kind_s = match kind {
                DefKind::Fn => "fn",
                DefKind::AssocFn => "method",
                DefKind::Closure => "closure",
                _ => continue,
            };
            let (steal_body, steal_prom) = tcx.mir_promoted(def);
            let body = steal_body.borrow();
            let proms = steal_prom.borrow();
            let mut f: Vec<(&'static str, J)> = Vec::new();
            f.push(("path", s(cx.path(def.to_def_id()))));
            f.push(("kind", s(kind_s)));
            let is_coroutine = tcx.is_coroutine(def.to_def_id());
            f.push(("coroutine", J::Bool(is_coroutine)));
            let parent = tcx.opt_local_parent(def);
            f.push((
                "parent",
                opt(parent, |p| s(cx.path(p.to_def_id()))),
            ));
            if matches!(kind, DefKind::Fn | DefKind::AssocFn) {
                let vis = tcx.visibility(def.to_def_id());
                f.push(("vis", s(format!("{:?}", vis))));
                // impl-of-trait information
                if let Some(impl_def) = tcx.impl_of_assoc(def.to_def_id()) {
                    if let Some(tr) = tcx.impl_opt_trait_ref(impl_def) {
                        let tr = tr.instantiate_identity().skip_norm_wip();
                        f.push(("impl_trait", s(cx.path(tr.def_id))));
                        f.push(("impl_trait_args", cx.gargs(tr.args, 1)));
                    }
                    let self_ty = tcx.type_of(impl_def).instantiate_identity().skip_norm_wip();
                    f.push(("impl_self", cx.ty(self_ty, 1)));
                }
            }
            f.push(("loc", cx.loc(tcx.def_span(def))));
            f.push(("span", cx.loc(body.span)));
            f.extend(cx.body(def, &body));
            let mut pv = Vec::new();
            for p in proms.iter() {
                pv.push(J::Obj(cx.body(def, p)));
            }
            f.push(("promoted", J::Arr(pv)));
            bodies.push(J::Obj(f));
        }

        // ---- ADTs
        let mut adts = Vec::new();
        for id in tcx.hir_free_items() {
            let did = id.owner_id.def_id;
            let kind = tcx.def_kind(did);
            if !matches!(kind, DefKind::Struct | DefKind::Enum) {
                continue;
            }
            let adt = tcx.adt_def(did.to_def_id());
            let mut variants = Vec::new();
            for v in adt.variants().iter() {
                let mut fields = Vec::new();
                for fd in v.fields.iter() {
                    let fty = tcx.type_of(fd.did).instantiate_identity().skip_norm_wip();
                    let attrs = match fd.did.as_local() {
                        Some(l) => cx.attrs_of(l),
                        None => J::Arr(vec![]),
                    };
                    fields.push(J::Obj(vec![
                        ("name", s(fd.name.to_string())),
                        ("ty", cx.ty(fty, 1)),
                        ("vis", s(format!("{:?}", fd.vis))),
                        ("attrs", attrs),
                    ]));
                }
                let vattrs = match v.def_id.as_local() {
                    Some(l) if adt.is_enum() => cx.attrs_of(l),
                    _ => J::Arr(vec![]),
                };
                variants.push(J::Obj(vec![
                    ("name", s(v.name.to_string())),
                    ("fields", J::Arr(fields)),
                    ("attrs", vattrs),
                ]));
            }
            adts.push(J::Obj(vec![
                ("path", s(cx.path(did.to_def_id()))),
                ("kind", s(if adt.is_enum() { "enum" } else { "struct" })),
                ("vis", s(format!("{:?}", tcx.visibility(did.to_def_id())))),
                ("attrs", cx.attrs_of(did)),
                ("variants", J::Arr(variants)),
                ("loc", cx.loc(tcx.def_span(did))),
            ]));
        }

        // ---- statics (shared mutable state census)
        let mut statics = Vec::new();
        for id in tcx.hir_free_items() {
            let did = id.owner_id.def_id;
            if let DefKind::Static { mutability, .. } = tcx.def_kind(did) {
                statics.push(J::Obj(vec![
                    ("path", s(cx.path(did.to_def_id()))),
                    ("mut", J::Bool(mutability.is_mut())),
                    ("loc", cx.loc(tcx.def_span(did))),
                ]));
            }
        }

        // ---- active features
        let mut feats: Vec<String> = self.features.clone();
        feats.sort();

        let root = J::Obj(vec![
            ("crate", s(crate_name.clone())),
            ("package", s(pkg.clone())),
            ("features", J::Arr(feats.into_iter().map(s).collect())),
            ("bodies", J::Arr(bodies)),
            ("adts", J::Arr(adts)),
            ("statics", J::Arr(statics)),
        ]);
        let mut out = String::new();
        root.write(&mut out);
        let path = format!("{}/{}.json", out_dir, pkg);
        let tmp = format!("{}.{}.tmp", path, std::process::id());
        std::fs::write(&tmp, out).expect("factgen: cannot write fact file");
        std::fs::rename(&tmp, &path).expect("factgen: cannot move fact file");
        Compilation::Continue
    }
}

fn main() {
    let mut args: Vec<String> = std::env::args().collect();
    // invoked as RUSTC_WORKSPACE_WRAPPER: argv[1] is the real rustc
    if args.len() > 1 && (args[1].ends_with("rustc") || args[1].contains("/rustc")) {
        args.remove(1);
    }
    let is_primary = std::env::var("CARGO_PRIMARY_PACKAGE").is_ok();
    let crate_name = args
        .iter()
        .position(|a| a == "--crate-name")
        .and_then(|i| args.get(i + 1))
        .cloned()
        .unwrap_or_default();
    let _ = is_primary; // every workspace member is dumped (the wrapper only sees members)
    let wanted = !crate_name.is_empty()
        && crate_name != "build_script_build"
        && std::env::var("FACTGEN_OUT").is_ok()
        && !args.iter().any(|a| a == "--print" || a.starts_with("--print=") || a == "-vV");
    if wanted {
        let mut features = Vec::new();
        for (i, a) in args.iter().enumerate() {
            if a == "--cfg" {
                if let Some(v) = args.get(i + 1) {
                    if let Some(rest) = v.strip_prefix("feature=") {
                        features.push(rest.trim_matches('"').to_string());
                    }
                }
            }
        }
        rustc_driver::run_compiler(&args, &mut FactGen { features });
    } else {
        struct Nop;
        impl rustc_driver::Callbacks for Nop {}
        rustc_driver::run_compiler(&args, &mut Nop);
    }
}
