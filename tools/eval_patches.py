#!/usr/bin/env python3
"""Runs the quick tier of every claimed check against each given patch in a scratch git worktree of /repo (never /repo itself).

usage: eval_patches.py --repo=<scratch worktree> [--expect=silent|fired] [--props=C01,C02] <patch.diff> ...
Prints, per patch, the checks that raise a VIOLATION and the first report heads.  Self-test tooling, not part of a registered check:
  --expect=silent  behaviour-preserving edits (an alarm is a false alarm of the rules)
  --expect=fired   property-breaking edits"""
import concurrent.futures
import json
import os
import subprocess
import sys

VERIF = os.path.dirname(os.path.dirname(os.path.abspath(__file__)))
REPO = None
ENV = dict(os.environ)
for a in sys.argv[1:]:
    if a.startswith("--repo="):
        REPO = a.split("=", 1)[1].rstrip("/")
        ENV.update(VCHECK_REPO=REPO, VCHECK_WORK=REPO + "-vwork", VCHECK_OUT=REPO + "-vout")
assert REPO and not REPO.startswith(("/repo", "/verif")), "give --repo=<scratch worktree outside /repo and /verif>"


def sh(cmd, cwd=VERIF):
    return subprocess.run(cmd, shell=True, cwd=cwd, text=True, stdout=subprocess.PIPE, stderr=subprocess.STDOUT, env=ENV)


def run_check(prop):
    r = sh("./vcheck %s --tier quick" % prop)
    fired = ("VIOLATION property=%s" % prop) in r.stdout
    heads = [l.strip() for l in r.stdout.splitlines() if l.strip().startswith(("REFUTED", "ANCHOR", "FLOOR", "UNREVIEWED", "CANNOT", "ENGINE"))]
    return prop, ("BUILD-FAIL" if "fact generation failed" in r.stdout else "fired" if fired else "silent"), heads[:8]


def main():
    patches = [a for a in sys.argv[1:] if not a.startswith("--")]
    props = [c["property_id"] for c in json.load(open(os.path.join(VERIF, "MANIFEST.json")))["checks"]]
    for a in sys.argv[1:]:
        if a.startswith("--props="):
            props = a.split("=", 1)[1].split(",")
    assert not sh("git -C %s status --porcelain" % REPO).stdout.strip(), "scratch worktree is dirty"
    out = {}
    for p in patches:
        r = sh("git -C %s apply %s" % (REPO, os.path.abspath(p)))
        if r.returncode != 0:
            print("%-50s PATCH DOES NOT APPLY %s" % (p, r.stdout.strip()[:200]))
            sh("git -C %s checkout -- ." % REPO)
            continue
        try:
            first = run_check(props[0])
            res = {first[0]: first}
            with concurrent.futures.ThreadPoolExecutor(max_workers=8) as ex:
                for o in ex.map(run_check, props[1:]):
                    res[o[0]] = o
        finally:
            sh("git -C %s checkout -- . && git -C %s clean -fdq -e target" % (REPO, REPO))
        fired = sorted(k for k, v in res.items() if v[1] != "silent")
        out[p] = {k: res[k][1:] for k in fired}
        print("%-50s %s" % (p, " ".join("%s%s" % (k, "" if res[k][1] == "fired" else "(" + res[k][1] + ")") for k in fired) or "silent"), flush=True)
        for k in fired:
            for h in res[k][2][:3]:
                print("      %s: %s" % (k, h[:170]), flush=True)
    return out


if __name__ == "__main__":
    main()
