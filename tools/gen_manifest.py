#!/usr/bin/env python3-vt
"""Generates MANIFEST.json from rules/*.py metadata (run after adding/removing a check)."""
import importlib
import json
import os
import sys

VERIF = os.path.dirname(os.path.dirname(os.path.abspath(__file__)))
sys.path.insert(0, VERIF)

props = [json.loads(l) for l in open(os.path.join(VERIF, "properties.jsonl"))]
checks = []
na = []
for p in props:
    pid = p["id"]
    if os.path.exists(os.path.join(VERIF, "rules", pid + ".py")):
        mod = importlib.import_module("rules." + pid)   # import errors must surface
    else:
        mod = None
    if mod is None or getattr(mod, "NOT_APPLICABLE", None):
        na.append({"property_id": pid, "reason": getattr(mod, "NOT_APPLICABLE", "check under construction in this round (see DESIGN.md section 3)")})
        continue
    checks.append({
        "property_id": pid,
        "quick_cmd": "./vcheck %s --tier quick" % pid,
        "thorough_cmd": "./vcheck %s --tier thorough" % pid,
        "evidence_file": "/verif/evidence/%s.json" % pid,
        "replay_cmd_template": "./vcheck %s --replay {path}" % pid,
        "engine": "factgen+mirlib+symx",
        "level_claimed": {
            "category": "other",
            "text": getattr(mod, "LEVEL_TEXT", "").strip() or (
                "Static analysis of the type-checked MIR: decides, for every path and every feature configuration, "
                "the structural clauses listed in the evidence explanation; these are necessary conditions of the "
                "property, not the behaviour itself."),
            "design_ref": "DESIGN.md section 3, " + pid,
        },
        "level_note": (getattr(mod, "NOT_DECIDED", "").strip() or "see DESIGN.md") + " Trusted: rustc nightly front end and MIR construction; specification tables in rules/%s.py; external crates as documented." % pid,
        "technique": getattr(mod, "TECHNIQUE", "static analysis: MIR dataflow / finite-domain abstract interpretation / call-graph rules over rustc facts"),
    })
manifest = {
    "version": 1,
    "setup_cmd": "./setup.sh",
    "hooks": {
        "guard": "adf_obdd_verif",
        "enable": "no hooks are needed: the checks read rustc's MIR of the unmodified sources (RUSTC_WORKSPACE_WRAPPER=factgen under cargo +nightly check)",
        "baseline_off_cmd": "cd /repo && cargo test --workspace --no-fail-fast --offline",
        "source_commits": [],
        "add_only": True,
    },
    "engines": [
        {"name": "factgen", "path": "factgen/", "kind_free_text": "rustc_private driver dumping mir_promoted, resolved callees, types, constants as JSON facts",
         "serves_properties": [c["property_id"] for c in checks]},
        {"name": "mirlib+symx", "path": "mirlib/", "kind_free_text": "CFG/dominator/provenance analyses and a path-sensitive finite-domain abstract interpreter over MIR (no execution of repository code)",
         "serves_properties": [c["property_id"] for c in checks]},
        {"name": "rules", "path": "rules/", "kind_free_text": "one rule module per property generating obligations (rules/deps.py: dependency suites shared between properties); vcheck orchestrates",
         "serves_properties": [c["property_id"] for c in checks]},
        {"name": "witness", "path": "witness/", "kind_free_text": "compile_fail doctests with error codes and no_run twins (cargo +nightly test --doc); informational only, thorough tier, never a verdict",
         "serves_properties": ["C05", "C06", "C11", "C18", "C20"]},
    ],
    "checks": checks,
    "not_applicable": na,
    "notes": "Static analysis only. Fix commits in /repo are listed in known_findings.json (fixed entries); open findings there are reported as KNOWN-FINDING lines. selftest/ (mutants, benign edits, mutation sweep, triage oracle) and seeded/ are self-test material for the checkers and are not part of any registered command.",
}
with open(os.path.join(VERIF, "MANIFEST.json"), "w") as f:
    json.dump(manifest, f, indent=1)
print("checks:", [c["property_id"] for c in checks])
print("not_applicable:", [c["property_id"] for c in na])
