#!/bin/bash
# runs every claimed check (quick tier) and prints one summary line each
cd "$(dirname "$0")/.."
for p in $(python3 -c "import json;print(' '.join(c['property_id'] for c in json.load(open('MANIFEST.json'))['checks']))"); do
  ./vcheck $p --tier ${1:-quick} | grep -E "^C[0-9]+ (quick|thorough):|VIOLATION" | tr '\n' ' '; echo
done
