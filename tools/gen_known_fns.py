#!/usr/bin/env python3
"""writes mirlib/known_fns.json: the non-closure function paths (generics stripped) of the three packages on the current tree, union over all
fact configurations present in work/facts/<current key>/ (run the thorough tier first).  This is a frozen reference table: functions
outside it are treated as new helpers and inlined into their callers (mirlib/inline.py)."""
import glob
import json
import os
import re
import sys

import hashlib

VERIF = os.path.dirname(os.path.dirname(os.path.abspath(__file__)))


def sig(b):
    """short hash of the signature: kind, impl self type, trait, types of the return place and the parameters (same function as mirlib.ir._sig)"""
    t = json.dumps([b.get("kind"), b.get("impl_self"), b.get("impl_trait"), [l["ty"] for l in b["locals"][:b["argc"] + 1]]], sort_keys=True)
    return hashlib.md5(t.encode()).hexdigest()[:10]
root = sys.argv[1] if len(sys.argv) > 1 else os.path.join(VERIF, "work", "facts")
out = {}
by_cfg = {}
n = 0
for f in glob.glob(os.path.join(root, "*", "*", "*.json")):
    raw = json.load(open(f))
    if "bodies" not in raw:
        continue
    n += 1
    s = out.setdefault(raw["package"], set())
    c = by_cfg.setdefault(raw["package"], {}).setdefault(os.path.basename(os.path.dirname(f)), {})
    for b in raw["bodies"]:
        if b["kind"] != "closure":
            s.add(re.sub(r"::<[^<>]*>", "", b["path"]))
            c[re.sub(r"::<[^<>]*>", "", b["path"])] = sig(b)
res = {k: sorted(v) for k, v in sorted(out.items())}
# per configuration: which of them exist under that feature set (a function missing from its own configuration's list was renamed or removed)
res["@by_config"] = {k: {c: dict(sorted(v.items())) for c, v in sorted(cs.items())} for k, cs in sorted(by_cfg.items())}
json.dump(res, open(os.path.join(VERIF, "mirlib", "known_fns.json"), "w"), indent=0)
print("fact files %d; %s" % (n, {k: len(v) for k, v in out.items()}))
