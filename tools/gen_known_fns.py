#!/usr/bin/env python3
"""writes mirlib/known_fns.json: the non-closure function paths (generics stripped) of the three packages on the current tree, union over all
fact configurations present in work/facts/<current key>/ (run the thorough tier first).  This is a frozen reference table: functions
outside it are treated as new helpers and inlined into their callers (mirlib/inline.py)."""
import glob
import json
import os
import re
import sys

VERIF = os.path.dirname(os.path.dirname(os.path.abspath(__file__)))
root = sys.argv[1] if len(sys.argv) > 1 else os.path.join(VERIF, "work", "facts")
out = {}
n = 0
for f in glob.glob(os.path.join(root, "*", "*", "*.json")):
    raw = json.load(open(f))
    if "bodies" not in raw:
        continue
    n += 1
    s = out.setdefault(raw["package"], set())
    for b in raw["bodies"]:
        if b["kind"] != "closure":
            s.add(re.sub(r"::<[^<>]*>", "", b["path"]))
json.dump({k: sorted(v) for k, v in sorted(out.items())}, open(os.path.join(VERIF, "mirlib", "known_fns.json"), "w"), indent=0)
print("fact files %d; %s" % (n, {k: len(v) for k, v in out.items()}))
