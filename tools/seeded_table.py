#!/usr/bin/env python3
"""writes seeded/RESULTS.md from the meta.json / result.json files under seeded/"""
import json
import os

VERIF = os.path.dirname(os.path.dirname(os.path.abspath(__file__)))
rows = []
base = os.path.join(VERIF, "seeded")
for d in sorted(os.listdir(base)):
    if not os.path.isdir(os.path.join(base, d)):
        continue
    for sub in [""] + sorted(x for x in os.listdir(os.path.join(base, d)) if os.path.isdir(os.path.join(base, d, x))):
        p = os.path.join(base, d, sub)
        if not os.path.isfile(os.path.join(p, "patch.diff")):
            continue
        meta = json.load(open(os.path.join(p, "meta.json")))
        res = json.load(open(os.path.join(p, "result.json"))) if os.path.exists(os.path.join(p, "result.json")) else None
        first = meta.get("first_evaluation", {})
        rows.append((os.path.relpath(p, base), meta, res, first))
out = ["# Seeded changes: which checks report them", "",
       "Each change was written by a sub-agent that saw only the property text and a scratch worktree; it compiles, passes the 61 tests and the doctests,",
       "and comes with a demonstration that fails with the patch and passes without it (confirmed independently, see each meta.json).",
       "Procedure per change: `git -C /repo apply patch.diff`, quick tier of all 20 checks, `git -C /repo checkout -- .` (tools/eval_seeded.py).", "",
       "| change | files | what it breaks (short) | target check | all checks that fire | first evaluation (before the rules were strengthened) | rule that reports it |", "|---|---|---|---|---|---|---|"]
for rel, meta, res, first in rows:
    summ = (meta.get("summary") or "").replace("|", "\\|").replace("\n", " ")
    if len(summ) > 230:
        summ = summ[:227] + "..."
    files = ", ".join(meta.get("files") or [])
    if res:
        tgt = "fires" if res["target_fired"] else "**silent**"
        allf = " ".join(res["fired"]) or "-"
        heads = res["reports"].get(res["target"]) or next(iter(res["reports"].values()), [])
        head = (heads[0] if heads else "").replace("|", "\\|")
        head = head.split(" at ")[0]
    else:
        tgt, allf, head = "n/a", "n/a", ""
    fe = first.get("note", "")
    out.append("| %s | %s | %s | %s | %s | %s | %s |" % (rel, files, summ, tgt, allf, fe, head))
open(os.path.join(base, "RESULTS.md"), "w").write("\n".join(out) + "\n")
print("\n".join(out[-len(rows):])[:3000])
