#!/usr/bin/env python3
"""Independent confirmation of a seeded change produced by a sub-agent (never touches /repo).

usage: confirm_seed.py <worktree> <outdir> <dest>
  worktree: scratch git worktree of ellmau/adf-obdd (outside /repo and /verif)
  outdir:   directory with patch.diff, a demo test (*.rs) and the agent's meta.json
  dest:     directory under /verif/seeded/ that receives patch.diff, the demonstration and meta.json

Steps (all in the scratch worktree): patch applies; workspace builds; the pinned suite passes with the patch (cargo test
--workspace --offline: 61 tests + doctests); the demonstration fails with the patch; the demonstration passes without it."""
import glob
import json
import os
import re
import shutil
import subprocess
import sys


def sh(cmd, cwd):
    r = subprocess.run(cmd, shell=True, cwd=cwd, text=True, stdout=subprocess.PIPE, stderr=subprocess.STDOUT,
                       env=dict(os.environ, CARGO_NET_OFFLINE="true"))
    return r.returncode, r.stdout


def main():
    wt, out, dest = sys.argv[1:4]
    meta = json.load(open(os.path.join(out, "meta.json")))
    patch = os.path.join(out, "patch.diff")
    script = os.path.join(out, "run_demo.sh")
    demos = sorted(glob.glob(os.path.join(out, "*.rs")))
    if os.path.exists(script):
        demo = script
    else:
        assert len(demos) == 1, demos
        demo = demos[0]
    text = json.dumps(meta)
    pkg, tdir = ("adf-bdd-bin", "bin/tests") if "bin/tests" in text and "lib/tests" not in text else ("adf_bdd", "lib/tests")
    ran = []
    res = {}

    def step(name, cmd, expect_ok):
        rc, o = sh(cmd, wt)
        ok = (rc == 0) == expect_ok
        tail = [l for l in o.splitlines() if l.startswith("test result") or "FAILED" in l or "panicked" in l][:8]
        ran.append({"step": name, "cmd": cmd, "exit": rc, "as_expected": ok, "output": tail})
        res[name] = ok
        return ok, o

    sh("git checkout -- . && git clean -fdq -e target -e deliver", wt)
    rc, o = sh("git apply --check %s" % patch, wt)
    if rc != 0:
        # the worktree is at the commit the agent saw; the patch must apply there
        print("PATCH DOES NOT APPLY", o)
        sys.exit(2)
    sh("git apply %s" % patch, wt)
    ok1, o1 = step("suite-with-patch", "cargo test --workspace --no-fail-fast --offline 2>&1", True)
    n_pass = sum(int(m.group(1)) for m in re.finditer(r"test result: ok\. (\d+) passed", o1))
    res["passed_with_patch"] = n_pass
    if demo == script:
        # the agent's script adds its test to the tree as it is, runs it and removes it again; exit 0 = property holds
        step("demo-with-patch-fails", "bash %s %s 2>&1" % (script, wt), False)
        sh("git apply -R %s" % patch, wt)
        step("demo-without-patch-passes", "bash %s %s 2>&1" % (script, wt), True)
    else:
        shutil.copy(demo, os.path.join(wt, tdir, "seed_demo.rs"))
        step("demo-with-patch-fails", "cargo test -p %s --offline --test seed_demo 2>&1" % pkg, False)
        sh("git checkout -- .", wt)
        step("demo-without-patch-passes", "cargo test -p %s --offline --test seed_demo 2>&1" % pkg, True)
        os.remove(os.path.join(wt, tdir, "seed_demo.rs"))
    sh("git checkout -- . && git clean -fdq -e target -e deliver", wt)
    os.makedirs(dest, exist_ok=True)
    shutil.copy(patch, os.path.join(dest, "patch.diff"))
    for f in os.listdir(out):
        p = os.path.join(out, f)
        if os.path.isfile(p) and f not in ("patch.diff", "meta.json"):
            shutil.copy(p, os.path.join(dest, f))
    confirmed = all(v for k, v in res.items() if k != "passed_with_patch") and n_pass >= 68
    m2 = {"property": meta.get("property"), "origin": "sub-agent given only the property text and a scratch worktree (base commit %s)" %
          sh("git rev-parse --short HEAD", wt)[1].strip(),
          "summary": meta.get("summary"), "breaks": meta.get("breaks"), "needs_to_manifest": meta.get("needs_to_manifest"), "files": meta.get("files"),
          "demonstration": ("run_demo.sh <worktree>: exit 0 on the unpatched tree, non-zero with patch.diff applied" if demo == script else
                            "%s: copy to %s/ and run `cargo test -p %s --offline --test <name>`; fails with patch.diff applied, passes without" % (os.path.basename(demo), tdir, pkg)),
          "agent_commands": meta.get("commands_run"), "confirmation": {"confirmed": confirmed, "tests_passed_with_patch": n_pass, "steps": ran}}
    json.dump(m2, open(os.path.join(dest, "meta.json"), "w"), indent=1)
    print("%s -> %s confirmed=%s (passed with patch: %d; %s)" % (out, dest, confirmed, n_pass, {k: v for k, v in res.items()}))


main()
