#!/usr/bin/env python3
"""Runs the checks against every seeded change under /verif/seeded: applies patch.diff to /repo's working tree
(git apply), runs the quick tier of every claimed check, reverts (git checkout -- .), and records which checks fire.

usage: eval_seeded.py [dir-substring ...]  [--tier quick|thorough] [--only-target] [--repo=<scratch worktree> [--record]] [--shard=i/n]
Results: seeded/<id>/[second/]result.json and the table seeded/RESULTS.md.  /repo must be clean; it is left clean."""
import concurrent.futures
import json
import os
import subprocess
import sys

VERIF = os.path.dirname(os.path.dirname(os.path.abspath(__file__)))
REPO = "/repo"
ENV = dict(os.environ)
for a in sys.argv[1:]:
    # --repo=<scratch worktree>: iterate without touching /repo (own fact cache and output dir); results are not recorded
    if a.startswith("--repo="):
        REPO = a.split("=", 1)[1]
        ENV.update(VCHECK_REPO=REPO, VCHECK_WORK=REPO.rstrip("/") + "-vwork", VCHECK_OUT=REPO.rstrip("/") + "-vout")


def sh(cmd, cwd=VERIF):
    return subprocess.run(cmd, shell=True, cwd=cwd, text=True, stdout=subprocess.PIPE, stderr=subprocess.STDOUT, env=ENV)


def run_check(prop, tier):
    r = sh("./vcheck %s --tier %s" % (prop, tier))
    fired = ("VIOLATION property=%s" % prop) in r.stdout
    build_fail = "fact generation failed" in r.stdout
    heads = [l.strip() for l in r.stdout.splitlines() if l.strip().startswith(("REFUTED", "ANCHOR", "FLOOR", "UNREVIEWED", "CANNOT", "ENGINE"))]
    return prop, ("BUILD-FAIL" if build_fail else "fired" if fired else "silent"), heads[:6]


def main():
    args = [a for a in sys.argv[1:] if not a.startswith("--")]
    tier = "thorough" if "--tier=thorough" in sys.argv else "quick"
    if sh("git -C %s status --porcelain" % REPO).stdout.strip():
        print("refusing: /repo is dirty")
        sys.exit(2)
    props = [c["property_id"] for c in json.load(open(os.path.join(VERIF, "MANIFEST.json")))["checks"]]
    dirs = []
    for d in sorted(os.listdir(os.path.join(VERIF, "seeded"))):
        p = os.path.join(VERIF, "seeded", d)
        if os.path.isfile(os.path.join(p, "patch.diff")):
            dirs.append(p)
        for sub in sorted(os.listdir(p)) if os.path.isdir(p) else []:
            if os.path.isfile(os.path.join(p, sub, "patch.diff")):
                dirs.append(os.path.join(p, sub))
    shard = [a for a in sys.argv if a.startswith("--shard=")]
    if shard:
        i, n = map(int, shard[0].split("=")[1].split("/"))
        dirs = [d for k, d in enumerate(dirs) if k % n == i]
    for d in dirs:
        rel = os.path.relpath(d, os.path.join(VERIF, "seeded"))
        if args and not any(a in rel for a in args):
            continue
        meta = json.load(open(os.path.join(d, "meta.json")))
        target = meta["property"]
        r = sh("git -C %s apply %s" % (REPO, os.path.join(d, "patch.diff")))
        if r.returncode != 0:
            r = sh("git -C %s apply -3 %s" % (REPO, os.path.join(d, "patch.diff")))
        if r.returncode != 0:
            print("%-14s PATCH DOES NOT APPLY: %s" % (rel, r.stdout.strip()[:200]))
            sh("git -C %s checkout -- ." % REPO)
            continue
        try:
            # the first check warms the fact cache for this tree; the rest run in parallel
            first = run_check(target, tier)
            res = {first[0]: first}
            others = [] if "--only-target" in sys.argv else [p for p in props if p != target]
            with concurrent.futures.ThreadPoolExecutor(max_workers=6) as ex:
                for out in ex.map(lambda p: run_check(p, tier), others):
                    res[out[0]] = out
        finally:
            sh("git -C %s checkout -- ." % REPO)
            sh("git -C %s reset -q" % REPO)
        fired = sorted(p for p, v in res.items() if v[1] == "fired")
        result = {"target": target, "tier": tier, "target_fired": res[target][1] == "fired", "fired": fired,
                  "reports": {p: v[2] for p, v in res.items() if v[1] != "silent"}, "status": {p: v[1] for p, v in res.items()}}
        if "--only-target" not in sys.argv and (REPO == "/repo" or "--record" in sys.argv):
            # --record with --repo=<scratch git worktree of /repo's HEAD>: same commit, same checks, own fact cache
            result["repo"] = REPO
            result["repo_head"] = sh("git -C %s rev-parse --short HEAD" % REPO).stdout.strip()
            json.dump(result, open(os.path.join(d, "result.json"), "w"), indent=1)
        print("%-14s target %s: %-6s  all fired: %s" % (rel, target, res[target][1], " ".join(fired)))
        for p in fired:
            for h in res[p][2][:2]:
                print("      %s: %s" % (p, h[:150]))
    assert not sh("git -C %s status --porcelain" % REPO).stdout.strip()


main()
