"""C12 - independence of the feature configuration."""
import importlib
import os
import tomllib

from mirlib import facts, ir
from rules import framework

EXPLANATION = """
Decided: C12.diff (the library-level rule suites of C01-C07, C09, C13, C14, C18-C20 are evaluated under several feature
configurations - quick: the default set, the empty set and adhoccounting+adhoccountmodels, which together exercise every
cfg arm at least once; thorough: all 12 distinct sets - and an obligation is reported here iff it is refuted under some
configuration while it is discharged, or does not exist, under the default one: the specification tables are the same
for every configuration, so every cfg-sibling of a function is compared with one common oracle, which implies
sibling-to-sibling agreement on the canonical state - C12.A-cfg), S.R-rec directly (the ad-hoc, memoised and naive counting procedures and the
two support procedures are alternative implementations selected by the configuration: a defect in any of them makes configurations disagree even
when the defective code is compiled everywhere), C14.P-fix in every bin configuration, C12.A-toml
(each bin feature enables the adf_bdd feature of the same name, so bin's own cfg(feature) agrees with the library it
links; the fact files of every bin configuration confirm the library's active feature set). The documented exception
(memoised model counts with adhoccounting but without adhoccountmodels) is an explicit, reasoned whitelist entry of
S.R-rec."""
NOT_DECIDED = "Equality of answers across configurations as such; decided is that the configuration changes bookkeeping only and that the alternative implementations satisfy the same specification tables."
TECHNIQUE = "static analysis: differential verdicts of the per-property rule suites across cargo feature configurations (rustc facts per cfg), manifest feature-map agreement"

MODULES = ("C01", "C02", "C03", "C04", "C05", "C06", "C07", "C09", "C13", "C14", "C18", "C19", "C20")


def check(ctx):
    lib_cfgs = facts.LIB_ALL if ctx.tier == "thorough" else facts.LIB_QUICK + [facts.Config("lib", ["frontend"])]
    default_name = facts.Config("lib").name
    rule = "C12.diff"
    ctx.rule(rule, "an obligation of a library-level rule suite refuted under a non-default feature set while discharged or absent under the default set is a "
                   "configuration dependence; defects present in every configuration belong to their own property")
    known = framework.load_known()
    known_keys = set((k["rule"], k["instance"]) for k in known.get("open", []))
    total = 0
    for name in MODULES:
        mod = importlib.import_module("rules." + name)
        sub = framework.Context(name, ctx.tier, ctx.seed)
        sub.crates = ctx.crates          # share loaded facts
        sub.configs_used = ctx.configs_used
        sub.stats = ctx.stats
        saved = getattr(mod, "configs", None)
        saved_lib = getattr(mod, "lib_configs", None)
        try:
            if saved is not None:
                mod.configs = lambda tier, c=lib_cfgs: c
            if saved_lib is not None:
                mod.lib_configs = lambda tier, c=lib_cfgs: c
            try:
                mod.check(sub)
            except Exception as e:  # an engine failure under some configuration is itself reported
                ctx.ob(rule, "%s:engine" % name, False, expected="rule suite runs under every configuration", found="%s: %s" % (type(e).__name__, e), kind="engine")
        finally:
            if saved is not None:
                mod.configs = saved
            if saved_lib is not None:
                mod.lib_configs = saved_lib
        by_key = {}
        for o in sub.obligations:
            if not (o.config or "").startswith("lib@"):
                continue
            by_key.setdefault((o.rule, o.key), {})[o.config] = o
        for (r, k), per in sorted(by_key.items()):
            total += 1
            dflt = per.get(default_name)
            for cfg, o in per.items():
                if cfg == default_name or o.ok:
                    continue
                if dflt is not None and not dflt.ok:
                    continue  # fails everywhere: not a configuration dependence
                if (r, k) in known_keys:
                    continue
                ctx.ob(rule, "%s:%s[%s]@%s" % (name, r, k, cfg), False, where=o.where, expected="same verdict as under the default features (%s)" % ("discharged" if dflt else "code absent"),
                       found="%s: expected %s, found %s" % (o.kind, o.expected, o.found), config=cfg)
        ctx.ob(rule, "%s:suite" % name, True, expected="compared", found="%d obligation keys over %d configurations" % (len(by_key), len(lib_cfgs)), nontrivial=False)
    ctx.floor(rule, "obligation keys compared", total, 500)
    # cfg-alternative implementations of one specification (ad-hoc counting in Bdd::node / memoised / naive counting; var_deps table / recursive
    # support): a defect in any alternative makes the configurations that use it disagree with those that do not, even if the defective code is
    # compiled - but not executed - everywhere, so these obligations count directly, not only differentially
    from rules import counts
    for cfg in lib_cfgs:
        ctx.cfg = cfg.name
        lib = ctx.load(cfg)
        counts.R_rec_counts(ctx, lib)
        counts.R_rec_support(ctx, lib)
    # bin configurations: C14.P-fix everywhere
    from rules import C14
    bins = facts.BIN_ALL if ctx.tier == "thorough" else [facts.Config("bin"), facts.Config("bin", []), facts.Config("bin", ["variablelist"])]
    for cfg in bins:
        ctx.cfg = cfg.name
        bin_ = ctx.load(cfg)
        C14.P_fix(ctx, bin_)
    A_toml(ctx, bins)


def A_toml(ctx, bins):
    rule = "C12.A-toml"
    ctx.rule(rule, "bin/Cargo.toml: every feature f of the binary that the library also has enables adf_bdd/f; the dependency is declared with default-features = false and the "
                   "bin default enables adf_bdd/default; per bin configuration the library facts show exactly the implied feature set")
    try:
        with open(os.path.join(facts.REPO, "bin", "Cargo.toml"), "rb") as f:
            bt = tomllib.load(f)
        with open(os.path.join(facts.REPO, "lib", "Cargo.toml"), "rb") as f:
            lt = tomllib.load(f)
    except OSError as e:
        ctx.lost(rule, "Cargo.toml", str(e))
        return
    bf, lf = bt.get("features", {}), lt.get("features", {})
    for f in sorted(set(bf) & set(lf)):
        if f == "default":
            continue
        ctx.ob(rule, "feature:%s" % f, "adf_bdd/%s" % f in bf[f], where="bin/Cargo.toml", expected="%s = [\"adf_bdd/%s\", ..]" % (f, f), found=bf[f])
    dep = bt.get("dependencies", {}).get("adf_bdd", {})
    ctx.ob(rule, "default-features-off", isinstance(dep, dict) and dep.get("default-features") is False, where="bin/Cargo.toml", expected="default-features = false", found=dep)
    ctx.ob(rule, "bin-default-enables-lib-default", "adf_bdd/default" in bf.get("default", []), where="bin/Cargo.toml", expected="default includes adf_bdd/default", found=bf.get("default"))

    def closure(feats, table, prefix=""):
        out = set()
        work = list(feats)
        while work:
            x = work.pop()
            if x in out:
                continue
            out.add(x)
            for y in table.get(x, []):
                if "/" not in y:
                    work.append(y)
        return out
    for cfg in bins:
        d, info = facts.ensure(cfg)
        libc = ir.load(d, "adf_bdd")
        binc = ir.load(d, "adf-bdd-bin")
        active_bin = set(binc.features)
        want = set()
        for f in closure(active_bin, bf):
            for y in bf.get(f, []):
                if y.startswith("adf_bdd/"):
                    want |= closure([y.split("/", 1)[1]], lf)
        ctx.ob(rule, "facts:%s" % cfg.name, set(libc.features) == want, where="bin/Cargo.toml", expected="library features %s" % sorted(want), found=sorted(libc.features), config=cfg.name)
