"""C15 - CLI output."""
from collections import defaultdict

from mirlib import facts, flow, ir, symx
from mirlib.pat import ANY, ADT, C, CLOS, F, IDX, K, OP, P, TUP, V, match
from rules import deps, kernel, semantics, shared

EXPLANATION = """
Decided: C15.A-arms (App::run: every library semantics call is controlled - nearest controlling branch conditions on
the CFG - by flag fields whose documented class equals the class of the call: GROUNDED / COMPLETE / STABLE / TWOVAL;
every flag of an arm controls at least one call; 17 guarded regions), C15.F-prints (what a region prints is the result
of its own semantics call: the grounded vector, or the item of the loop over the call's iterator / paired channel, through
print_interpretation of a dictionary derived from the object that produced it; S.X-exhaust: the printing loops are left
only at exhaustion), C15.P-order (within an arm no CFG path from a COMPLETE- or STABLE-class call to a GROUNDED-class
call, nor from a STABLE-class call to a COMPLETE-class call), C15.Y-clap (for every argument id the value type of an
explicit value_parser - normalised <P as TypedValueParser>::Value - equals the type requested by remove_one/get_one for
the same id), S.P-parse (malformed input: exit through panic before any print), C08.A-alphabet (the default library mode
must accept every label the parser accepts), C15.W-clap (no clap argument constraint - requires, conflicts_with, exclusive, group membership ... - beyond the frozen table of the two exclusive groups: every documented flag combination must stay accepted), C10.F-print (T/F/u and the statement's own name), C10.P-cli (no sort call after an ADF construction: the names would be permuted against the
conditions), and - since the printed sets are the
library's answers - the complete rule suites of C01-C05 including their dependency suites (rules/deps.py), evaluated for the library
configuration the binary links (quick: default features; thorough: the three counting configurations)."""
NOT_DECIDED = "stdout equals the definitional sets (needs C01-C05 behaviourally); behaviour for flag/mode combinations the documentation marks unsupported; clap's runtime beyond definition/access typing."
TECHNIQUE = "static analysis: control-dependence (nearest controlling flag conditions) and reachability on App::run's CFG, provenance of printed values, resolved generic types of clap definitions vs accesses"

FLAG_CLASS = {"grounded": "GROUNDED", "complete": "COMPLETE", "stable": "STABLE", "stable_counting_a": "STABLE", "stable_counting_b": "STABLE",
              "stable_pre": "STABLE", "stable_rew": "STABLE", "stable_rew2": "STABLE", "stable_ng": "STABLE", "two_val": "TWOVAL"}
CALL_CLASS = {"grounded": "GROUNDED", "complete": "COMPLETE", "stable": "STABLE", "stable_with_prefilter": "STABLE", "stable_bdd_representation": "STABLE",
              "stable_count_optimisation_heu_a": "STABLE", "stable_count_optimisation_heu_b": "STABLE", "stable_nogood": "STABLE",
              "stable_nogood_channel": "STABLE", "two_val_nogood_channel": "TWOVAL"}


def configs(tier):
    return facts.BIN_ALL if tier == "thorough" else [facts.Config("bin")]


def sem_class(p):
    q = flow.sg(p)
    if not ("::adf::Adf::" in q or "::adfbiodivine::Adf::" in q):
        return None
    return CALL_CLASS.get(flow.last(q))


def flag_switches(run, d):
    res = {}
    for bb, t in run.terminators():
        if t["k"] != "switch" or symx.in_log(t.get("exp")):
            continue
        if t["d"]["k"] not in ("copy", "move"):
            continue
        e = d.expr_operand(t["d"])
        inv = False
        if e[0] == "unop" and e[1] == "Not":
            e, inv = e[2], True
        if e[0] == "field" and e[1] == ("param", 1) and e[2] in FLAG_CLASS:
            zero = [x[1] for x in t["targets"] if x[0] == "0"]
            if not zero:
                continue
            f_t, t_t = zero[0], t["otherwise"]
            if inv:
                f_t, t_t = t_t, f_t
            res[bb] = (e[2], t_t, f_t)
    return res


def controlling(run, preds, fs, start):
    """nearest controlling flag conditions of block `start`: set of (flag, polarity)"""
    out = set()
    seen = set()
    work = [start]
    while work:
        b = work.pop()
        if b in seen:
            continue
        seen.add(b)
        for p in preds[b]:
            if p in fs:
                flag, t_t, f_t = fs[p]
                if b == t_t:
                    out.add((flag, True))
                if b == f_t:
                    out.add((flag, False))
                continue
            work.append(p)
    return out


def arms(run, d):
    """arm name -> set of blocks; by the string comparisons on self.implementation"""
    dom = run.dominators()
    res = {}
    last_false = None
    for bb, t, ci in run.calls():
        p = ir.callee_path(ci) or ""
        if flow.last(p) != "eq" or "str" not in p:
            continue
        e = d.expr_call(t, bb)
        if e[0] != "call":
            continue
        has_impl = flow.find(e, lambda n_: n_ == ("field", ("param", 1), "implementation"))
        consts = [flow.const_val(x) for x in e[3] if x[0] == "const" and isinstance(flow.const_val(x), str)]
        if not has_impl or not consts:
            continue
        sw = t["t"]
        while sw is not None and run.blocks[sw]["term"]["k"] in ("goto", "falseedge"):
            sw = run.blocks[sw]["term"]["t"]
        if sw is None or run.blocks[sw]["term"]["k"] != "switch":
            continue
        st = run.blocks[sw]["term"]
        zero = [x[1] for x in st["targets"] if x[0] == "0"]
        t_t, f_t = st["otherwise"], zero[0]
        res[consts[0]] = set(x for x in dom if t_t in dom[x])
        last_false = f_t
    if last_false is not None:
        res["_"] = set(x for x in dom if last_false in dom[x])
    return res


def A_arms(ctx, bin_):
    rule = "C15.A-arms"
    ctx.rule(rule, "every semantics call in App::run is controlled (nearest controlling branch conditions, all with polarity true) by flag fields of the class of the "
                   "call: grounded->GROUNDED; complete->COMPLETE; stable, stable_counting_a/b, stable_pre, stable_rew(2), stable_ng->STABLE; two_val->TWOVAL; every "
                   "flag tested in an arm controls at least one call of its class")
    ro = "C15.P-order"
    ctx.rule(ro, "within an arm there is no CFG path from a COMPLETE- or STABLE-class call to a GROUNDED-class call, nor from a STABLE-class call to a COMPLETE-class call")
    rp = "C15.F-prints"
    ctx.rule(rp, "a region prints exactly the result of its own call: print!(\"{}\", X.print_interpretation(&m)) with m the grounded vector or the loop item of the "
                 "call's iterator / the receiver paired with the sender given to the call, X the producing object or its print_dictionary(); loops exit at exhaustion only")
    try:
        run = bin_.one("App::run")
    except LookupError as e:
        ctx.lost(rule, "App::run", str(e))
        return
    d = flow.Defs(run)
    fs = flag_switches(run, d)
    preds = run.preds()
    am = arms(run, d)
    ctx.ob(rule, "arms", set(am) >= {"hybrid", "biodivine", "_"}, where=run.where(), expected="hybrid / biodivine / default arms", found=sorted(am))
    calls = []
    for bb, t, ci in run.calls():
        p = ir.callee_path(ci) or ""
        cls = sem_class(p)
        if cls:
            calls.append((bb, t, p, cls))
    regions = 0
    used = defaultdict(set)
    for bb, t, p, cls in calls:
        arm = [a for a, blocks in am.items() if bb in blocks]
        arm = arm[0] if arm else "?"
        ctl = controlling(run, preds, fs, bb)
        flags = sorted(f for f, pol in ctl)
        ok = bool(ctl) and all(pol for f, pol in ctl) and all(FLAG_CLASS[f] == cls for f, pol in ctl)
        key = "%s:%s<-%s" % (arm, flow.last(p), "|".join(flags) or "unguarded")
        ctx.ob(rule, key, ok, where=run.where(t.get("loc")), expected="%s-class call under %s-class flag(s)" % (cls, cls), found="controlled by %s" % sorted(ctl))
        for f, pol in ctl:
            used[arm].add(f)
        regions += 1
    # every flag switch in an arm controls some call
    for bb, (flag, t_t, f_t) in fs.items():
        arm = [a for a, blocks in am.items() if bb in blocks]
        arm = arm[0] if arm else "?"
        if flag in ("stable_rew",) and not any(bb2 for bb2 in [bb] if True) :
            pass
        # construction choice `if !self.stable_rew` is not a semantics region
        reach_t = run.reach_avoiding([t_t], set(fs) - {bb})
        has_sem = any(b2 in reach_t for b2, _, _, _ in calls)
        is_construction_choice = any(flow.sg(ir.callee_path(ir.callee_of(run.blocks[x]["term"])) or "").endswith(("::from_parser", "::from_parser_with_stm_rewrite"))
                                     for x in run.reach_avoiding([t_t, f_t], set(fs) - {bb}) if run.blocks[x]["term"]["k"] == "call" and len(run.reach_avoiding([t_t, f_t], set(fs) - {bb})) < 12)
        if is_construction_choice:
            continue
        ctx.ob(rule, "%s:flag-%s-has-call" % (arm, flag), flag in used[arm], where=run.where(run.blocks[bb]["term"].get("loc")), expected="the flag controls a call of its class", found=sorted(used[arm]))
    ctx.floor(rule, "guarded semantics calls", regions, 17)
    # ---- order
    for arm, blocks in am.items():
        in_arm = [(bb, t, p, cls) for bb, t, p, cls in calls if bb in blocks]
        for bb, t, p, cls in in_arm:
            if cls not in ("COMPLETE", "STABLE"):
                continue
            reach = run.reach_avoiding([t["t"]] if t["t"] is not None else [], set())
            bad = [(b2, p2) for b2, t2, p2, c2 in in_arm if b2 in reach and b2 != bb and ((c2 == "GROUNDED") or (cls == "STABLE" and c2 == "COMPLETE"))]
            ctx.ob(ro, "%s:%s" % (arm, flow.last(p)), not bad, where=run.where(t.get("loc")), expected="no later call of an earlier class",
                   found=["%s at %s" % (flow.last(p2), run.where(run.blocks[b2]["term"].get("loc"))) for b2, p2 in bad][:3])
    # ---- prints
    prints = []
    for bb, t, ci in run.calls():
        p = flow.sg(ir.callee_path(ci) or "")
        if p.endswith(("io::_print", "io::stdio::_print")):
            e = d.expr_call(t, bb)
            pis = flow.find(e, lambda n_: n_[0] == "call" and flow.last(n_[2]) == "print_interpretation")
            if pis:
                prints.append((bb, t, pis[0]))
    # the iterator spelling of a printing loop: <semantics call>.for_each(|model| print!("{}", X.print_interpretation(&model)))
    closure_prints = []
    roles_run, _ = flow.closure_roles(run)
    for r_ in roles_run.values():
        if r_.adaptor != "for_each":
            continue
        cb_ = bin_.body(r_.closure_def)
        if cb_ is None:
            continue
        cd_ = flow.Defs(cb_)
        caps_ = flow.resolve_captures_local(bin_, cb_) if hasattr(flow, "resolve_captures_local") else None
        for cbb, ct, cci in cb_.calls():
            cp = flow.sg(ir.callee_path(cci) or "")
            if cp.endswith(("io::_print", "io::stdio::_print")):
                ce = cd_.expr_call(ct, cbb)
                pis = flow.find(ce, lambda n_: n_[0] == "call" and flow.last(n_[2]) == "print_interpretation")
                if pis and flow.find(pis[0][3][1], lambda n_: n_ == ("param", 2)):
                    holder = pis[0][3][0]
                    if caps_:
                        holder = flow.subst_upvars(holder, caps_)
                    closure_prints.append((r_, cb_, ct, pis[0], holder))
    n_ok = 0
    for bb, t, p, cls in calls:
        se = d.expr_call(t, bb)
        mine = []
        for r_, cb_, ct, pi, holder in closure_prints:
            if flow.find(r_.receiver, lambda n_: n_ == se):
                blk = [b2 for b2, t2, c2 in run.calls() if d.expr_call(t2, b2) == r_.call]
                mine.append((blk[0] if blk else bb, ct, pi, holder))
        for pb, pt, pi in prints:
            model = pi[3][1]
            holder = pi[3][0]
            direct = bool(flow.find(model, lambda n_: n_ == se))
            via_channel = False
            if not direct and flow.last(p) in ("two_val_nogood_channel", "stable_nogood_channel"):
                # receiver paired with the sender handed to the call
                chans = flow.find(se, lambda n_: n_[0] == "call" and flow.last(n_[2]) == "unbounded")
                via_channel = bool(chans) and bool(flow.find(model, lambda n_: n_ == chans[0]))
            if direct or via_channel:
                mine.append((pb, pt, pi, holder))
        key = "%s@%s" % (flow.last(p), run.where(t.get("loc")).split(":")[-1])
        ctx.ob(rp, "printed:" + flow.last(p) + "#" + str(sum(1 for x in calls[:calls.index((bb, t, p, cls))] if flow.last(x[2]) == flow.last(p))), len(mine) >= 1, where=run.where(t.get("loc")),
               expected="a print of this call's result", found="%d prints" % len(mine))
        recv_root = root_object(se[3][0]) if se[0] == "call" and se[3] else None
        for pb, pt, pi, holder in mine:
            n_ok += 1
            hr = root_object(holder)
            same = hr is not None and hr == recv_root
            ctx.ob("C15.F-printer", "dictionary-of-producer:" + flow.last(p), same, where=run.where(pt.get("loc")),
                   expected="print_interpretation on the producing object or its print_dictionary()", found="%s vs %s" % (flow.show(hr)[:60] if hr else None, flow.show(recv_root)[:60] if recv_root else None))
            # the print is inside the region of the same flags
            c1 = controlling(run, preds, fs, pb)
            c0 = controlling(run, preds, fs, bb)
            ctx.ob(rp, "print-in-own-region:" + flow.last(p), c1 == c0 or not c1, where=run.where(pt.get("loc")), expected="same controlling flags as the call", found="%s vs %s" % (sorted(c1), sorted(c0)))
    ctx.rule("C15.F-printer", "the dictionary used to print a model is derived from the object that produced it")
    ctx.floor(rp, "prints attributed to calls", n_ok, 17)
    # loops over results exit only at exhaustion
    rule_x = "S.X-exhaust"
    ctx.rule(rule_x, "CLI printing loops over semantics results are left only when the result is exhausted")
    n = semantics.X_exhaust(ctx, bin_, rule_x, tuple("Adf::" + k for k in CALL_CLASS) + ("unbounded",), only_fns={"App::run"}, key_prefix="bin:", receivers=True)
    ctx.floor(rule_x, "bin result loops", n, 10)


def root_object(e):
    """the local object an expression is derived from: strips calls with receiver, fields, copies; print_dictionary(x) -> x"""
    guard = 0
    while isinstance(e, tuple) and e and guard < 20:
        guard += 1
        if e[0] == "call" and e[3] and flow.last(e[2]) in ("print_dictionary", "clone", "deref", "deref_mut", "borrow", "as_ref"):
            e = e[3][0]
            continue
        if e[0] == "field":
            e = e[1]
            continue
        break
    return e


def Y_clap(ctx, bin_):
    rule = "C15.Y-clap"
    ctx.rule(rule, "for every clap argument id with an explicit typed value parser, <P as TypedValueParser>::Value (normalised by rustc) equals the T of "
                   "remove_one::<T>/get_one::<T> for the same id")
    defs = {}
    acc = {}
    for b in bin_.all_bodies:
        d = None
        for bb, t, ci in b.calls():
            p = ir.callee_path(ci) or ""
            if p.endswith("Arg::value_parser") and ci.get("parser_value") is not None:
                d = d or flow.Defs(b)
                e = d.expr_call(t, bb)
                ids = [flow.const_val(x[3][0]) for x in flow.find(e, lambda n_: n_[0] == "call" and flow.fname(n_[1]) == "Arg::new" and n_[3] and n_[3][0][0] == "const")]
                if ids:
                    defs.setdefault(ids[0], set()).add(ir.ty_str(ci["parser_value"]))
            if flow.last(p) in ("remove_one", "get_one", "remove_many", "get_many", "try_remove_one", "try_get_one") and "ArgMatches" in p:
                d = d or flow.Defs(b)
                e = d.expr_call(t, bb)
                ids = [flow.const_val(x) for x in e[3][1:] if x[0] == "const" and isinstance(flow.const_val(x), str)]
                tys = [ir.ty_str(a) for a in ci.get("args", [])]
                if ids and tys:
                    acc.setdefault(ids[0], set()).add(tys[0])
    n = 0
    for i, vals in sorted(defs.items()):
        if i in acc:
            n += 1
            ctx.ob(rule, "arg:%s" % i, vals == acc[i], where="bin/src/main.rs", expected="parser value type == accessed type", found="parser yields %s, field reads %s" % (sorted(vals), sorted(acc[i])))
    ctx.floor(rule, "typed argument pairs", n, 2)


CLAP_CONSTRAINTS = ("requires", "requires_if", "requires_ifs", "conflicts_with", "conflicts_with_all", "exclusive", "required_unless_present",
                    "required_unless_present_any", "required_unless_present_all", "required_if_eq", "required_if_eq_any", "required_if_eq_all",
                    "overrides_with", "overrides_with_all", "last", "subcommand_required", "arg_required_else_help", "num_args", "value_delimiter",
                    "value_terminator", "require_equals", "trailing_var_arg")
# what today's tree declares (confirmed by reading bin/src/main.rs): the positional input is required; --lx/--an and -v/-q are the members of the two exclusive groups
CLAP_TODAY = {"group": 4, "ArgGroup::new": 1}


def W_clap(ctx, bin_):
    rule = "C15.W-clap"
    ctx.rule(rule, "census of clap argument constraints in the derived augment_args: the CLI must keep accepting every documented flag combination, so a constraint "
                   "(requires / conflicts_with / exclusive / required(true) / group membership ...) beyond the frozen table of today's tree is reported as unreviewed")
    bodies = [b for b in bin_.all_bodies if b.kind != "closure" and b.short.split("::")[-1] == "augment_args"]
    if len(bodies) != 1:
        ctx.lost(rule, "augment_args", "found %d" % len(bodies))
        return
    b = bodies[0]
    d = flow.Defs(b)
    got = {"group": 0, "ArgGroup::new": 0}
    seen_builder = 0
    for bb, t, ci in b.calls():
        p = ir.callee_path(ci) or ""
        if "clap_builder" not in p and "clap::" not in p:
            continue
        last = flow.last(p)
        owner = p.split("::")[-2] if "::" in p else ""
        if owner in ("Arg", "ArgGroup", "Command"):
            seen_builder += 1
        if owner == "Arg" and last == "required":
            continue    # the derive emits required(<bool> && action.takes_values()) for every argument; not modelled
        elif owner == "Arg" and last in ("group", "groups"):
            got["group"] += 1
        elif owner == "ArgGroup" and last == "new":
            got["ArgGroup::new"] += 1
        elif owner in ("Arg", "ArgGroup", "Command") and (last in CLAP_CONSTRAINTS or (owner == "ArgGroup" and last == "required")):
            if owner == "ArgGroup" and last == "required":
                e = d.expr_call(t, bb)
                v = flow.const_val(e[3][1]) if len(e[3]) > 1 and e[3][1][0] == "const" else "?"
                if v is False or v == 0:
                    continue
            ctx.ob(rule, "new-constraint:%s::%s" % (owner, last), False, where=b.where(t.get("loc")), expected="no argument constraint beyond today's table",
                   found="%s::%s" % (owner, last), kind="unreviewed")
    for k, n in sorted(got.items()):
        ctx.ob(rule, "census:%s" % k, n <= CLAP_TODAY[k], where=b.where(), expected="at most %d (today's tree)" % CLAP_TODAY[k], found=n, kind="unreviewed")
    ctx.floor(rule, "clap builder calls seen", seen_builder, 20)


def check(ctx):
    from rules import C08, C10
    for cfg in configs(ctx.tier):
        ctx.cfg = cfg.name
        bin_ = ctx.load(cfg)
        A_arms(ctx, bin_)
        Y_clap(ctx, bin_)
        W_clap(ctx, bin_)
        C08.P_parse(ctx, bin_, floor=3, key_prefix="bin:")
        C10.P_cli(ctx, bin_)      # sorting after an ADF was built relabels the printed statements
        C08.F_input(ctx, bin_, "bin", 3)
    ctx.cfg = "lib@default"
    lib = ctx.load(facts.Config("lib"))
    C08.A_alphabet(ctx, lib)
    C10.F_print(ctx, lib)
    # 'prints exactly the interpretations the definitions prescribe': the library-level suites of every semantics the CLI offers
    deps.library_semantics(ctx, [facts.Config("lib")] if ctx.tier == "quick" else facts.LIB_QUICK)
