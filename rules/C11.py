"""C11 - cache transparency, handle stability, determinism."""
from mirlib import facts, flow, ir, symx
from rules import kernel, shared, counts

EXPLANATION = """
Decided: S.F-memo (ite_cache, restrict_cache and count_cache are keyed by all non-self parameters, a hit returns
exactly the stored value without other effects, the value inserted on a miss is the value returned: such a memo is
transparent for a deterministic function), S.W-store and S.R-node (the node table is append-only, existing entries
are never rewritten, a handle is the index it was stored at: handles issued earlier keep their meaning),
C11.W-ac (Adf.ac is written only by the constructors and serde: no semantics method takes &mut self.ac or assigns it; bin
and server only read it), C11.E-det (every iteration over a HashMap/HashSet in the library ends in an order-insensitive
sink; Adf.rng is read only by heu_rand and written only by seed / the constructors / the serde default, and seed stores
from_seed of its own parameter; no clock, thread-spawn, environment or thread_rng call in the library; the only entropy
source is the default of the rng field)."""
NOT_DECIDED = "'Equals the answer of a fresh object' for all call histories as a behavioural statement: it follows for the memo tables from the obligations, not for the search procedures."
TECHNIQUE = "static analysis: memo-key dataflow on MIR summaries, who-may-write census over resolved field places in all three crates, effect census (hash iteration sinks, entropy/clock sources)"

AC_WRITERS = {
    "Adf::from_parser": "constructor: fills the slot of every acceptance condition",
    "Adf::from_biodivine_vector": "constructor: bridge",
    "Adf::from": "constructor from parts (server rebuild)",
    "Adf::default": "constructor",
}
RNG_WRITERS = {"Adf::seed": "documented way to fix the seed"}
RNG_READERS = {"heu_rand": "the Rand heuristic"}


def configs(tier):
    return facts.LIB_ALL if tier == "thorough" else facts.LIB_QUICK


def W_ac(ctx, crates):
    rule = "C11.W-ac"
    ctx.rule(rule, "writers of Adf.ac: " + "; ".join("%s (%s)" % kv for kv in AC_WRITERS.items()) + "; serde Deserialize; everything else only reads (clone / shared borrow)")
    n = 0
    for cname, crate in crates.items():
        for (body, bb, it, role, pl, i) in kernel.field_uses(crate, "adf::Adf", "ac"):
            n += 1
            is_serde = "_serde" in body.path
            last = i == len(pl["p"]) - 1
            writes = role in ("write", "refmut") or (role == "move" and last and any(pe["k"] == "deref" for pe in pl["p"][:i]))
            if not writes or is_serde:
                continue
            fn = crate.enclosing_fn(body)
            owner = fn.qual if fn else "?"
            ctx.ob(rule, "%s:%s:%s" % (cname, owner, role), owner in AC_WRITERS and cname == "lib", where=body.where(it.get("loc")),
                   expected="a constructor", found="%s in %s" % (role, body.path), kind="unreviewed")
    ctx.floor(rule, "uses of Adf.ac examined (%s)" % "+".join(crates), n, 10 if "lib" in crates else 2)


def E_det(ctx, lib):
    rule = "C11.E-det"
    ctx.rule(rule, "(i) hash-collection iterations end in order-insensitive sinks (collect into a hash collection, contains/len/all/any/count/for_each-insert, serialised "
                   "map content); (ii) Adf.rng: read by heu_rand only, written by Adf::seed (from_seed(parameter)) and construction only; (iii) no time / thread / env / "
                   "thread_rng calls in the library, from_entropy only in Adf::default_rng")
    # (i)
    n = 0
    for b in lib.all_bodies:
        calls, d = flow.all_call_exprs(b)
        tops = [e for bb, t, ci, e in calls]
        recv_of = set(e[3][0] for e in tops if e[0] == "call" and e[3] and flow.sg(e[2]).startswith(("std::iter::Iterator::", "std::iter::IntoIterator::", "core::iter::")))
        for bb, t, ci, e in calls:
            if e[0] != "call" or e in recv_of:
                continue  # not a maximal chain
            src, steps = flow.chain_of(e)
            chain = [src] + [s_[2] for s_ in steps]
            hash_iter = [x for x in chain if x[0] == "call" and ("collections::hash" in x[1] or "HashSet" in x[1] or "HashMap" in x[1]) and flow.last(x[2]) in
                         ("iter", "into_iter", "keys", "values", "union", "intersection", "difference", "drain", "iter_mut", "values_mut", "into_keys", "into_values")]
            if not hash_iter:
                # generic IntoIterator over a hash collection parameter (vectorize::serialize)
                continue
            n += 1
            last_name = steps[-1][0] if steps else None
            ok = False
            why = last_name
            if last_name == "collect":
                tgt = (ci.get("impl", {}).get("args") or ci.get("args") or [])
                tys = [ir.ty_str(a) for a in tgt]
                ok = any("HashSet" in x or "HashMap" in x or "BTreeSet" in x or "BTreeMap" in x for x in tys)
                why = "collect into %s" % tys[-1:] if tys else "collect"
            elif last_name in ("contains", "len", "all", "any", "count", "is_empty", "sum", "max", "min", "is_subset", "is_superset", "is_disjoint"):
                ok = True
            ctx.ob(rule, "hash-iteration:%s" % b.qual, ok, where=b.where(t.get("loc")), expected="order-insensitive sink", found=why)
    ctx.floor(rule, "hash iterations examined", n, 1)
    # vectorize: the generic serialiser of the unique table collects into a Vec that is written out as map content (order-insensitive for the reader: T::from_iter)
    try:
        sb = [x for x in lib.all_bodies if x.kind != "closure" and x.short.endswith("obdd::vectorize::serialize")][0]
        db = [x for x in lib.all_bodies if x.kind != "closure" and x.short.endswith("obdd::vectorize::deserialize")][0]
        dd = flow.Defs(db)
        ok = any(e[0] == "call" and (flow.last(e[2]) == "from_iter" or flow.last(e[2]) == "collect" and [s_[0] for s_ in flow.chain_of(e)[1]] == ["into_iter", "collect"])
                 for bb, t, ci, e in flow.all_call_exprs(db)[0])
        ctx.ob(rule, "vectorize.reader-rebuilds-map", ok, where=db.where(), expected="deserialize rebuilds the map with from_iter (entry order irrelevant)", found=ok,
               note="whitelisted hash iteration: serialised map content")
    except IndexError:
        ctx.lost(rule, "vectorize", "serialize/deserialize")
    # (ii) rng
    nr = 0
    for (body, bb, it, role, pl, i) in kernel.field_uses(lib, "adf::Adf", "rng"):
        nr += 1
        if "_serde" in body.path:
            continue
        fn = lib.enclosing_fn(body)
        owner = fn.qual if fn else "?"
        writes = role in ("write", "refmut") or (role == "move" and any(pe["k"] == "deref" for pe in pl["p"][:i]))
        if writes:
            ctx.ob(rule, "rng-writer:%s" % owner, owner in RNG_WRITERS, where=body.where(it.get("loc")), expected="Adf::seed", found=owner, kind="unreviewed")
        else:
            ctx.ob(rule, "rng-reader:%s" % owner, owner in RNG_READERS or owner in ("Adf::fmt",), where=body.where(it.get("loc")), expected="heu_rand (or Debug)", found=owner, kind="unreviewed")
    ctx.floor(rule, "uses of Adf.rng", nr, 2)
    try:
        sb = lib.one("adf::Adf::seed")
        d = flow.Defs(sb)
        ok = False
        for bb, i, s_ in sb.statements():
            if s_["k"] == "assign" and any(pe["k"] == "field" and pe.get("name") == "rng" for pe in s_["pl"]["p"]):
                e = d.expr_rvalue(s_["rv"])
                ok = bool(flow.find(e, lambda n_: n_[0] == "call" and flow.last(n_[2]) == "from_seed" and n_[3] and n_[3][0] == ("param", 2)))
        ctx.ob(rule, "seed-stores-from_seed(param)", ok, where=sb.where(), expected="self.rng = RefCell::new(StdRng::from_seed(seed))", found=ok)
    except LookupError as e:
        ctx.lost(rule, "Adf::seed", str(e))
    # (iii) ambient nondeterminism
    bad = []
    for b in lib.all_bodies:
        for bb, t, ci in b.calls():
            if symx.in_log(t.get("exp")):
                continue
            p = flow.sg(ir.callee_path(ci) or "")
            amb = (p.startswith(("std::time::", "std::env::", "std::thread::")) or "Instant::now" in p or "SystemTime" in p or p.endswith("thread_rng") or "getrandom" in p
                   or p.endswith("from_entropy") or p.endswith("from_os_rng") or "RandomState::new" in p and False)
            if amb:
                fn = lib.enclosing_fn(b)
                owner = fn.qual if fn else "?"
                if p.endswith("from_entropy") and owner == "Adf::default_rng":
                    continue
                bad.append("%s in %s" % (flow.fname(p), owner))
    ctx.ob(rule, "no-ambient-nondeterminism", not bad, expected="no clock/thread/env/entropy calls besides Adf::default_rng", found=bad[:5])
    # (iv) handles are allocation-order numbers: ordering by them (cmp / partial_cmp / < / max / min on Term values, e.g. as a tie-break of a heuristic or a sort key)
    # makes the order of answers depend on what was built on the shared diagram before.  Equality and the comparison with the constants (is_truth_value) are fine.
    ordc = []
    for b in lib.all_bodies:
        fn = lib.enclosing_fn(b)
        owner = fn.qual if fn else b.qual
        if owner.split("::")[0] in ("Term", "BddNode", "Var") and owner.split("::")[-1] in ("cmp", "partial_cmp", "lt", "le", "gt", "ge", "is_truth_value", "is_true", "max", "min", "clamp"):
            continue   # the derived impls themselves and the constant tests
        for bb, t, ci in b.calls():
            if symx.in_log(t.get("exp")):
                continue
            p_ = ir.callee_path(ci) or ""
            nm = flow.last(p_)
            if nm not in ("cmp", "partial_cmp", "lt", "le", "gt", "ge", "max", "min", "clamp", "sort", "sort_unstable", "sort_by_key", "sort_unstable_by_key", "max_by_key", "min_by_key"):
                continue
            tys = [ir.ty_str(a) for a in (ci.get("args") or [])] + [ir.ty_str(o["ty"]) for o in t.get("args", []) if isinstance(o, dict) and o.get("ty")]
            argt = []
            for o in t.get("args", []):
                if o.get("k") in ("copy", "move"):
                    lt_ = b.locals[o["pl"]["l"]]["ty"] if not o["pl"]["p"] else None
                    if lt_ is not None:
                        argt.append(ir.ty_str(lt_))
            allt = " ".join(tys + argt + [p_])
            if "datatypes::bdd::Term" in allt and "ModelCounts" not in allt and "BddNode" not in p_:
                ordc.append("%s in %s" % (flow.fname(p_), owner))
    ctx.ob(rule, "no-order-on-handles", not ordc, expected="no cmp / < / max / min / sort on Term values outside the derived impls", found=ordc[:4])


def check(ctx):
    for cfg in configs(ctx.tier):
        ctx.cfg = cfg.name
        lib = ctx.load(cfg)
        n = kernel.F_memo(ctx, lib, which=("restrict", "ite"))
        ctx.floor("S.F-memo", "memo inserts examined (vacuity guard; dropping an insert only costs time)", n, 2)
        counts.R_rec_counts(ctx, lib, rule="S.F-memo/count_cache")
        kernel.W_store(ctx, {"lib": lib})
        kernel.R_node(ctx, lib, "frontend" in lib.features)
        kernel.R_new(ctx, lib)
        W_ac(ctx, {"lib": lib})
        E_det(ctx, lib)
    others = {}
    ctx.cfg = "bin@default"
    others["bin"] = ctx.load(facts.Config("bin"))
    ctx.cfg = "server@default"
    others["server"] = ctx.load(facts.Config("server"))
    ctx.cfg = "bin+server"
    W_ac(ctx, others)
    kernel.W_store(ctx, others, rule="S.W-store/ext")
    if ctx.tier == "thorough":
        from rules import witness
        witness.check(ctx, ['W02', 'W03', 'W04', 'W05', 'W12'])   # informational: what external crates cannot reach (scope of the who-may-write census)
