"""C13 - counts, depth, supports, cubes."""
from mirlib import facts, symx
from mirlib.symx import vint, mk_adt, show
from rules import shared

EXPLANATION = """Decided: order-type table of ModelCounts::{minimum, more_models}."""
NOT_DECIDED = ""


def configs(tier):
    return facts.LIB_ALL if tier == "thorough" else facts.LIB_QUICK


def T_order(ctx, lib):
    rule = "C13.T-order"
    ctx.rule(rule, "order-type domain: for models <,=,> cmodels: minimum = min(models,cmodels); more_models <=> models >= cmodels")
    eng = ctx.engine([lib])
    MC = "adf_bdd::datatypes::bdd::ModelCounts"
    reps = {"<": (3, 7), "=": (5, 5), ">": (9, 2)}   # representatives of the three order types (models, cmodels)
    for fn, spec in (("minimum", lambda m, c: min(m, c)), ("more_models", lambda m, c: m >= c)):
        try:
            b = lib.one("datatypes::bdd::ModelCounts::" + fn)
        except LookupError as e:
            ctx.lost(rule, fn, str(e))
            continue
        # symbolic pass: the result must be a function of the two fields only
        for ot, (m, c) in reps.items():
            st = symx.State()
            mc = mk_adt(MC, "ModelCounts", [("cmodels", vint(c)), ("models", vint(m))])
            paths = eng.summarise(b, [shared.ref_to(st, mc)], st)
            rets = set(p.ret for p in paths if p.end == "return")
            want = spec(m, c)
            want_v = symx.vbool(want) if isinstance(want, bool) else vint(want)
            ctx.ob(rule, "%s[models%scmodels]" % (fn, ot), rets == {want_v} and all(p.end == "return" for p in paths),
                   where=b.where(), expected=show(want_v), found=sorted(show(r) for r in rets))


def cap_values(role):
    """capture expressions of a closure (flow exprs over the parent's params) as symx symbols"""
    from mirlib import flow
    clo = role.call[3][role.arg_index]
    out = []
    for e in clo[2]:
        if e[0] == "param":
            out.append(("sym", "P%d" % e[1]))
        elif e[0] == "field" and e[1][0] == "param":
            out.append(("field", ("sym", "P%d" % e[1][1]), e[2]))
        else:
            out.append(("sym", "cap:" + flow.show(e)))
    return out


def R_impact(ctx, lib):
    from mirlib import flow
    from rules import kernel
    from rules.kernel import deep_strip, strip, is_call, cond_val, int_of
    rule = "C13.R-impact"
    ctx.rule(rule, "passive_var_impact(v, ts) = |{t in ts : v in support(t)}|; active_var_impact(v, ts) = |{i < |ts| : Var(i) in support(ts[v])}| "
                   "(fold templates: +1 exactly under the membership test, else unchanged; init 0; over all of ts / 0..len)")
    for name in ("passive_var_impact", "active_var_impact"):
        try:
            b = lib.one("obdd::Bdd::" + name)
        except LookupError as e:
            ctx.lost(rule, name, str(e))
            continue
        roles, defs = flow.closure_roles(b)
        folds = [r for r in roles.values() if r.adaptor == "fold"]
        if len(folds) != 1:
            # the other usual spelling of a count: <range>.filter(<membership test>).count()
            filt = [r for r in roles.values() if r.adaptor == "filter"]
            ret = defs.expr_local(0)
            if len(filt) == 1 and ret[0] == "call" and flow.last(ret[2]) == "count" and ret[3] and ret[3][0] == filt[0].call:
                r = filt[0]
                src, steps = r.receiver_chain()
                if name == "passive_var_impact":
                    ok = src == ("param", 3) and [s_[0] for s_ in steps] == ["iter"]
                    ctx.ob(rule, name + ".range", ok, where=b.where(), expected="termlist.iter()", found="%s %s" % (flow.show(src), [s_[0] for s_ in steps]))
                else:
                    rcv = r.receiver
                    ok = (rcv[0] == "adt" and rcv[1].endswith("ops::Range") and flow.const_val(dict(rcv[3])["start"]) == 0
                          and dict(rcv[3])["end"][0] == "call" and flow.last(dict(rcv[3])["end"][2]) == "len" and dict(rcv[3])["end"][3][0] == ("param", 3))
                    ctx.ob(rule, name + ".range", ok, where=b.where(), expected="0..termlist.len()", found=flow.show(rcv)[:160])
                cb = lib.body(r.closure_def)
                eng = ctx.engine([lib], no_inline={"adf_bdd::obdd::Bdd::var_dependencies"})
                st = symx.State()
                env = eng.closure_env(st, cb, cap_values(r))
                if name == "passive_var_impact":
                    ITEM = shared.term_sym("item")
                    arg = shared.ref_to(st, shared.ref_to(st, ITEM))
                else:
                    ITEM = ("sym", "idx")
                    arg = shared.ref_to(st, ITEM)
                good = False
                found = []
                for p in eng.summarise(cb, [env, arg], st):
                    if p.end != "return":
                        continue
                    e = deep_strip(p.ret)
                    found.append(symx.show(e)[:160])
                    if is_call(e, "HashSet::contains"):
                        sset, elem = e[2][0], strip(e[2][1])
                        vd = symx.find_all(sset, lambda n_: is_call(n_, "Bdd::var_dependencies"))
                        if name == "passive_var_impact":
                            good = len(vd) == 1 and strip(vd[0][2][-1]) == ITEM and elem == ("sym", "P2")
                        else:
                            a_ = deep_strip(vd[0][2][-1]) if len(vd) == 1 else None
                            good = (a_ is not None and a_[0] == "index" and strip(a_[1]) == ("sym", "P3") and deep_strip(a_[2]) in (("field", ("sym", "P2"), "0"), ("sym", "P2"))
                                    and elem == shared.var_of(ITEM))
                ctx.ob(rule, name + ".membership", good, where=cb.where(), expected="filter(|x| membership test).count()", found=found[:2])
                continue
            ctx.cannot(rule, name + ".fold", "exactly one fold, or filter(..).count()", b.where(), [r.adaptor for r in roles.values()])
            continue
        r = folds[0]
        ret = defs.expr_local(0)
        ctx.ob(rule, name + ".returns-fold", ret == r.call, where=b.where(), expected="the fold result is returned", found=flow.show(ret)[:160])
        init = r.call[3][1]
        ctx.ob(rule, name + ".init-0", flow.const_val(init) == 0, where=b.where(), expected="fold starts at 0", found=flow.show(init))
        src, steps = r.receiver_chain()
        if name == "passive_var_impact":
            ok = src == ("param", 3) and [s_[0] for s_ in steps] == ["iter"]
            ctx.ob(rule, name + ".range", ok, where=b.where(), expected="termlist.iter()", found="%s %s" % (flow.show(src), [s_[0] for s_ in steps]))
        else:
            rcv = r.receiver
            ok = (rcv[0] == "adt" and rcv[1].endswith("ops::Range") and flow.const_val(dict(rcv[3])["start"]) == 0
                  and dict(rcv[3])["end"][0] == "call" and flow.last(dict(rcv[3])["end"][2]) == "len" and dict(rcv[3])["end"][3][0] == ("param", 3))
            ctx.ob(rule, name + ".range", ok, where=b.where(), expected="0..termlist.len()", found=flow.show(rcv)[:160])
        cb = lib.body(r.closure_def)
        eng = ctx.engine([lib], no_inline={"adf_bdd::obdd::Bdd::var_dependencies"})
        st = symx.State()
        caps = cap_values(r)
        env = eng.closure_env(st, cb, caps)
        ACC = ("sym", "acc")
        if name == "passive_var_impact":
            ITEM = shared.term_sym("item")
            args = [env, ACC, shared.ref_to(st, ITEM)]
        else:
            ITEM = ("sym", "idx")
            args = [env, ACC, ITEM]
        paths = eng.summarise(cb, args, st)
        n = 0
        for p in paths:
            if p.end != "return":
                continue
            n += 1
            tests = [(deep_strip(e), v) for e, v in p.cond if is_call(deep_strip(e), "HashSet::contains")]
            if len(tests) != 1:
                ctx.cannot(rule, name + ".membership", "one membership test per item", cb.where(), p.describe()[:200])
                continue
            e, v = tests[0]
            sset, elem = e[2][0], strip(e[2][1])
            vd = symx.find_all(sset, lambda n_: is_call(n_, "Bdd::var_dependencies"))
            if name == "passive_var_impact":
                good = (len(vd) == 1 and strip(vd[0][2][-1]) == ITEM and elem == ("sym", "P2"))
                exp = "var in support(item)"
            else:
                arg = deep_strip(vd[0][2][-1]) if len(vd) == 1 else None
                good = (arg is not None and arg[0] == "index" and strip(arg[1]) == ("sym", "P3")
                        and deep_strip(arg[2]) in (("field", ("sym", "P2"), "0"), ("sym", "P2"))
                        and elem == shared.var_of(ITEM))
                exp = "Var(idx) in support(termlist[var])"
            ctx.ob(rule, name + ".membership", good, where=cb.where(), expected=exp, found=symx.show(e)[:200])
            want = symx.lin_add(ACC, vint(1)) if int_of(v) == 1 else ACC
            ctx.ob(rule, name + ".step[%s]" % ("in" if int_of(v) == 1 else "out"), p.ret == want, where=cb.where(),
                   expected=symx.show(want), found=symx.show(p.ret))
        ctx.floor(rule, name + " closure paths", n, 2)


def flatten_vec(v):
    """upd:push / upd:append nest over Vec::new() -> ordered list of ('push', elem) / ('append', src)"""
    from mirlib import flow
    from rules.kernel import strip
    items = []
    v = strip(v)
    while v[0] == "app" and str(v[1]).startswith("upd:"):
        op = flow.last(v[1][4:])
        items.append((op, v[2][1] if len(v[2]) > 1 else None))
        v = strip(v[2][0])
    if not (v[0] == "app" and flow.fname(v[1]) == "Vec::new"):
        return None
    items.reverse()
    return items


def R_cubes(ctx, lib):
    from mirlib import flow
    from rules.kernel import deep_strip, strip, is_call
    rule = "C13.R-cubes"
    ctx.rule(rule, "one-level template of Bdd::interpretations over goal x (var = goal_var?) x class(hi) x class(lo): the hi branch is "
                   "explored iff var != goal_var or goal, the lo branch iff var != goal_var or not goal; a terminal child contributes one "
                   "cube iff it equals the goal; hi-branch cubes carry var positive, lo-branch cubes negative; non-terminal children are "
                   "recursed with the extended cube; a terminal root yields nothing")
    try:
        b = lib.one("obdd::Bdd::interpretations")
    except LookupError as e:
        ctx.lost(rule, "interpretations", str(e))
        return
    eng = ctx.engine([lib], no_inline={b.path})
    NEG, POS = ("sym", "neg"), ("sym", "pos")
    n = 0
    VARK = 3

    def has(v, x):
        return symx.contains(deep_strip(v), lambda n_: n_ == x)
    varv = shared.var_of(vint(VARK))
    for goal in (True, False):
        for gvk in (3, 4):
            for hic in shared.CLASSES:
                for loc in shared.CLASSES:
                    LOh = shared.term(loc) if loc != "U" else shared.term_sym("lo")
                    HIh = shared.term(hic) if hic != "U" else shared.term_sym("hi")
                    # undecided children are symbolic handles of class U: is_truth_value must be false for them
                    node = mk_adt(shared.BDDNODE, "BddNode", [("var", varv), ("lo", shared.term(loc)), ("hi", shared.term(hic))])
                    eng.index_hook = lambda e_, s_, base, idx, node=node: node if symx.contains(base, lambda n_: n_[0] == "field" and n_[2] == "nodes") else None
                    st = symx.State()
                    F = shared.term("U")
                    args = [shared.ref_to(st, ("sym", "bdd")), F, symx.vbool(goal), shared.var_of(vint(gvk)),
                            shared.ref_to(st, NEG), shared.ref_to(st, POS)]
                    paths = eng.summarise(b, args, st)
                    inst = "goal=%s,var%sgoal_var,hi=%s,lo=%s" % (str(goal).lower(), "=" if gvk == VARK else "!=", hic, loc)
                    if len(paths) != 1 or paths[0].end != "return":
                        ctx.cannot(rule, inst, "a single returning path in the finite domain", b.where(), [p.describe()[:160] for p in paths][:3])
                        continue
                    n += 1
                    items = flatten_vec(paths[0].ret)
                    if items is None:
                        ctx.cannot(rule, inst, "result is a vector built by push/append", b.where(), show(paths[0].ret)[:200])
                        continue
                    expected = []
                    if gvk != VARK or goal:
                        if hic != "U":
                            if (hic == "T") == goal:
                                expected.append(("cube", "hi"))
                        else:
                            expected.append(("rec", "hi"))
                    if gvk != VARK or not goal:
                        if loc != "U":
                            if (loc == "T") == goal:
                                expected.append(("cube", "lo"))
                        else:
                            expected.append(("rec", "lo"))
                    found = []
                    why = None
                    for op, x in items:
                        x = deep_strip(x)
                        if op == "push" and x[0] == "tuple" and len(x[1]) == 2:
                            negc, posc = x[1]
                            if has(negc, NEG) and has(posc, POS) and has(posc, varv) and not has(negc, varv) and not has(negc, POS) and not has(posc, NEG):
                                found.append(("cube", "hi"))
                            elif has(negc, NEG) and has(posc, POS) and has(negc, varv) and not has(posc, varv) and not has(negc, POS) and not has(posc, NEG):
                                found.append(("cube", "lo"))
                            else:
                                found.append(("cube", "?"))
                                why = "cube %s" % show(x)[:200]
                        elif op == "append":
                            recs = symx.find_all(x, lambda n_: is_call(n_, "Bdd::interpretations"))
                            if len(recs) != 1:
                                found.append(("append", "?"))
                                why = "append of %s" % show(x)[:160]
                                continue
                            a = [deep_strip(z) for z in recs[0][2][1:]]
                            child, g, gv, ng, ps = a
                            okc = g == symx.vbool(goal) and gv == shared.var_of(vint(gvk))
                            if child == shared.term(hic) and hic == "U" and has(ps, varv) and has(ps, POS) and not has(ng, varv) and has(ng, NEG) and okc and not (loc == "U" and False):
                                found.append(("rec", "hi"))
                            elif child == shared.term(loc) and loc == "U" and has(ng, varv) and has(ng, NEG) and not has(ps, varv) and has(ps, POS) and okc:
                                found.append(("rec", "lo"))
                            else:
                                found.append(("rec", "?"))
                                why = "recursion %s" % show(recs[0])[:240]
                        else:
                            found.append((op, "?"))
                            why = "item %s %s" % (op, show(x)[:100])
                    if hic == "U" and loc == "U":
                        # both children undecided: the recursion arguments distinguish them through the cube extension only
                        pass
                    ctx.ob(rule, inst, found == expected, where=b.where(), expected=str(expected), found=why or str(found))
    eng.index_hook = None
    # terminal root
    for c in ("B", "T"):
        st = symx.State()
        eng.index_hook = lambda e_, s_, base, idx: mk_adt(shared.BDDNODE, "BddNode", [("var", shared.var_of(vint(shared.VAR_TOP))), ("lo", shared.term(c)), ("hi", shared.term(c))])
        args = [shared.ref_to(st, ("sym", "bdd")), shared.term(c), ("sym", "goal"), shared.var_of(("sym", "gv")),
                shared.ref_to(st, NEG), shared.ref_to(st, POS)]
        paths = eng.summarise(b, args, st)
        ok = all(p.end == "return" and flatten_vec(p.ret) == [] for p in paths) and len(paths) >= 1
        ctx.ob(rule, "terminal-root[%s]" % c, ok, where=b.where(), expected="empty result", found=[show(p.ret)[:80] if p.ret else p.end for p in paths])
    eng.index_hook = None
    ctx.floor(rule, "domain rows", n, 36)


def I_range(ctx, lib):
    rule = "C13.I-range"
    ctx.rule(rule, "path and model counts grow as 2^depth with depth bounded only by the number of statements, so usize arithmetic on "
                   "them (+, *, pow in Bdd::node, modelcount_naive, modelcount_memoization) must be overflow-safe (checked/saturating/"
                   "wider type); plain usize +,*,pow is reported (debug builds panic, release builds wrap for >= 2^64 paths)")
    sites = ["obdd::Bdd::modelcount_naive", "obdd::Bdd::modelcount_memoization"]
    if "adhoccounting" in lib.features:
        sites.append("obdd::Bdd::node")
    for sfx in sites:
        try:
            b = lib.one(sfx)
        except LookupError as e:
            ctx.lost(rule, sfx, str(e))
            continue
        unsafe_ops = []
        from mirlib import flow
        d = flow.Defs(b)
        for bb, i, s_ in b.statements():
            if s_["k"] != "assign" or s_["rv"]["k"] != "binop":
                continue
            op = s_["rv"]["op"]
            if op.replace("WithOverflow", "") not in ("Add", "Mul"):
                continue
            ops = [d.expr_operand(s_["rv"]["l"]), d.expr_operand(s_["rv"]["r"])]
            if any(flow.find(e, lambda n_: n_[0] == "field" and n_[2] in ("cmodels", "models")) for e in ops):
                unsafe_ops.append("%s at %s" % (op, b.where(s_.get("loc"))))
        ctx.ob(rule, b.qual, not unsafe_ops, where=b.where(), expected="overflow-safe count arithmetic", found=unsafe_ops[:6])


def check(ctx):
    from rules import counts
    for cfg in configs(ctx.tier):
        ctx.cfg = cfg.name
        lib = ctx.load(cfg)
        T_order(ctx, lib)
        counts.R_rec_counts(ctx, lib)
        counts.R_rec_support(ctx, lib)
        R_impact(ctx, lib)
        R_cubes(ctx, lib)
        I_range(ctx, lib)
