"""C13 - counts, depth, supports, cubes."""
from mirlib import facts, symx
from mirlib.symx import vint, mk_adt, show
from rules import shared

EXPLANATION = """Decided: order-type table of ModelCounts::{minimum, more_models}."""
NOT_DECIDED = ""


def configs(tier):
    return facts.LIB_ALL if tier == "thorough" else facts.LIB_QUICK


def T_order(ctx, lib):
    rule = "C13.T-order"
    ctx.rule(rule, "order-type domain: for models <,=,> cmodels: minimum = min(models,cmodels); more_models <=> models >= cmodels")
    eng = ctx.engine([lib])
    MC = "adf_bdd::datatypes::bdd::ModelCounts"
    reps = {"<": (3, 7), "=": (5, 5), ">": (9, 2)}   # representatives of the three order types (models, cmodels)
    for fn, spec in (("minimum", lambda m, c: min(m, c)), ("more_models", lambda m, c: m >= c)):
        try:
            b = lib.one("datatypes::bdd::ModelCounts::" + fn)
        except LookupError as e:
            ctx.lost(rule, fn, str(e))
            continue
        # symbolic pass: the result must be a function of the two fields only
        for ot, (m, c) in reps.items():
            st = symx.State()
            mc = mk_adt(MC, "ModelCounts", [("cmodels", vint(c)), ("models", vint(m))])
            paths = eng.summarise(b, [shared.ref_to(st, mc)], st)
            rets = set(p.ret for p in paths if p.end == "return")
            want = spec(m, c)
            want_v = symx.vbool(want) if isinstance(want, bool) else vint(want)
            ctx.ob(rule, "%s[models%scmodels]" % (fn, ot), rets == {want_v} and all(p.end == "return" for p in paths),
                   where=b.where(), expected=show(want_v), found=sorted(show(r) for r in rets))


def check(ctx):
    from rules import counts
    for cfg in configs(ctx.tier):
        ctx.cfg = cfg.name
        lib = ctx.load(cfg)
        T_order(ctx, lib)
        counts.R_rec_counts(ctx, lib)
        counts.R_rec_support(ctx, lib)
