"""C01 - grounded = least fixpoint."""
from mirlib import facts
from rules import shared

EXPLANATION = """Decided: S.T-term."""
NOT_DECIDED = ""


def configs(tier):
    return facts.LIB_ALL if tier == "thorough" else facts.LIB_QUICK


def check(ctx):
    for cfg in configs(ctx.tier):
        ctx.cfg = cfg.name
        lib = ctx.load(cfg)
        n = shared.S_T_term(ctx, lib)
        ctx.floor("S.T-term", "functions", n, 8)
