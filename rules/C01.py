"""C01 - grounded interpretation = least fixpoint on every back-end."""
from mirlib import facts, flow, ir, symx
from rules import deps, kernel, semantics, shared

EXPLANATION = """
Decided (the necessary skeleton of the least-fixpoint computation, all paths): S.T-term (truth tables of the
information predicates over the term-class domain), S.F-full for Adf::grounded_internal and for the biodivine
restriction list var_list (every decided statement is substituted with its own value under its own index, undecided
ones are left alone), C01.P-progress (both fixpoint loops have a single exit which is taken iff no acceptance
condition became a truth value in the round: affine counter / flag argument), C01.F-io (grounded starts from a copy
of the acceptance conditions, only undecided entries are re-restricted, the loop result is returned - biodivine:
mapped through the From<&Bdd> table), C01.A-hybrid (hybrid_step feeds grounded_internal(self.ac) and
hybrid_step_opt(false) feeds self.ac into the bridge, together with the same VarContainer).
Dependency suites (rules/deps.py; each obligation is a necessary condition of this property, reported under its own rule id):
kernel-build (C07.T-conn, C07.T-ite0, C07.R-ite, S.F-memo ite_cache, S.R-node, S.R-new, S.W-store, C06.W-ctor), kernel-restrict
(C07.R-restrict, S.F-memo restrict_cache) and translation (C09.A-wire, C09.A-term, C09.F-order, C09.A-name, C01.A-hybrid): an answer
is computed on diagrams built by these functions, on every back-end.  cli-plumbing (C08.F-input, C10.P-cli, C10.F-print): what every answer
printed by adf-bdd passes through, whatever the semantics.
C01.F-io also decides that the biodivine loop restricts by exactly var_list(current interpretation), a list that is never mutated within the round."""
NOT_DECIDED = ("That the result equals the least fixpoint as a function of the ADF additionally needs the kernel obligations (C06/C07) and an "
               "induction over rounds argued on paper; equality across variable orders is not decided.")
TECHNIQUE = "static analysis: finite-domain closure tables, loop-cut path summaries with an affine progress counter, provenance of loop inputs/outputs"


def configs(tier):
    return facts.LIB_ALL if tier == "thorough" else facts.LIB_QUICK


def F_io(ctx, lib):
    rule = "C01.F-io"
    ctx.rule(rule, "Adf::grounded passes a copy of self.ac to grounded_internal and returns its result unchanged; grounded_internal copies its "
                   "input, re-restricts exactly the entries that are not truth values (filter table) and returns the loop vector; the biodivine "
                   "grounded maps the loop result through From<&Bdd> for Term")
    # native grounded
    try:
        b = lib.one("adf::Adf::grounded")
        d = flow.Defs(b)
        ret = d.expr_local(0)
        ok = (ret[0] == "call" and flow.sg(ret[1]).endswith("Adf::grounded_internal") and ret[3][0] == ("param", 1)
              and strip_copy(ret[3][1]) == ("field", ("param", 1), "ac"))
        ctx.ob(rule, "native.grounded", ok, where=b.where(), expected="grounded_internal(self, &self.ac.clone())", found=flow.show(ret)[:200])
    except LookupError as e:
        ctx.lost(rule, "Adf::grounded", str(e))
    # filters of the loops
    for fname_, kind in (("adf::Adf::grounded_internal", "native"), ("adfbiodivine::Adf::grounded_internal", "bio")):
        try:
            b = lib.one(fname_)
        except LookupError as e:
            ctx.lost(rule, fname_, str(e))
            continue
        roles, d = flow.closure_roles(b)
        ret = d.expr_local(0)
        base = strip_copy(ret)
        ctx.ob(rule, kind + ".returns-loop-vector", base == ("param", 2), where=b.where(), expected="the working copy of the input interpretation", found=flow.show(ret)[:160])
        n = 0
        eng = ctx.engine([lib], intrinsics=shared.BIO_INTRINSICS)
        for r in roles.values():
            if r.adaptor != "filter":
                continue
            src, steps = r.receiver_chain()
            if [s_[0] for s_ in steps] != ["iter_mut"]:
                continue
            n += 1
            ctx.ob(rule, kind + ".iterates-working-copy", strip_copy(src) == ("param", 2), where=b.where(), expected="new_interpretation.iter_mut().filter(..)", found=flow.show(src)[:120])
            cb = lib.body(r.closure_def)
            for c in shared.CLASSES:
                st = symx.State()
                env = eng.closure_env(st, cb, [])
                elem = shared.bio(c) if kind == "bio" else shared.term(c)
                item = shared.ref_to(st, shared.ref_to(st, elem))
                paths = eng.summarise(cb, [env, item], st)
                got = set(p.ret if p.end == "return" else ("end", p.end) for p in paths)
                ctx.ob(rule, "%s.filter[%s]" % (kind, c), got == {symx.vbool(c == "U")}, where=cb.where(), expected="re-restrict iff undecided",
                       found=sorted(symx.show(x) for x in got))
        ctx.floor(rule, kind + " undecided-filter", n, 1)
    # biodivine: the list every open condition is restricted by in a round is exactly var_list(current interpretation) - built from the interpretation as it
    # stood at the start of the round (S.F-full decides its content) and not touched afterwards.  A list extended during the sweep substitutes values under
    # indices that were never checked against the positions they belong to.
    try:
        b = lib.one("adfbiodivine::Adf::grounded_internal")
        d = flow.Defs(b)
        sites = [(bb, t, ci) for bb, t, ci in b.calls() if "biodivine_lib_bdd" in (ir.callee_path(ci) or "") and flow.last(ir.callee_path(ci)) == "restrict"]
        n_sites = 0
        for bb, t, ci in sites:
            n_sites += 1
            e = d.expr_call(t, bb)
            arg = strip_copy(e[3][1]) if e[0] == "call" and len(e[3]) > 1 else None
            is_vl = arg is not None and arg[0] == "call" and flow.sg(arg[1]).endswith("adfbiodivine::Adf::var_list")
            # the local that holds the list (destination of the var_list call): no mutable borrow
            holders = [tt["dest"]["l"] for _, tt, cc in b.calls() if flow.sg(ir.callee_path(cc) or "").endswith("adfbiodivine::Adf::var_list") and not tt["dest"]["p"]]
            holder = holders[0] if len(holders) == 1 else None
            muts = []
            if holder is not None:
                hs = {holder}
                for _, _, s_ in b.statements():   # moves of the list into its binding
                    if s_["k"] == "assign" and s_["rv"]["k"] == "use" and s_["rv"]["o"]["k"] == "move" and s_["rv"]["o"]["pl"]["l"] in hs and not s_["pl"]["p"]:
                        hs.add(s_["pl"]["l"])
                for _, _, s_ in b.statements():
                    if s_["k"] == "assign" and s_["rv"]["k"] == "ref" and s_["rv"].get("mut") and s_["rv"]["pl"]["l"] in hs:
                        muts.append(b.where(s_.get("loc")))
            ctx.ob(rule, "bio.restrict-list-is-var_list", is_vl and holder is not None and not muts, where=b.where(t.get("loc")),
                   expected="ac.restrict(&var_list) with var_list = self.var_list(&new_interpretation), never mutated", found="%s; mutable borrows of the list at %s" % (flow.show(arg)[:120] if arg else None, muts))
        ctx.floor(rule, "bio restriction sites in grounded_internal", n_sites, 1)
    except LookupError as e:
        ctx.lost(rule, "adfbiodivine::Adf::grounded_internal", str(e))
    # biodivine grounded
    try:
        b = lib.one("adfbiodivine::Adf::grounded")
        roles, d = flow.closure_roles(b)
        ret = d.expr_local(0)
        src, steps = flow.chain_of(ret)
        names = [s_[0] for s_ in steps]
        ok = (names == ["iter", "map", "collect"] and src[0] == "call" and flow.sg(src[1]).endswith("adfbiodivine::Adf::grounded_internal")
              and strip_copy(src[3][1]) == ("field", ("param", 1), "ac"))
        ctx.ob(rule, "bio.grounded", ok, where=b.where(), expected="grounded_internal(&self.ac.clone()).iter().map(Into::into).collect()", found=flow.show(ret)[:220])
        marg = steps[1][1][0] if ok else None
        if ok and marg[0] == "fnitem":
            # .map(Term::from): the conversion itself is the mapped function
            okf = "From<&biodivine_lib_bdd::Bdd>" in marg[1] and "datatypes::bdd::Term as" in marg[1]
            ctx.ob(rule, "bio.grounded-map", okf, where=b.where(), expected="<Term as From<&Bdd>>::from (table: S.T-term From<&Bdd>)", found=marg[1])
        elif ok:
            cb = lib.body(steps[1][1][0][1])
            conv = [ir.callee_path(ci) for _, t, ci in cb.calls()]
            okc = len(conv) == 1 and conv[0] is not None and ("Into" in conv[0] or "From<&biodivine_lib_bdd::Bdd>" in conv[0])
            tgt = [ci.get("impl", {}).get("args") for _, t, ci in cb.calls()]
            okt = bool(tgt) and tgt[0] and len(tgt[0]) == 2 and ir.ty_str(tgt[0][1]).endswith("Term") and "biodivine_lib_bdd::Bdd" in ir.ty_str(tgt[0][0])
            ctx.ob(rule, "bio.grounded-map", okc and okt, where=cb.where(), expected="<&Bdd as Into<Term>>::into (table: S.T-term From<&Bdd>)", found=conv)
    except LookupError as e:
        ctx.lost(rule, "adfbiodivine::Adf::grounded", str(e))


def strip_copy(e):
    while e is not None and e[0] == "call" and flow.last(e[2]) in ("clone", "into", "to_vec", "to_owned", "from", "deref", "as_slice") and e[3]:
        e = e[3][0]
    return e


def A_hybrid(ctx, lib):
    rule = "C01.A-hybrid"
    ctx.rule(rule, "hybrid_step = from_biodivine_vector(self.var_container(), &self.grounded_internal(self.ac())); hybrid_step_opt(true) = hybrid_step, "
                   "hybrid_step_opt(false) = from_biodivine_vector(self.var_container(), self.ac()); from_biodivine = the same with the adf's own parts")
    def is_vc(e):
        e = strip_copy(e)
        return (e[0] == "call" and flow.last(e[2]) == "var_container" and e[3][0] == ("param", 1)) or e == ("field", ("param", 1), "ordering")

    def is_ac(e):
        e = strip_copy(e)
        return (e[0] == "call" and flow.last(e[2]) == "ac" and e[3][0] == ("param", 1)) or e == ("field", ("param", 1), "ac")
    try:
        b = lib.one("adfbiodivine::Adf::hybrid_step")
        d = flow.Defs(b)
        ret = d.expr_local(0)
        ok = (ret[0] == "call" and flow.sg(ret[1]).endswith("adf::Adf::from_biodivine_vector") and is_vc(ret[3][0])
              and strip_copy(ret[3][1])[0] == "call" and flow.sg(strip_copy(ret[3][1])[1]).endswith("adfbiodivine::Adf::grounded_internal")
              and is_ac(strip_copy(ret[3][1])[3][1]))
        ctx.ob(rule, "hybrid_step", ok, where=b.where(), expected="from_biodivine_vector(var_container, grounded_internal(ac))", found=flow.show(ret)[:220])
    except LookupError as e:
        ctx.lost(rule, "hybrid_step", str(e))
    try:
        b = lib.one("adfbiodivine::Adf::hybrid_step_opt")
        eng = ctx.engine([lib], no_inline={"adf_bdd::adfbiodivine::Adf::hybrid_step", "adf_bdd::adf::Adf::from_biodivine_vector",
                                           "adf_bdd::adfbiodivine::Adf::grounded_internal"})
        for flag in (True, False):
            st = symx.State()
            SELF = shared.ref_to(st, ("sym", "self"))
            paths = eng.summarise(b, [SELF, symx.vbool(flag)], st)
            ok = len(paths) == 1 and paths[0].end == "return"
            found = [symx.show(p.ret)[:200] if p.ret else p.end for p in paths]
            if ok:
                r = kernel.deep_strip(paths[0].ret)
                if flag:
                    ok = kernel.is_call(r, "Adf::hybrid_step")
                else:
                    ok = (kernel.is_call(r, "Adf::from_biodivine_vector") and symx.contains(r[2][0], lambda n: n[0] == "field" and n[2] == "ordering")
                          and symx.contains(r[2][1], lambda n: n[0] == "field" and n[2] == "ac")
                          and not symx.contains(r, lambda n: n[0] == "app" and flow.last(n[1]) == "grounded_internal"))
            ctx.ob(rule, "hybrid_step_opt[%s]" % flag, ok, where=b.where(), expected="hybrid_step()" if flag else "from_biodivine_vector(var_container, ac)", found=found)
    except LookupError as e:
        ctx.lost(rule, "hybrid_step_opt", str(e))
    # the accessors
    for name, field in (("var_container", "ordering"), ("ac", "ac")):
        try:
            b = lib.one("adfbiodivine::Adf::" + name)
            d = flow.Defs(b)
            ret = strip_copy(d.expr_local(0))
            ctx.ob(rule, "accessor." + name, ret == ("field", ("param", 1), field), where=b.where(), expected="&self." + field, found=flow.show(ret))
        except LookupError as e:
            ctx.lost(rule, name, str(e))
    try:
        b = lib.one("adf::Adf::from_biodivine")
        d = flow.Defs(b)
        ret = d.expr_local(0)
        ok = (ret[0] == "call" and flow.sg(ret[1]).endswith("adf::Adf::from_biodivine_vector")
              and ret[3][0][0] == "call" and flow.last(ret[3][0][2]) == "var_container" and ret[3][0][3][0] == ("param", 1)
              and ret[3][1][0] == "call" and flow.last(ret[3][1][2]) == "ac" and ret[3][1][3][0] == ("param", 1))
        ctx.ob(rule, "from_biodivine", ok, where=b.where(), expected="from_biodivine_vector(bio.var_container(), bio.ac())", found=flow.show(ret)[:200])
    except LookupError as e:
        ctx.lost(rule, "from_biodivine", str(e))


def check(ctx):
    for cfg in configs(ctx.tier):
        ctx.cfg = cfg.name
        lib = ctx.load(cfg)
        # attribution: only the predicates the grounded computation reads
        n = shared.S_T_term(ctx, lib, which={"is_truth_value", "is_true", "bio_is_truth_value", "from_bio"})
        ctx.floor("S.T-term", "functions", n, 4)
        rule = "S.F-full"
        ctx.rule(rule, "restriction idiom FULL at the grounded sites: class(entry i) B -> restrict(acc, Var(i), false); T -> restrict(acc, Var(i), true); "
                       "U -> acc (native fold closure table; biodivine var_list filter/map tables), i = enumerate index of the tested entry")
        k, seen = semantics.F_restrict_native(ctx, lib, rule, only={"Adf::grounded_internal"})
        ctx.floor(rule, "native grounded restriction sites", k, 1)
        kb = semantics.bio_list_tables(ctx, lib, rule, which=("var_list",))
        ctx.floor(rule, "biodivine list constructions", kb, 1)
        semantics.P_progress(ctx, lib, "C01.P-progress")
        F_io(ctx, lib)
        deps.semantics_base(ctx, lib)   # includes A_hybrid
    deps.cli_plumbing(ctx)
