"""C16 - web service answers and graphs."""
from mirlib import facts, flow, ir, symx
from mirlib.pat import ANY, ADT, C, CLOS, F, IDX, K, OP, P, TUP, V, match
from rules import deps, kernel, semantics, shared, server as S
from rules.kernel import deep_strip, strip, is_call, effects_named, int_of, unloop

EXPLANATION = """
Decided: C16.A-strategy (the three tables keyed by Strategy - the has_been_solved field read, the library call, the
`$set` key - and the AcsPerStrategy field names agree per variant, and the library call is in the variant's class:
6 variants x 3 tables, extracted from the discriminant-guarded paths of the handler, the blocking closure and the
completion future), C16.T-outcome (in both completion futures only the fully successful nesting maps to
OptionWithError::Some; every Err layer - timeout, join error, parse error - maps to Error, never to Some(vec![]) or
None), S.P-parse (unparseable code becomes an error value; constructions only under Ok), C16.P-running (every
registration in currently_running is undone on every path to the closure's exit, normal or unwinding: directly, or by
the drop of a guard whose Drop impl removes the key it stores and which lives across the whole computation),
C16.F-graph (lo_edges from node.lo(), hi_edges from node.hi(); edge sources exclude the terminals; labels by the node's
own variable; root labels attach name(Var(k)) to ac[k]; the worklist is seeded with all roots and examines both children
of every member; nothing but root handles and children of members ever enters the index sets; node, label and edge sets are
filtered by the same reachable set; the guard's Drop removes its key on every path except under a poisoned blocking lock), C16.F-pair (each stored AcAndGraph
pairs the string form of a model with the graph built from the same model and the same rebuilt ADF), C14.A-dto and
C14.F-replay (storage round trip), C14.P-fix-once (the rebuild from storage does not re-apply the non-idempotent repair step), S.X-exhaust on the server's collects, and - since the stored models are the library's answers - the
complete rule suites of C01-C05 with their dependency suites (rules/deps.py) for the default library configuration."""
NOT_DECIDED = "Eventual storage, timeouts and request histories against a database (MongoDB/actix trusted); that the models are the definitional answers needs C01-C05 behaviourally."
TECHNIQUE = "static analysis: discriminant-guarded path summaries (table agreement across three sites), unwind-aware pairing rule with Drop-impl resolution, accessor/field agreement via expression reconstruction"

STRATEGY_TABLE = {
    "Ground": ("GROUNDED", "ground", ("grounded",)),
    "Complete": ("COMPLETE", "complete", ("complete",)),
    "Stable": ("STABLE", "stable", ("stable", "stable_with_prefilter", "stable_nogood", "stable_count_optimisation_heu_a", "stable_count_optimisation_heu_b")),
    "StableCountingA": ("STABLE", "stable_counting_a", ("stable_count_optimisation_heu_a",)),
    "StableCountingB": ("STABLE", "stable_counting_b", ("stable_count_optimisation_heu_b",)),
    "StableNogood": ("STABLE", "stable_nogood", ("stable_nogood",)),
}
LIB_SEM = ("grounded", "complete", "stable", "stable_with_prefilter", "stable_bdd_representation", "stable_count_optimisation_heu_a",
           "stable_count_optimisation_heu_b", "stable_nogood")


def configs(tier):
    return facts.SERVER_ALL if tier == "thorough" else [facts.Config("server")]


def strategy_variants(server):
    a = server.adt("adf::Strategy")
    return [v["name"] for v in a["variants"]]


def capture_index(server, body, pred):
    """index of the capture of `body` whose (one-level) capture expression satisfies pred"""
    caps = flow.resolve_captures_local(server, body) or []
    idx = [i for i, ce in enumerate(caps) if pred(ce)]
    return idx[0] if len(idx) == 1 else None


def is_capture(x, idx):
    """x is (a projection-free read of) capture idx of the summarised closure/future"""
    x = deep_strip(x)
    return idx is not None and x[0] == "field" and x[2] == str(idx) and deep_strip(x[1]) in (("sym", "arg1"), ("sym", "*arg1"))


def strategy_cond(p, pred):
    """variant index assumed on path p for a discriminant expression satisfying pred"""
    for e, v in p.cond:
        e = deep_strip(unloop(e))
        if e[0] == "app" and e[1] == "discr" and pred(e[2][0]) and v[0] == "int":
            return int_of(v)
    return None


def A_strategy(ctx, server):
    rule = "C16.A-strategy"
    ctx.rule(rule, "per Strategy variant: has_been_solved reads acs_per_strategy.<f>, the blocking closure calls a library procedure of the variant's class, the completion "
                   "future writes `$set` {\"acs_per_strategy.<f>\"} with the same f: " + "; ".join("%s->(%s, %s)" % (k, v[0], v[1]) for k, v in STRATEGY_TABLE.items()))
    try:
        variants = strategy_variants(server)
        outer, cor, nested = S.handler_bodies(server, "solve_adf_problem")
    except LookupError as e:
        ctx.lost(rule, "solve_adf_problem", str(e))
        return
    ctx.ob(rule, "variants", set(variants) == set(STRATEGY_TABLE), expected=sorted(STRATEGY_TABLE), found=variants, kind="unreviewed")
    # ---- (1) has_been_solved in the handler coroutine: arms of the switch on discr(strategy)
    d = flow.Defs(cor)
    tab1 = {}
    for bb, t in cor.terminators():
        if t["k"] != "switch" or t["d"]["k"] not in ("copy", "move"):
            continue
        e = d.expr_operand(t["d"])
        if not (e[0] == "discr" and flow.find(e, lambda n_: n_[0] == "field" and n_[2] == "strategy")):
            continue
        targets = {int(v): b for v, b in t["targets"]}
        reach = {k: cor.reach_avoiding([b], set()) for k, b in targets.items()}
        for k, b in targets.items():
            others = set().union(*[r for kk, r in reach.items() if kk != k]) if len(reach) > 1 else set()
            excl = reach[k] - others
            fields = set()
            for x in excl:
                tt = cor.blocks[x]["term"]
                if tt["k"] == "call" and flow.last(ir.callee_path(ir.callee_of(tt)) or "") == "is_some":
                    ce = d.expr_call(tt, x)
                    for n_ in flow.find(ce, lambda n_: n_[0] == "field" and n_[1][0] == "field" and n_[1][2] == "acs_per_strategy"):
                        fields.add(n_[2])
                # the arm may only select the field (`Strategy::Ground => &self.ground` in an accessor that was inlined) and the is_some() follows the match
                for s_ in cor.blocks[x]["stmts"]:
                    if s_["k"] == "assign" and s_["rv"]["k"] in ("ref", "use"):
                        pl = s_["rv"]["pl"] if s_["rv"]["k"] == "ref" else (s_["rv"]["o"].get("pl") if s_["rv"]["o"]["k"] in ("copy", "move") else None)
                        names_ = [pe.get("name") for pe in (pl or {}).get("p", []) if pe["k"] == "field"]
                        base_e = d.expr_rvalue(s_["rv"]) if pl else None
                        if names_ and base_e is not None:
                            for n_ in flow.find(base_e, lambda n_: n_[0] == "field" and n_[1][0] == "field" and n_[1][2] == "acs_per_strategy"):
                                fields.add(n_[2])
            if fields and k < len(variants):
                tab1[variants[k]] = fields
    some_calls = [1 for bb, t, ci in cor.calls() if flow.last(ir.callee_path(ci) or "") == "is_some"]
    for vn, (cls, f, _) in STRATEGY_TABLE.items():
        ctx.ob(rule, "has_been_solved[%s]" % vn, tab1.get(vn) == {f} and bool(some_calls), where=cor.where(), expected="acs_per_strategy.%s.is_some()" % f, found=sorted(tab1.get(vn, [])))
    # ---- (2) library call in the blocking closure
    blocking = [n for n in nested if not n.is_coroutine and any(flow.last(ir.callee_path(ci) or "") in LIB_SEM and "adf_bdd::adf" in (ir.callee_path(ci) or "") for _, _, ci in n.calls())]
    if len(blocking) != 1:
        ctx.cannot(rule, "blocking-closure", "one closure running the library", cor.where(), [n.path[-40:] for n in blocking])
    else:
        bc = blocking[0]
        eng = ctx.engine([server, server.lib] if getattr(server, "lib", None) else [server], auto_inline=False, max_paths=4000)
        paths = eng.summarise(bc)
        tab2 = {}
        sidx = capture_index(server, bc, lambda ce: ce[0] == "field" and ce[2] == "strategy")
        for p in paths:
            k = strategy_cond(p, lambda x: is_capture(x, sidx) or symx.contains(x, lambda n_: n_[0] == "field" and n_[2] == "strategy"))
            if k is None or k >= len(variants):
                continue
            libs = set(flow.last(e["resolved"]) for e in p.effects if e.get("kind") == "call" and flow.last(e["resolved"]) in LIB_SEM and "adf_bdd::adf" in e["resolved"])
            tab2.setdefault(variants[k], set()).update(libs)
        for vn, (cls, f, allowed) in STRATEGY_TABLE.items():
            got = tab2.get(vn, set())
            ctx.ob(rule, "library-call[%s]" % vn, len(got) == 1 and got <= set(allowed), where=bc.where(), expected="one %s-class call (%s)" % (cls, "/".join(allowed)), found=sorted(got))
        # the models handed on are the result of that call (collect of the iterator / vec![grounded]) and are all turned into graphs
        F_pair(ctx, server, bc)
    # ---- (3) $set key in the completion future
    comp = [n for n in nested if n.is_coroutine]
    if len(comp) != 1:
        ctx.cannot(rule, "completion-future", "one completion future", cor.where(), len(comp))
        return
    cf = comp[0]
    eng = ctx.engine([server], auto_inline=False, max_paths=6000)
    paths = eng.summarise(cf)
    tab3 = {}
    outcome = {}
    sidx = capture_index(server, cf, lambda ce: bool(flow.find(ce, lambda n_: (n_[0] == "field" and n_[2] == "strategy") or (n_[0] == "upvar" and n_[2] and "strategy" in n_[2]))))
    for p in paths:
        k = strategy_cond(p, lambda x: is_capture(x, sidx) or symx.contains(x, lambda n_: n_[0] == "field" and n_[2] == "strategy"))
        keys = set()
        for e in p.effects:
            if e.get("kind") == "call" and flow.fname(e["resolved"]).endswith("Document::insert"):
                kk = deep_strip(e["args"][1])
                if kk[0] == "str" and kk[1].startswith("acs_per_strategy."):
                    keys.add(kk[1].split(".", 1)[1])
        if k is not None and k < len(variants) and keys:
            tab3.setdefault(variants[k], set()).update(keys)
    for vn, (cls, f, _) in STRATEGY_TABLE.items():
        ctx.ob(rule, "set-key[%s]" % vn, tab3.get(vn) == {f}, where=cf.where(), expected="$set acs_per_strategy.%s" % f, found=sorted(tab3.get(vn, [])))
    # AcsPerStrategy has these fields
    try:
        a = server.adt("adf::AcsPerStrategy")
        fields = set(x["name"] for x in a["variants"][0]["fields"])
        want = set(v[1] for v in STRATEGY_TABLE.values()) | {"parse_only"}
        ctx.ob(rule, "AcsPerStrategy.fields", fields == want, expected=sorted(want), found=sorted(fields), kind="unreviewed")
    except LookupError as e:
        ctx.lost(rule, "AcsPerStrategy", str(e))


def T_outcome(ctx, server):
    rule = "C16.T-outcome"
    ctx.rule(rule, "completion futures: the value written is OptionWithError::Some only if every layer of the result (timeout / join / parse) is Ok; every Err layer yields "
                   "OptionWithError::Error; None is never written")
    for hn, layers in (("solve_adf_problem", 2), ("add_adf_problem", 3)):
        try:
            outer, cor, nested = S.handler_bodies(server, hn)
        except LookupError as e:
            ctx.lost(rule, hn, str(e))
            continue
        comp = [n for n in nested if n.is_coroutine]
        if len(comp) != 1:
            ctx.cannot(rule, hn, "one completion future", cor.where(), len(comp))
            continue
        cf = comp[0]
        eng = ctx.engine([server], auto_inline=False, max_paths=6000)
        paths = eng.summarise(cf)
        seen = set()
        bad = []
        ridx = capture_index(server, cf, lambda ce: ce == ("param", 2))
        for p in paths:
            # nesting of Ok discriminants on the result capture (capture 0 of the future)
            oks = []
            for e, v in p.cond:
                e = deep_strip(unloop(e))
                if e[0] == "app" and e[1] == "discr" and v[0] == "int":
                    x = e[2][0]
                    depth = 0
                    y = x
                    while y[0] in ("field", "downcast"):
                        if y[0] == "downcast" and y[2] == "Ok":
                            depth += 1
                        y = y[1]
                    if root_is_capture(x, ridx):
                        oks.append((depth, int_of(v)))
            if not oks:
                continue
            all_ok = len(oks) >= layers and all(val == 0 for depth, val in oks)
            # variants of OptionWithError constructed on this path: look at Into<Bson> conversions of &OptionWithError values
            variants = set()
            for e in p.effects:
                if e.get("kind") == "call" and (flow.last(e["resolved"]) in ("into", "from")) and e["args"]:
                    a = deep_strip(e["args"][0])
                    for n_ in symx.find_all(a, lambda n_: n_[0] == "adt" and n_[1].endswith("adf::OptionWithError")):
                        variants.add(n_[2])
            if not variants:
                continue
            seen.add("ok" if all_ok else "err")
            want = {"Some"} if all_ok else {"Error"}
            if variants != want:
                bad.append("layers %s -> %s" % (oks, sorted(variants)))
        ctx.ob(rule, hn, not bad and seen == {"ok", "err"}, where=cf.where(), expected="all layers Ok -> Some, otherwise Error", found=bad[:3] or sorted(seen))


def root_is_capture(x, idx):
    if idx is None:
        return False
    y = x
    if is_capture(y, idx):
        return True
    while y[0] in ("field", "downcast", "deref"):
        y = y[1]
        if is_capture(y, idx):
            return True
    return False


COMPUTE = ("from_parser", "hybrid_step_opt", "hybrid_step", "parse", "from_adf_and_ac", "sleep") + LIB_SEM


def P_running(ctx, server):
    rule = "C16.P-running"
    ctx.rule(rule, "every currently_running.insert(x) is followed on every path to the closure's exit - normal or unwinding - by a removal of the same x: a direct remove on "
                   "all paths including cleanup, or the insert sits in the constructor of a guard type whose Drop impl removes self's stored key from the same set and every "
                   "guard value is bound to a local that is dropped only after the computation, on the normal and on the unwind path")
    inserts = []
    for b in server.all_bodies:
        d = None
        for bb, t, ci in b.calls():
            p = ir.callee_path(ci) or ""
            if flow.last(p) == "insert" and "HashSet" in p and ci.get("args") and ir.ty_str(ci["args"][0]).endswith("RunningInfo"):
                inserts.append((b, bb, t))
    ctx.floor(rule, "registrations", len(inserts), 1)
    # lock discipline: the shared set is only ever taken with the blocking Mutex::lock; a try_lock (followed by unwrap, or by a silent skip) makes one user's request
    # fail or lose its bookkeeping because another user's request holds the lock at that instant
    tl = []
    for b0 in server.all_bodies:
        d0 = None
        for bb0, t0, ci0 in b0.calls():
            p0 = ir.callee_path(ci0) or ""
            if flow.last(p0) == "try_lock" and "Mutex" in p0:
                d0 = d0 or flow.Defs(b0)
                e0 = d0.expr_call(t0, bb0)
                if flow.find(e0, lambda n_: n_[0] == "field" and n_[2] == "currently_running"):
                    tl.append(b0.where(t0.get("loc")))
    ctx.ob(rule, "blocking-lock-only", not tl, expected="currently_running is taken with Mutex::lock only", found=tl[:3])
    for b, bb, t in inserts:
        fn = server.enclosing_fn(b)
        key = fn.qual if fn else b.qual
        # (a) constructor of a guard
        ret_ty = b.locals[0]["ty"]
        guard_path = ret_ty.get("path") if ret_ty.get("k") == "adt" else None
        if guard_path and b.kind != "closure":
            try:
                drop = server.trait_impl_fn("ops::Drop", guard_path.split("::")[-1], name="drop")
            except LookupError as e:
                ctx.ob(rule, key, False, where=b.where(t.get("loc")), expected="the returned value has a Drop impl removing the key", found=str(e))
                continue
            dd = flow.Defs(drop)
            rem = [dd.expr_call(tt, x) for x, tt, cc in drop.calls() if flow.last(ir.callee_path(cc) or "") == "remove" and "HashSet" in (ir.callee_path(cc) or "")]
            d = flow.Defs(b)
            ins_e = d.expr_call(t, bb)
            ret = d.expr_local(0)
            stored = dict(ret[3]) if ret[0] == "adt" else {}
            # which field stores the inserted key / the state
            key_field = [k for k, v in stored.items() if strip_copy(v) == strip_copy(ins_e[3][1])]
            ok = len(rem) == 1 and len(key_field) == 1 and bool(flow.find(rem[0][3][1], lambda n_: n_ == ("field", ("param", 1), key_field[0]))) \
                and bool(flow.find(rem[0][3][0], lambda n_: n_[0] == "field" and n_[2] == "currently_running"))
            # the removal must not be skipped on a reachable normal path of drop (only the poisoned-lock branch may skip)
            ctx.ob(rule, key + ".guard-drop-removes-key", ok, where=drop.where(), expected="Drop::drop removes self.<key field> from state.currently_running", found=[flow.show(r)[:160] for r in rem])
            # the removal is skipped on no path of drop except when the (blocking) Mutex::lock reports a poisoned lock
            try:
                eng = ctx.engine([server])
                skipped = []
                n_ret = 0
                for p_ in eng.summarise(drop):
                    if p_.end != "return":
                        continue
                    n_ret += 1
                    removes = [e for e in p_.effects if e.get("kind") == "call" and flow.last(e["resolved"]) == "remove" and "HashSet" in e["resolved"]]
                    if removes:
                        continue
                    poisoned = [e for e, v in p_.cond if kernel.deep_strip(e)[0] == "app" and kernel.deep_strip(e)[1] == "discr"
                                and kernel.is_call(kernel.deep_strip(kernel.deep_strip(e)[2][0]), "Mutex::lock") and kernel.int_of(v) != 0]
                    if not poisoned:
                        skipped.append(p_.describe()[:200])
                ctx.ob(rule, key + ".guard-drop-always-removes", n_ret >= 1 and not skipped, where=drop.where(),
                       expected="every path of Drop::drop removes the key, except under a poisoned Mutex::lock (a blocking lock: try_lock may skip the removal under contention)",
                       found=skipped[:2] or "%d returning paths" % n_ret)
            except Exception as e:  # noqa
                ctx.cannot(rule, key + ".guard-drop-always-removes", "path summary of Drop::drop", drop.where(), "%s: %s" % (type(e).__name__, e))
            # uses of the constructor
            uses = 0
            for ub in server.all_bodies:
                for ubb, ut, uci in ub.calls():
                    if ir.callee_path(uci) == b.path:
                        uses += 1
                        check_guard_use(ctx, rule, server, ub, ubb, ut)
            ctx.floor(rule, "uses of %s" % key, uses, 2)
            continue
        # (b) direct pairing including unwind
        rem_blocks = set(b.call_blocks(lambda p, tt: flow.last(p) == "remove" and "HashSet" in p))
        reach = b.reach_avoiding([t["t"]] if t["t"] is not None else [], rem_blocks, unwind=True)
        # also the unwind edges of calls after the insert
        exits = [x for x in reach if b.blocks[x]["term"]["k"] in ("return", "resume")]
        kinds = sorted(set(b.blocks[x]["term"]["k"] for x in exits))
        ctx.ob(rule, key, not exits, where=b.where(t.get("loc")), expected="removal on every path to the exit, unwinding included",
               found="exit without removal via %s (a panic in the computation leaves the task registered)" % kinds if exits else "paired")


def strip_copy(e):
    while e is not None and e[0] == "call" and flow.last(e[2]) in ("clone", "into", "to_owned", "from") and e[3]:
        e = e[3][0]
    return e


def check_guard_use(ctx, rule, server, ub, ubb, ut):
    """the guard returned at (ub, ubb) is bound to a local that is dropped after the computation on normal and unwind paths"""
    fn = server.enclosing_fn(ub)
    key = "%s.guard-lives-across-computation" % (S.fn_name(ub) or ub.qual)
    dest = ut["dest"]["l"]
    # follow moves of the guard into its binding local
    aliases = {dest}
    for _, _, s_ in ub.statements():
        if s_["k"] == "assign" and s_["rv"]["k"] == "use" and s_["rv"]["o"]["k"] == "move" and s_["rv"]["o"]["pl"]["l"] in aliases and not s_["pl"]["p"]:
            aliases.add(s_["pl"]["l"])
    drops_n = [x for x, tt in ub.terminators() if tt["k"] == "drop" and tt["pl"]["l"] in aliases and not ub.blocks[x]["cleanup"]]
    drops_u = [x for x, tt in ub.terminators() if tt["k"] == "drop" and tt["pl"]["l"] in aliases and ub.blocks[x]["cleanup"]]
    comp_blocks = ub.call_blocks(lambda p, tt: flow.last(p) in COMPUTE and not symx.in_log(tt.get("exp")))
    comp_after = [x for x in comp_blocks if x in ub.reach_avoiding([ut["t"]], set())]
    # no computation after a normal drop
    late = []
    for dn in drops_n:
        r = ub.reach_avoiding([ub.blocks[dn]["term"]["t"]], set())
        late += [x for x in comp_after if x in r]
    # every computation call's unwind edge reaches a cleanup drop of the guard
    unprotected = []
    for x in comp_after:
        tt = ub.blocks[x]["term"]
        if isinstance(tt.get("unwind"), int):
            r = ub.reach_avoiding([tt["unwind"]], set(), unwind=True)
            if not (set(drops_u) & r):
                unprotected.append(ub.where(tt.get("loc")))
    ok = bool(drops_n) and bool(comp_after) and not late and not unprotected
    ctx.ob(rule, key, ok, where=ub.where(ut.get("loc")), expected="guard dropped after the computation, also on unwind",
           found="normal drops %d, computation calls %d, computation after drop %d, unwind paths without drop %s" % (len(drops_n), len(comp_after), len(late), unprotected[:2]))


def F_pair(ctx, server, bc):
    rule = "C16.F-pair"
    ctx.rule(rule, "solve: acs (the models of the chosen strategy, collected exhaustively) -> acs.iter().map(|ac| AcAndGraph{ac: ac.iter().map(|t| t.0.to_string()).collect(), "
                   "graph: from_adf_and_ac(&adf, Some(ac))}).collect() with the same ac item and the adf rebuilt from the stored SimplifiedAdf; add: ac of the parsed adf with "
                   "from_adf_and_ac(&lib_adf, None)")
    d = flow.Defs(bc)
    ret = flow.expand_phi(d, d.expr_local(0))
    m = match(d.expr_local(0), C("collect", C("map", C("iter", V("acs")), CLOS("mk"))))
    ok = m is not None
    pl = flow.push_loop(bc) if not ok else None
    if pl is not None:
        # the same pairing written as `for ac in &acs { out.push(AcAndGraph { ac: .., graph: from_adf_and_ac(&adf, Some(ac)) }) }` (also after an extracted helper was inlined)
        src, ne, pushed = pl
        item = ("field", ("downcast", ne, "Some"), "0")
        fs = dict(pushed[3]) if pushed[0] == "adt" and pushed[1].endswith("AcAndGraph") else {}
        m_ac = match(fs["ac"], C("collect", C("map", C("iter", V("it")), CLOS("ts")))) if "ac" in fs else None
        m_g = match(fs["graph"], C("from_adf_and_ac", V("adf"), ADT("Some", _0=V("it2")))) if "graph" in fs else None
        ok = m_ac is not None and m_g is not None and strip_copy(m_ac["it"]) == item and strip_copy(m_g["it2"]) == item
        if ok:
            tsr = flow.closure_ret(server, server.body(m_ac["ts"]))
            ok = match(tsr, C("to_string", F(P(2), "0"))) is not None
        if ok:
            acs = flow.expand_phi(d, src)
            lib_recv = [n_[3][0] for n_ in flow.find(acs, lambda n_: n_[0] == "call" and flow.last(n_[2]) in LIB_SEM and "adf_bdd::adf" in n_[1])]
            same = bool(lib_recv) and all(strip_copy(r) == strip_copy(lib_recv[0]) for r in lib_recv)
            ok = same and len(lib_recv) >= 5 and strip_copy(m_g["adf"]) == strip_copy(lib_recv[0])
    elif ok:
        mk = server.body(m["mk"])
        mr = flow.subst_upvars(flow.Defs(mk).expr_local(0), flow.resolve_captures_local(server, mk) or [])
        fs = dict(mr[3]) if mr[0] == "adt" and mr[1].endswith("AcAndGraph") else {}
        ok_ac = "ac" in fs and match(fs["ac"], C("collect", C("map", C("iter", P(2)), CLOS("ts")))) is not None
        ok_g = "graph" in fs and match(fs["graph"], C("from_adf_and_ac", V("adf"), ADT("Some", _0=P(2)))) is not None
        ok = ok_ac and ok_g
        if ok_ac:
            tsr = flow.closure_ret(server, server.body(match(fs["ac"], C("collect", C("map", C("iter", P(2)), CLOS("ts"))))["ts"]))
            ok = ok and match(tsr, C("to_string", F(P(2), "0"))) is not None
        # the adf is the one the models were computed on
        if ok_g:
            gadf = match(fs["graph"], C("from_adf_and_ac", V("adf"), ANY))["adf"]
            acs = flow.expand_phi(d, m["acs"])
            lib_recv = [n_[3][0] for n_ in flow.find(acs, lambda n_: n_[0] == "call" and flow.last(n_[2]) in LIB_SEM and "adf_bdd::adf" in n_[1])]
            same = bool(lib_recv) and all(strip_copy(r) == strip_copy(lib_recv[0]) for r in lib_recv)
            ok = ok and same and len(lib_recv) >= 5 and gadf == lib_recv[0]
    ctx.ob(rule, "solve", ok, where=bc.where(), expected="graph and string form from the same model and the same adf", found=flow.show(d.expr_local(0))[:240])
    # models are collected exhaustively
    n = semantics.X_exhaust(ctx, server, "S.X-exhaust", tuple("Adf::" + x for x in LIB_SEM), key_prefix="server:")
    ctx.rule("S.X-exhaust", "the server collects the semantics iterators exhaustively")
    ctx.floor("S.X-exhaust", "server collects", n, 5)
    # the adf is rebuilt from the stored SimplifiedAdf
    into_calls = [1 for bb, t, ci in bc.calls() if ci and flow.last(ci["path"]) in ("into", "from")
                  and [ir.ty_str(a).split("::")[-1] for a in (ci.get("impl", {}).get("args") or ci.get("args") or [])][:2] == ["SimplifiedAdf", "Adf"]]
    ctx.ob(rule, "solve.adf-from-storage", len(into_calls) >= 1, where=bc.where(), expected="adf = simp_adf.into()", found=len(into_calls))


def F_pair_add(ctx, server):
    rule = "C16.F-pair"
    try:
        outer, cor, nested = S.handler_bodies(server, "add_adf_problem")
    except LookupError as e:
        ctx.lost(rule, "add_adf_problem", str(e))
        return
    # the closure given to Result::map builds (SimplifiedAdf::from(lib_adf), AcAndGraph{ac: lib_adf.ac..., graph: from_adf_and_ac(&lib_adf, None)})
    found = False
    for n in nested:
        d = flow.Defs(n)
        ret = d.expr_local(0)
        if ret[0] == "tuple" and len(ret[1]) == 2 and flow.find(ret, lambda n_: n_[0] == "adt" and n_[1].endswith("AcAndGraph")):
            found = True
            ag = flow.find(ret, lambda n_: n_[0] == "adt" and n_[1].endswith("AcAndGraph"))[0]
            fs = dict(ag[3])
            lib = flow.expand_phi(d, ret[1][0])
            src = [x for x in flow.find(lib, lambda n_: n_[0] == "call" and flow.last(n_[2]) in ("from_parser", "hybrid_step_opt"))]
            g = match(fs.get("graph", ("x",)), C("from_adf_and_ac", V("adf"), ADT("None")))
            a = match(fs.get("ac", ("x",)), C("collect", C("map", C("iter", F(V("adf2"), "ac")), CLOS("ts"))))
            ok = g is not None and a is not None and g["adf"] == a["adf2"] and bool(src)
            if ok:
                tsr = flow.closure_ret(server, server.body(a["ts"]))
                ok = match(tsr, C("to_string", F(P(2), "0"))) is not None
                first = ret[1][0]
                ok = ok and first[0] == "call" and flow.last(first[2]) == "from" and strip_copy(first[3][0]) == strip_copy(g["adf"])
            ctx.ob(rule, "add", ok, where=n.where(), expected="(SimplifiedAdf::from(lib_adf), AcAndGraph{ac of lib_adf, graph: from_adf_and_ac(&lib_adf, None)})", found=flow.show(ret)[:300])
            # parsing strategy arms: Naive -> Adf::from_parser, Hybrid -> BdAdf::from_parser + hybrid_step_opt(false)
            calls = [flow.fname(ir.callee_path(ci) or "") for _, t, ci in n.calls()]
            ctx.ob(rule, "add.parsing-arms", "Adf::from_parser" in calls and "Adf::hybrid_step_opt" in calls, where=n.where(), expected="Naive: Adf::from_parser; Hybrid: BdAdf::from_parser(..).hybrid_step_opt(false)", found=calls[:8])
            # the stored ADF and the parse-only graph must show the submitted conditions, not the pre-grounded ones: hybrid_step_opt is called with `false`
            nd = flow.Defs(n)
            hargs = [nd.expr_call(t, bb_) for bb_, t, ci in n.calls() if flow.fname(ir.callee_path(ci) or "") == "Adf::hybrid_step_opt"]
            okh = bool(hargs) and all(e_[0] == "call" and len(e_[3]) >= 2 and e_[3][1][0] == "const" and flow.const_val(e_[3][1]) is False for e_ in hargs)
            ctx.ob(rule, "add.hybrid-without-pregrounding", okh, where=n.where(), expected="hybrid_step_opt(false)", found=[flow.show(e_)[:120] for e_ in hargs])
    ctx.ob(rule, "add.builder-closure", found, where=cor.where(), expected="closure building the stored pair", found=found, kind="anchor-lost")


def F_graph(ctx, server):
    rule = "C16.F-graph"
    ctx.rule(rule, "DoubleLabeledGraph::from_adf_and_ac: lo_edges = (i, nodes[i].lo()), hi_edges = (i, nodes[i].hi()) for reachable non-terminal i; node_labels i -> TOP/BOT/"
                   "ordering.name(node.var()); tree_root_labels attach ordering.name(Var(k)) to ac[k]; reachable set: seeded with all ac roots, adds lo and hi of every member "
                   "until no new index; all four collections filter on the same set")
    try:
        b = server.one("DoubleLabeledGraph::from_adf_and_ac")
    except LookupError as e:
        ctx.lost(rule, "from_adf_and_ac", str(e))
        return
    d = flow.Defs(b)
    ret = d.expr_local(0)
    fs = dict(ret[3]) if ret[0] == "adt" else {}
    ctx.ob(rule, "fields", set(fs) == {"node_labels", "tree_root_labels", "lo_edges", "hi_edges"}, where=b.where(), expected="four components", found=sorted(fs))
    reach_sets = set()
    for name, acc in (("lo_edges", "lo"), ("hi_edges", "hi")):
        e = fs.get(name)
        if e is None:
            continue
        src, steps = flow.chain_of(e)
        names = [s_[0] for s_ in steps]
        ok = flow.show(src).endswith("bdd.nodes") and names == ["iter", "enumerate", "filter", "filter", "map", "map", "collect"]
        ctx.ob(rule, name + ".chain", ok, where=b.where(), expected="adf.bdd.nodes.iter().enumerate().filter(reachable).filter(non-terminal).map(edge).map(to strings).collect()", found="%s %s" % (flow.show(src)[-30:], names))
        if not ok:
            continue
        f1, f2, m1, m2 = [server.body(steps[i][1][0][1]) for i in (2, 3, 4, 5)]
        r1 = flow.closure_ret(server, f1)
        mm = match(r1, C("contains", V("set"), F(P(2), "0")))
        ctx.ob(rule, name + ".reachable-filter", mm is not None, where=f1.where(), expected="node_indices.contains(i)", found=flow.show(r1)[:160])
        if mm:
            reach_sets.add(flow.show(mm["set"]))
        r2 = flow.closure_ret(server, f2)
        ok2 = r2[0] == "unop" and r2[1] == "Not" and r2[2][0] == "call" and flow.last(r2[2][2]) == "contains" and bool(flow.find(r2[2], lambda n_: n_[0] == "call" and flow.fname(n_[1]) == "BddNode::var")) \
            and term_consts(r2[2]) == {"TOP", "BOT"}
        ctx.ob(rule, name + ".non-terminal-filter", ok2, where=f2.where(), expected="![Var::TOP, Var::BOT].contains(&node.var())", found=flow.show(r2)[:200])
        r3 = flow.closure_ret(server, m1)
        ok3 = match(r3, TUP(F(P(2), "0"), C("Term::value", C("BddNode::" + acc, F(P(2), "1"))))) is not None
        ctx.ob(rule, name + ".child", ok3, where=m1.where(), expected="(i, node.%s().value())" % acc, found=flow.show(r3)[:160])
        r4 = flow.closure_ret(server, m2)
        ok4 = match(r4, TUP(C("to_string", F(P(2), "0")), C("to_string", F(P(2), "1")))) is not None
        ctx.ob(rule, name + ".strings", ok4, where=m2.where(), expected="(i.to_string(), child.to_string())", found=flow.show(r4)[:160])
    # node labels
    e = fs.get("node_labels")
    if e is not None:
        src, steps = flow.chain_of(e)
        names = [s_[0] for s_ in steps]
        ok = flow.show(src).endswith("bdd.nodes") and names == ["iter", "enumerate", "filter", "map", "collect"]
        ctx.ob(rule, "node_labels.chain", ok, where=b.where(), expected="nodes.iter().enumerate().filter(reachable).map(label).collect()", found=names)
        if ok:
            f1 = server.body(steps[2][1][0][1])
            mm = match(flow.closure_ret(server, f1), C("contains", V("set"), F(P(2), "0")))
            if mm:
                reach_sets.add(flow.show(mm["set"]))
            lb = server.body(steps[3][1][0][1])
            eng = ctx.engine([server, server.lib] if getattr(server, "lib", None) else [server], auto_inline=True, no_inline={"adf_bdd::datatypes::adf::VarContainer::name"})
            res = {}
            for kind, varv in (("TOP", shared.VAR_TOP), ("BOT", shared.VAR_BOT), ("inner", 3)):
                st = symx.State()
                node = symx.mk_adt(shared.BDDNODE, "BddNode", [("var", shared.var_of(symx.vint(varv))), ("lo", shared.term_sym("lo")), ("hi", shared.term_sym("hi"))])
                env = eng.closure_env(st, lb, [("sym", "adf")])
                I = ("sym", "i")
                paths = [p for p in eng.summarise(lb, [env, ("tuple", (I, shared.ref_to(st, node)))], st) if p.end == "return"]
                outs = set()
                for p in paths:
                    r = deep_strip(p.ret)
                    if r[0] == "tuple" and len(r[1]) == 2:
                        k, v = r[1]
                        kok = is_call(k, "ToString::to_string") or (k[0] == "app" and flow.last(k[1]) == "to_string" and deep_strip(k[2][0]) == I)
                        if v[0] == "app" and flow.last(v[1]) in ("to_string", "to_owned", "from") and deep_strip(v[2][0])[0] == "str":
                            outs.add((kok, deep_strip(v[2][0])[1]))
                        elif symx.contains(v, lambda n_: n_[0] == "app" and flow.fname(n_[1]) == "VarContainer::name" and deep_strip(n_[2][1]) == shared.var_of(symx.vint(varv))):
                            outs.add((kok, "name(var)"))
                        else:
                            outs.add((kok, symx.show(v)[:60]))
                res[kind] = outs
            want = {"TOP": {(True, "TOP")}, "BOT": {(True, "BOT")}, "inner": {(True, "name(var)")}}
            ctx.ob(rule, "node_labels.table", res == want, where=lb.where(), expected="TOP / BOT / ordering.name(node.var()) under key i", found=str(res))
    # root labels: fold over ac.iter().enumerate()
    roles, _ = flow.closure_roles(b)
    folds = [r for r in roles.values() if r.adaptor == "fold"]
    ok = len(folds) == 1 and match(folds[0].receiver, C("enumerate", C("iter", ANY))) is not None
    ctx.ob(rule, "root_labels.fold", ok, where=b.where(), expected="ac.iter().enumerate().fold(map of reachable indices, ..)", found=[flow.show(r.receiver)[:80] for r in folds])
    if folds:
        fb = server.body(folds[0].closure_def)
        calls, fd = flow.all_call_exprs(fb)
        pushes = [e for bb, t, ci, e in calls if e[0] == "call" and flow.last(e[2]) == "push"]
        okp = len(pushes) == 1
        if okp:
            tgt, val = pushes[0][3][0], pushes[0][3][1]
            okp = bool(flow.find(tgt, lambda n_: n_[0] == "call" and flow.last(n_[2]) == "get_mut" and flow.find(n_, lambda m: m[0] == "call" and flow.fname(m[1]) == "Term::value" and m[3][0] == ("field", ("param", 3), "1")))) \
                and bool(flow.find(val, lambda n_: n_[0] == "call" and flow.fname(n_[1]) == "VarContainer::name" and match(n_[3][1], ADT("Var", _0=F(P(3), "0"))) is not None))
        ctx.ob(rule, "root_labels.step", okp, where=fb.where(), expected="acc[root_node.value()].push(ordering.name(Var(root_for))) for the same (root_for, root_node) item", found=[flow.show(e)[:200] for e in pushes])
        init = folds[0].call[3][1]
        src, steps = flow.chain_of(init)
        if steps and steps[2][0] == "filter":
            mm = match(flow.closure_ret(server, server.body(steps[2][1][0][1])), C("contains", V("set"), F(P(2), "0")))
            if mm:
                reach_sets.add(flow.show(mm["set"]))
    ctx.ob(rule, "same-reachable-set", len(reach_sets) == 1, where=b.where(), expected="one reachable set used by all filters", found=sorted(reach_sets))
    # worklist
    eng = ctx.engine([server], auto_inline=False)
    paths = eng.summarise(b)
    ins = set()
    for p in paths:
        for e in p.effects:
            if e.get("kind") == "call" and flow.last(e["resolved"]) == "insert" and "HashSet" in e["resolved"]:
                v = deep_strip(unloop(e["args"][1]))
                acc = [n_[1] for n_ in symx.find_all(v, lambda n_: n_[0] == "app" and flow.fname(n_[1]) in ("BddNode::lo", "BddNode::hi"))]
                for a in acc:
                    ins.add(flow.last(a))
    ctx.ob(rule, "worklist.both-children", ins == {"lo", "hi"}, where=b.where(), expected="both lo and hi of every member are examined", found=sorted(ins))
    reach_only_roots_and_children(ctx, server, rule, b, d)
    # nothing is dropped or reordered on the way into the four collections: the only element-selecting adaptors are the recognised filters
    bad = S.lossy_calls(server, b)
    ctx.ob(rule, "no-element-dropped", not bad, where=b.where(), expected="no skip / take / rev / sort ... in from_adf_and_ac", found=bad[:3])
    seed = None
    for bb, t, ci in b.calls():
        e = d.expr_call(t, bb)
        if e[0] == "call" and flow.last(e[2]) == "collect":
            m = match(e, C("collect", C("map", C("iter", V("ac")), CLOS("c"))))
            if m is not None:
                cr = flow.closure_ret(server, server.body(m["c"]))
                if match(cr, C("Term::value", P(2))) is not None:
                    seed = m["ac"]
    ctx.ob(rule, "worklist.seeded-with-all-roots", seed is not None, where=b.where(), expected="new_node_indices = ac.iter().map(|t| t.value()).collect()", found=flow.show(seed)[:80] if seed else None)
    # ac defaults to adf.ac
    acsel = flow.expand_phi(d, seed) if seed else None
    ok = acsel is not None and bool(flow.find(acsel, lambda n_: n_[0] == "field" and n_[2] == "ac")) and bool(flow.find(acsel, lambda n_: n_[0] == "downcast" and n_[2] == "Some"))
    ctx.ob(rule, "ac-choice", ok, where=b.where(), expected="ac = given model, or adf.ac when None", found=flow.show(acsel)[:160] if acsel else None)


def reach_only_roots_and_children(ctx, server, rule, b, d):
    """'exactly the nodes reachable from the roots', the 'only' half: every element that enters one of the index sets of the worklist is a root handle
    (ac.iter().map(|t| t.value())) or the lo/hi child of nodes[i] for a member i of one of the sets; sets are otherwise created empty or as unions of each other"""
    S_ = set(l for l, n in b.local_names().items() if ir.ty_str(b.locals[l]["ty"]).replace(" ", "").startswith(("std::collections::HashSet<usize", "HashSet<usize"))
             or "HashSet<usize" in ir.ty_str(b.locals[l]["ty"]).replace(" ", ""))
    ctx.floor(rule, "index sets of the reachability worklist", len(S_), 1)

    def in_S(e):
        e = strip_ref(e)
        return e[0] == "phi" and e[1] in S_ or e[0] == "local" and e[1] in S_

    def strip_ref(e):
        while e[0] in ("ref", "deref", "copy", "move") and len(e) > 1 and isinstance(e[1], tuple):
            e = e[1]
        while e[0] == "call" and flow.last(e[2]) in ("deref", "borrow", "as_ref", "clone") and e[3]:
            e = e[3][0]
        return e

    def set_expr_ok(e):
        """empty constructor, or an iterator pipeline over members of S_ only"""
        e = strip_ref(e)
        if in_S(e):
            return True
        if e[0] != "call":
            return False
        nm = flow.last(e[2])
        if "HashSet" in e[1] and nm in ("new", "default", "with_capacity"):
            return True
        if nm in ("collect", "copied", "cloned", "iter", "into_iter", "union", "chain", "from_iter"):
            args = [a for a in e[3] if strip_ref(a)[0] not in ("const",)]
            return bool(args) and all(set_expr_ok(a) for a in args)
        return False

    def roots_expr_ok(e):
        m = match(strip_ref(e), C("collect", C("map", C("iter", V("ac")), CLOS("c"))))
        if m is None:
            return False
        cr = flow.closure_ret(server, server.body(m["c"]))
        return match(cr, C("Term::value", P(2))) is not None

    def child_ok(x):
        m = match(strip_ref(x), C("Term::value", C("BddNode::lo", V("n")))) or match(strip_ref(x), C("Term::value", C("BddNode::hi", V("n"))))
        if m is None:
            return False
        n = strip_ref(m["n"])
        if not (n[0] == "call" and flow.last(n[2]) == "index" and flow.show(n[3][0]).endswith("bdd.nodes")):
            return False
        i = strip_ref(n[3][1])
        # member of one of the sets: item of an iteration over a set in S_
        src = [y for y in flow.find(i, lambda q: in_S(q))]
        its = [y for y in flow.find(i, lambda q: q[0] == "call" and flow.last(q[2]) == "next")]
        return bool(src) and bool(its)

    n_defs = 0
    bad = []
    for l in sorted(S_):
        for bb, i, s_ in b.statements():
            if s_["k"] == "assign" and s_["pl"]["l"] == l and not s_["pl"]["p"]:
                e = d.expr_rvalue(s_["rv"])
                n_defs += 1
                if not (set_expr_ok(e) or roots_expr_ok(e)):
                    bad.append("%s := %s" % (b.local_names().get(l), flow.show(e)[:160]))
        for bb, t, ci in b.calls():
            if t.get("dest") and t["dest"]["l"] == l and not t["dest"]["p"]:
                e = d.expr_call(t, bb)
                n_defs += 1
                if not (set_expr_ok(e) or roots_expr_ok(e)):
                    bad.append("%s := %s" % (b.local_names().get(l), flow.show(e)[:160]))
    n_ins = 0
    for bb, t, ci in b.calls():
        pth = ir.callee_path(ci) or ""
        if "HashSet" not in pth or "{closure" in pth:
            continue
        e = d.expr_call(t, bb)
        if e[0] != "call" or not e[3] or not in_S(e[3][0]):
            continue
        nm = flow.last(pth)
        if nm == "insert":
            n_ins += 1
            if not child_ok(e[3][1]):
                bad.append("insert(%s)" % flow.show(e[3][1])[:160])
        elif nm in ("extend", "remove", "retain", "clear", "drain", "take", "replace", "get_or_insert_with"):
            bad.append("%s on an index set (not a recognised worklist step)" % nm)
    ctx.ob(rule, "worklist.only-roots-and-children", not bad and n_defs >= 2 and n_ins >= 2, where=b.where(),
           expected="index sets are created empty, from the root handles, or as unions of each other; inserts add lo/hi of nodes[member] only",
           found=bad[:3] or "%d set definitions, %d inserts" % (n_defs, n_ins))


def term_consts(e):
    out = set()
    for n_ in flow.find(e, lambda n_: n_[0] == "const"):
        v = flow.const_val(n_)
        if isinstance(v, tuple) and v[0] == "adt" and v[1].endswith("Var"):
            out.add("TOP" if v[2] == shared.VAR_TOP else ("BOT" if v[2] == shared.VAR_BOT else str(v[2])))
    return out


def check(ctx):
    from rules import C08, C14
    for cfg in configs(ctx.tier):
        ctx.cfg = cfg.name
        server = ctx.load(cfg)
        A_strategy(ctx, server)
        T_outcome(ctx, server)
        P_running(ctx, server)
        F_pair_add(ctx, server)
        F_graph(ctx, server)
        C08.P_parse(ctx, server, floor=1, key_prefix="server:")
        C14.A_dto(ctx, server)
    ctx.cfg = "lib@default"
    lib = ctx.load(facts.Config("lib"))
    C14.F_replay(ctx, lib)
    # the rebuild from the stored node list must not re-apply the (non-idempotent) repair step: the answers computed on the rebuilt ADF are the stored answers
    C14.P_fix_once(ctx, {"lib": lib, "server": ctx.load(facts.Config("server"))}, lib)
    # 'the models stored and returned are exactly the definitional answers': the library-level suites of every strategy the service offers
    deps.library_semantics(ctx, [facts.Config("lib")])
