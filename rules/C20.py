"""C20 - interpretation iterators."""
from mirlib import facts, flow, ir, symx
from mirlib.symx import mk_adt, show, vbool, vint
from rules import kernel, shared
from rules.kernel import strip, is_call, effects_named, cond_val, int_of, unloop
from rules.kernel import deep_strip as _deep_strip


def deep_strip(v):
    return _deep_strip(unloop(v))

EXPLANATION = """
Decided: C20.F-frozen (the set of varied positions `indexes` is computed once, in `new`, as exactly the positions of
class U - closure table over the term-class domain - and is never written afterwards; every store into the yielded
vector goes through an index taken from `indexes`; the two-valued start vector maps U->BOT and keeps decided values),
C20.T-digits (three-valued digit table {0->BOT, 1->TOP, other->original at the same position}; start digit and reset
digit are both 2, i.e. 'keep', so the first element is the interpretation itself), C20.R-step (two-valued `next` is
the binary increment: the first index - in `indexes` order - holding BOT becomes TOP and all earlier indexes become
BOT, none => end; `decrement_vec` is the base-3 decrement: first non-zero digit -1, all earlier digits reset, none =>
end; `started` yields the initial state exactly once)."""
NOT_DECIDED = "'exactly 2^k / 3^k, each once' is then the textbook property of a positional counter; no independent counting argument is mechanised."
TECHNIQUE = "static analysis: finite-domain closure tables (term classes, digits), index-provenance dataflow, loop-cut path summaries of MIR"

TWO = "datatypes::adf::TwoValuedInterpretationsIterator"
THREE = "datatypes::adf::ThreeValuedInterpretationsIterator"


def configs(tier):
    return facts.LIB_ALL if tier == "thorough" else [facts.Config("lib")]


def closure_table(ctx, lib, cb, item_maker, classes=shared.CLASSES):
    eng = ctx.engine([lib])
    res = {}
    for c in classes:
        st = symx.State()
        env = eng.closure_env(st, cb, [])
        args = [env] + item_maker(st, c)
        paths = eng.summarise(cb, args, st)
        rets = set()
        for p in paths:
            rets.add(p.ret if p.end == "return" else ("end", p.end))
        res[c] = rets
    return res


def F_frozen_new(ctx, lib):
    rule = "C20.F-frozen"
    ctx.rule(rule, "`indexes` = positions whose class is U (filter_map closure table U->Some(idx), B/T->None over term.iter().enumerate()), "
                   "computed in `new` only; two-valued start vector = input with U->BOT and decided values kept; three-valued `original` = input; "
                   "no other writer of `indexes`/`original`; every store into the yielded vector is indexed by an element of `indexes`")
    IDX = ("sym", "idx")
    for ty, short in ((TWO, "two"), (THREE, "three")):
        try:
            b = lib.one(ty + "::new")
        except LookupError as e:
            ctx.lost(rule, short + ".new", str(e))
            continue
        roles, defs = flow.closure_roles(b)
        ret = defs.expr_local(0)
        fields = dict(ret[3]) if ret[0] == "adt" else {}
        # indexes
        ie = fields.get("indexes")
        ok_chain = False
        fm = None
        if ie is not None:
            src, steps = flow.chain_of(ie)
            names = [s_[0] for s_ in steps]
            ok_chain = src == ("param", 1) and names[:3] == ["iter", "enumerate", "filter_map"] and names[-1] == "collect" and set(names[3:-1]) <= {"rev"}
            for s_ in steps:
                if s_[0] == "filter_map":
                    fm = s_[1][0]
        ctx.ob(rule, short + ".indexes-chain", ok_chain, where=b.where(), expected="term.iter().enumerate().filter_map(c)[.rev()].collect()",
               found=flow.show(ie)[:200] if ie else None)
        if fm is not None and fm[0] == "closure":
            cb = lib.body(fm[1])
            tab = closure_table(ctx, lib, cb, lambda st, c: [("tuple", (IDX, shared.ref_to(st, shared.term(c))))])
            some_idx = mk_adt("std::option::Option", "Some", [("0", IDX)])
            for c in shared.CLASSES:
                got = tab[c]
                if c == "U":
                    ok = len(got) == 1 and all(is_some_of(x, IDX) for x in got)
                else:
                    ok = len(got) == 1 and all(is_none(x) for x in got)
                ctx.ob(rule, "%s.indexes-table[%s]" % (short, c), ok, where=cb.where(), expected="Some(idx)" if c == "U" else "None",
                       found=sorted(show(x) for x in got))
        else:
            ctx.cannot(rule, short + ".indexes-closure", "filter_map closure", b.where(), flow.show(ie)[:200] if ie else None)
        if short == "two":
            ce = fields.get("current")
            inner = None
            if ce is not None and ce[0] == "adt" and ce[2] == "Some":
                inner = ce[3][0][1]
            okc = False
            mp = None
            if inner is not None:
                src, steps = flow.chain_of(inner)
                names = [s_[0] for s_ in steps]
                okc = src == ("param", 1) and names == ["iter", "map", "collect"]
                if okc:
                    mp = steps[1][1][0]
            ctx.ob(rule, "two.start-chain", okc, where=b.where(), expected="Some(term.iter().map(c).collect())", found=flow.show(ce)[:200] if ce else None)
            if mp is not None and mp[0] == "closure":
                cb = lib.body(mp[1])
                tab = closure_table(ctx, lib, cb, lambda st, c: [shared.ref_to(st, shared.term(c))])
                for c in shared.CLASSES:
                    want = shared.term("B") if c == "U" else shared.term(c)
                    ctx.ob(rule, "two.start-table[%s]" % c, tab[c] == {want}, where=cb.where(), expected=show(want), found=sorted(show(x) for x in tab[c]))
            st_e = fields.get("started")
            ctx.ob(rule, "two.started-false", st_e is not None and flow.const_val(st_e) is False, where=b.where(), expected="started: false", found=flow.show(st_e) if st_e else None)
        else:
            oe = fields.get("original")
            ok = oe is not None and strip_calls(oe) == ("param", 1)
            ctx.ob(rule, "three.original-is-input", ok, where=b.where(), expected="original = the input interpretation (copied)", found=flow.show(oe)[:160] if oe else None)
            ce = fields.get("current")
            # vec![2; indexes.len()]
            okd = False
            if ce is not None and ce[0] == "adt" and ce[2] == "Some":
                v = ce[3][0][1]
                if v[0] == "call" and flow.last(v[2]) == "from_elem":
                    d = flow.const_val(v[3][0])
                    ln = v[3][1]
                    okd = d == 2 and ln[0] == "call" and flow.last(ln[2]) == "len" and strip_calls(ln[3][0]) == strip_calls(ie)
            ctx.ob(rule, "three.start-digits", okd, where=b.where(), expected="vec![2; indexes.len()] (2 = keep)", found=flow.show(ce)[:200] if ce else None)
            st_e = fields.get("started")
            ctx.ob(rule, "three.started-false", st_e is not None and flow.const_val(st_e) is False, where=b.where(), expected="started: false", found=flow.show(st_e) if st_e else None)
    # writers of indexes / original
    n = 0
    for ty in (TWO, THREE):
        for field in ("indexes", "original"):
            for (body, bb, it, role, pl, i) in kernel.field_uses(lib, ty, field):
                n += 1
                if role in ("write", "refmut") or (role == "move" and any(pe["k"] == "deref" for pe in pl["p"][:i])):
                    ctx.ob(rule, "%s.%s-writer:%s" % (ty.split("::")[-1], field, body.qual), False, where=body.where(it.get("loc")),
                           expected="no writer after construction", found="%s in %s" % (role, body.path), kind="unreviewed")
    ctx.ob(rule, "writers-census", n >= 4, expected=">= 4 uses examined", found=n, kind="floor", nontrivial=False)


LOSSY = ("take", "skip", "step_by", "filter", "filter_map", "skip_while", "take_while", "nth", "last", "find", "position")


def lossy_adaptors(v):
    """names of the element-dropping iterator adaptors on the way from the indexed prefix to the loop item (the `find` that located the carry position is part of the
    range bound, not of the iteration, and is not counted)"""
    res = []

    def visit(n, in_bound):
        if not isinstance(n, tuple) or not n:
            return
        if n[0] == "adt" and (str(n[1]).endswith("ops::Range") or str(n[1]).endswith("ops::RangeTo")):
            return      # bounds of the prefix
        if n[0] == "app" and flow.last(str(n[1])) in LOSSY:
            nm = flow.last(str(n[1]))
            res.append(nm)
            for k, a in enumerate(n[2]):
                if not (nm == "take" and k == 1):      # the count argument of take is a bound
                    visit(a, in_bound)
            return
        for a in n[1:]:
            if isinstance(a, tuple):
                if a and isinstance(a[0], tuple):
                    for x in a:
                        visit(x, in_bound)
                else:
                    visit(a, in_bound)
    visit(v, False)
    return res


def strip_calls(e):
    """drop clone/into/to_vec/collect style copies"""
    while e is not None and e[0] == "call" and flow.last(e[2]) in ("clone", "into", "to_vec", "to_owned", "from") and e[3]:
        e = e[3][0]
    return e


def is_some_of(v, x):
    v = strip(v)
    if v[0] == "adt" and v[2] == "Some":
        return strip(v[3][0][1]) == x
    if is_call(v, "bool::then_some"):
        return strip(v[2][0]) == vbool(True) and strip(v[2][1]) == x
    return False


def is_none(v):
    v = strip(v)
    if v[0] == "adt" and v[2] == "None":
        return True
    if is_call(v, "bool::then_some"):
        return strip(v[2][0]) == vbool(False)
    return False


def idx_from_indexes(e):
    """e (deep-stripped symx value) is an element of self.indexes"""
    e = deep_strip(e)
    # indexes[i]
    if e[0] == "index" and symx.contains(e[1], lambda n: n[0] == "field" and n[2] == "indexes") and not symx.contains(e[1], lambda n: n[0] == "index"):
        return True
    # item of an iteration over indexes (find / next), possibly over a sub-slice indexes[0..k]
    names = []
    x = e
    while x[0] in ("field", "downcast"):
        x = deep_strip(x[1])
    if x[0] == "app" and flow.last(x[1]) in ("find", "next"):
        recv = deep_strip(x[2][0])
        # peel adaptors
        # (zip(indexes.iter(), digits.iter()): the position is the first component of the pair - the receiver side of the zip)
        while recv[0] == "app" and flow.last(recv[1]) in ("enumerate", "into_iter", "iter", "rev", "copied", "take", "zip") and recv[2]:
            if flow.last(recv[1]) == "zip" and not (e[0] == "field" and e[2] == "0" or (e[0] == "field" and deep_strip(e[1])[0] == "field" and deep_strip(e[1])[2] == "0")):
                return False
            recv = deep_strip(recv[2][0])
        if recv[0] == "index":
            recv = deep_strip(recv[1])
        return recv[0] == "field" and recv[2] == "indexes"
    return False


def three_next(ctx, lib):
    rule = "C20.T-digits"
    ctx.rule(rule, "ThreeValuedInterpretationsIterator::next writes, for digit position i, result[indexes[i]] = {0->BOT, 1->TOP, other->original[indexes[i]]}; "
                   "`started` false yields the start state without decrement; afterwards decrement first, end when decrement fails")
    try:
        b = lib.one(THREE + " as std::iter::Iterator>::next")
    except LookupError as e:
        ctx.lost(rule, "next", str(e))
        return
    eng = ctx.engine([lib], no_inline={"adf_bdd::datatypes::adf::ThreeValuedInterpretationsIterator::decrement_vec"})
    paths = eng.summarise(b)
    digits = {}
    n_store = 0
    for p in paths:
        stores = kernel.stores_of(p)
        started = cond_val(p, lambda e: e[0] == "field" and e[2] == "started")
        dec = [e for e in effects_named(p, "ThreeValuedInterpretationsIterator::decrement_vec")]
        if int_of(started) == 0:
            ctx.ob(rule, "first-call-no-decrement", not dec, where=b.where(), expected="no decrement before the first element", found=p.describe()[:160])
        elif int_of(started) == 1:
            cur_some = [v for e, v in p.cond if is_call(deep_strip(e), "Option::is_some") or (deep_strip(e)[0] == "app" and deep_strip(e)[1] == "discr" and symx.contains(e, lambda n: n[0] == "field" and n[2] == "current"))]
            if (stores or (p.end == "return" and p.ret is not None and strip(p.ret)[0] == "adt" and strip(p.ret)[2] == "Some")):
                ctx.ob(rule, "later-call-decrements", len(dec) == 1, where=b.where(), expected="exactly one decrement before yielding", found=p.describe()[:200])
                dv = cond_val(p, lambda e: is_call(e, "ThreeValuedInterpretationsIterator::decrement_vec"))
                ctx.ob(rule, "yield-only-if-decrement-succeeded", int_of(dv) == 1, where=b.where(), expected="decrement_vec returned true", found=show(dv) if dv else None)
        for s_ in stores:
            n_store += 1
            tgt = deep_strip(s_[0])
            val = deep_strip(s_[1])
            # target: <clone of original>[ indexes[i] ]
            ok_t = tgt[0] == "index" and symx.contains(tgt[1], lambda n: n[0] == "field" and n[2] == "original") and idx_from_indexes(tgt[2])
            ctx.ob(rule, "store-target", ok_t, where=b.where(), expected="result[indexes[i]] with result = original.clone()", found=show(tgt)[:200])
            # positions and digits paired by zip(indexes.iter(), current.iter()): both sides are the plain iterators, so that the k-th digit meets the k-th position
            for z in symx.find_all(tgt[2] if tgt[0] == "index" else tgt, lambda n: n[0] == "app" and flow.last(str(n[1])) == "zip" and len(n[2]) == 2):
                plain = True
                for side in z[2]:
                    for n_ in symx.find_all(side, lambda n: n[0] == "app"):
                        nm = flow.last(str(n_[1]))
                        if nm in LOSSY + ("rev", "chain", "cycle", "enumerate", "map"):
                            plain = False
                sides_ok = symx.contains(z[2][0], lambda n: n[0] == "field" and n[2] == "indexes") and symx.contains(z[2][1], lambda n: n[0] == "field" and n[2] == "current")
                ctx.ob(rule, "zip-aligned", plain and sides_ok, where=b.where(), expected="self.indexes.iter().zip(current.iter()) - nothing skipped, reversed or filtered on either side", found=show(z)[:200])
            # digit condition: value of the enumerate item's second component
            dcond = [(deep_strip(e), v) for e, v in p.cond if deep_strip(e)[0] == "field" and deep_strip(e)[2] == "1"
                     and symx.contains(e, lambda n: n[0] == "app" and flow.last(n[1]) == "next")]
            if len(dcond) != 1:
                ctx.cannot(rule, "digit-test", "one test of the digit per stored position", b.where(), p.describe()[:200])
                continue
            e, v = dcond[0]
            # the digit tested and the index used belong to the same enumerate item
            item = e[1]
            same_item = tgt[0] == "index" and symx.contains(tgt[2], lambda n: n == ("field", item, "0"))
            ctx.ob(rule, "digit-and-index-same-item", same_item, where=b.where(), expected="indexes[i] with i from the item whose digit is tested", found=show(tgt[2])[:160] if tgt[0] == "index" else None)
            key = int_of(v) if v[0] == "int" else "other"
            if key == "other":
                ok_v = val[0] == "index" and symx.contains(val[1], lambda n: n[0] == "field" and n[2] == "original") and tgt[0] == "index" and val[2] == tgt[2]
                digits[key] = "keep" if ok_v else show(val)[:120]
            else:
                digits[key] = shared.cls_of_term(val) or show(val)[:120]
    none_justified(ctx, rule, b, paths)
    ctx.ob(rule, "digit-table", digits == {0: "B", 1: "T", "other": "keep"}, where=b.where(), expected="{0: BOT, 1: TOP, other: keep original}", found=str(digits))
    ctx.floor(rule, "stores examined", n_store, 3)


def none_justified(ctx, rule, b, paths):
    """'each once, starting with the interpretation itself': the iterator may answer None only when its state says it is exhausted - `current` is already
    None, the decrement failed, or no position is left to advance - never because of the shape of the input (e.g. no undecided position: one completion)"""
    n = 0
    for p in paths:
        if p.end != "return" or p.ret is None:
            continue
        r = strip(p.ret)
        if not (r[0] == "adt" and r[2] == "None"):
            continue
        n += 1
        ok = False
        for e, v in p.cond:
            e = deep_strip(unloop(e))
            if e[0] == "app" and e[1] == "discr" and symx.contains(e[2][0], lambda n_: n_[0] == "field" and n_[2] == "current") and not symx.contains(e[2][0], lambda n_: n_[0] == "app") and int_of(v) != 1:
                ok = True     # current is None
            if is_call(e, "ThreeValuedInterpretationsIterator::decrement_vec") and int_of(v) == 0:
                ok = True     # nothing left to decrement
            if e[0] == "app" and e[1] == "discr" and symx.contains(e[2][0], lambda n_: n_[0] == "app" and flow.last(str(n_[1])) in ("find", "position")) and int_of(v) != 1:
                ok = True     # no position left to advance
            if is_call(e, "Option::is_some") and symx.contains(e, lambda n_: n_[0] == "field" and n_[2] == "current") and int_of(v) == 0:
                ok = True
        ctx.ob(rule, "none-only-when-exhausted", ok, where=b.where(), expected="None only if current is None / the step found nothing to advance", found=p.describe()[:200])
    return n


def three_decrement_position_form(ctx, lib, b, eng, paths, rule):
    """the base-3 decrement written with slice adaptors: `match v.iter().position(|&d| d > 0) { Some(cur) => { v[cur] -= 1; v[..cur].fill(2); true } None => false }`.
    `position` yields the index of the first element that satisfies the predicate, `fill` writes every element of the sub-slice (std semantics, trusted like the other adaptors)."""
    def is_pos(x):
        x = deep_strip(x)
        return x[0] == "app" and flow.last(str(x[1])) == "position"
    seen = set()
    pos_closure = None
    for p in paths:
        if p.end != "return":
            ctx.ob(rule, "decrement.paths", False, where=b.where(), expected="straight-line Some/None arms", found=p.describe()[:200])
            continue
        dv = None
        pe = None
        for e, v in p.cond:
            e = deep_strip(e)
            if e[0] == "app" and e[1] == "discr" and is_pos(e[2][0]):
                dv, pe = int_of(v), deep_strip(e[2][0])
        if pe is None:
            ctx.cannot(rule, "decrement.position-test", "a match on position(..)", b.where(), p.describe()[:200])
            continue
        src = deep_strip(pe[2][0])
        while src[0] == "app" and flow.last(str(src[1])) in ("&", "iter", "deref"):
            src = deep_strip(src[2][0])
        over_vec = symx.contains(pe[2][0], lambda n: n == ("sym", "*arg1")) and not symx.find_all(pe[2][0], lambda n: n[0] == "app" and flow.last(str(n[1])) in LOSSY + ("rev", "enumerate", "zip", "chain"))
        if pe[2][1][0] == "closure":
            pos_closure = pe[2][1][1]
        stores = kernel.stores_of(p)
        fills = [e for e in p.effects if e.get("kind") == "call" and flow.last(e["resolved"]) == "fill"]
        cur = ("field", ("downcast", pe, "Some"), "0")
        if dv == 0:
            seen.add("exhausted")
            ctx.ob(rule, "decrement.false-without-store", strip(p.ret) == vbool(False) and not stores and not fills, where=b.where(), expected="false, nothing written, when no digit is positive", found=p.describe()[:200])
            continue
        seen.add("decrement")
        okd = False
        for tgt, val, eff in stores:
            tgt, val = deep_strip(tgt), deep_strip(val)
            if eff.get("kind") == "store_index" and len(eff["args"]) == 3:
                tgt = ("index", deep_strip(eff["args"][0]), deep_strip(eff["args"][1]))
            if tgt[0] == "index" and deep_strip(tgt[2]) == cur and symx.contains(tgt[1], lambda n: n == ("sym", "*arg1")) and val == symx.lin_add(tgt, vint(-1)):
                okd = True
        ctx.ob(rule, "decrement.first-nonzero-minus-one", okd and over_vec and len(stores) == 1, where=b.where(), expected="v[cur] -= 1 with cur = position of the first positive digit of v",
               found=[(show(deep_strip(t_))[:100], show(deep_strip(v_))[:60]) for t_, v_, _ in stores])
        okr = False
        if len(fills) == 1:
            recv, val = deep_strip(fills[0]["args"][0]), deep_strip(fills[0]["args"][1])
            rng = symx.find_all(recv, lambda n: n[0] == "adt" and (str(n[1]).endswith("ops::RangeTo") or str(n[1]).endswith("ops::Range")))
            base = deep_strip(recv[1]) if recv[0] == "index" else None
            while base is not None and base[0] == "app" and base[1] == "store_index":      # the vector after the decrement was stored
                base = deep_strip(base[2][0])
            if len(rng) >= 1 and val == vint(2) and recv[0] == "index" and base == ("sym", "*arg1") and deep_strip(recv[2]) == rng[-1]:
                end = deep_strip(symx.adt_get(rng[-1], "end"))
                start = symx.adt_get(rng[-1], "start")
                okr = end == cur and (start is None or deep_strip(start) == vint(0))
        seen.add("reset")
        ctx.ob(rule, "decrement.reset-earlier-to-2", okr, where=b.where(), expected="v[..cur].fill(2)", found=[show(deep_strip(f_["args"][0]))[:140] for f_ in fills])
        ctx.ob(rule, "decrement.true-after-store", strip(p.ret) == vbool(True), where=b.where(), expected="true", found=show(p.ret))
    # the predicate of position: digit > 0
    okp = False
    if pos_closure is not None:
        cb = lib.body(pos_closure)
        st = symx.State()
        env = eng.closure_env(st, cb, [])
        D = ("sym", "digit")
        outs = set()
        for p2 in eng.summarise(cb, [env, shared.ref_to(st, D)], st):
            outs.add(show(deep_strip(p2.ret)) if p2.end == "return" else p2.end)
            r = deep_strip(p2.ret) if p2.end == "return" else None
            if r is not None and r[0] == "app" and r[1] == "Gt" and deep_strip(r[2][0]) == D and deep_strip(r[2][1]) == vint(0):
                okp = True
            if r is not None and r[0] == "app" and r[1] == "Ne" and deep_strip(r[2][0]) == D and deep_strip(r[2][1]) == vint(0):
                okp = True
            if r is not None and r[0] == "app" and r[1] == "Ge" and deep_strip(r[2][0]) == D and deep_strip(r[2][1]) == vint(1):
                okp = True
        okp = okp and len(outs) == 1
        seen.add("skip-zero")
        ctx.ob(rule, "decrement.skip-only-zero", okp, where=cb.where(), expected="position predicate: digit > 0 (zeros are skipped, nothing else)", found=sorted(outs))
    ctx.ob(rule, "decrement.cases", {"exhausted", "skip-zero", "decrement", "reset"} <= seen, where=b.where(), expected="exhausted / skip-zero / decrement / reset", found=sorted(seen))


def three_decrement(ctx, lib):
    rule = "C20.R-step"
    try:
        b = lib.one(THREE + "::decrement_vec")
    except LookupError as e:
        ctx.lost(rule, "decrement_vec", str(e))
        return
    eng = ctx.engine([lib])
    paths = eng.summarise(b)
    seen = set()
    if any(flow.last(ir.callee_path(ci) or "") == "position" for _, _, ci in b.calls()):
        return three_decrement_position_form(ctx, lib, b, eng, paths, rule)
    for p in paths:
        stores = kernel.stores_of(p)
        gt = [(deep_strip(e), v) for e, v in p.cond if deep_strip(e)[0] == "app" and deep_strip(e)[1] in ("Gt", "Ne", "Ge", "Lt", "Le", "Eq")]
        if p.end == "return" and strip(p.ret) == vbool(False):
            seen.add("exhausted")
            ctx.ob(rule, "decrement.false-without-store", not stores, where=b.where(), expected="false only when no digit was decremented", found=p.describe()[:160])
            continue
        if not stores:
            # skipping a zero digit
            if p.end == "backedge":
                seen.add("skip-zero")
                ok = len(gt) == 1 and gt[0][0][1] == "Gt" and gt[0][0][2][1] == vint(0) and int_of(gt[0][1]) == 0
                ctx.ob(rule, "decrement.skip-only-zero", ok, where=b.where(), expected="continue only past digits that are 0", found=p.describe()[:200])
            continue
        first = stores[0]
        tgt = deep_strip(first[0])
        val = deep_strip(first[1])
        ok = (len(gt) >= 1 and gt[0][0][1] == "Gt" and gt[0][0][2][1] == vint(0) and int_of(gt[0][1]) == 1
              and deep_strip(gt[0][0][2][0]) == tgt and val == symx.lin_add(tgt, vint(-1)))
        seen.add("decrement")
        ctx.ob(rule, "decrement.first-nonzero-minus-one", ok, where=b.where(), expected="*digit -= 1 under *digit > 0, on the tested digit", found="%s := %s" % (show(tgt)[:100], show(val)[:100]))
        for s_ in stores[1:]:
            t2 = deep_strip(s_[0])
            v2 = deep_strip(s_[1])
            # reset of earlier digits: items of vector[0..cur] with cur = index of the decremented digit
            rng = symx.find_all(t2, lambda n: n[0] == "adt" and n[1].endswith("ops::Range"))
            okr = v2 == vint(2) and len(rng) >= 1 and symx.adt_get(rng[0], "start") == vint(0) and not lossy_adaptors(t2)
            if okr:
                end = deep_strip(symx.adt_get(rng[0], "end"))
                # end = the enumerate index of the decremented digit (same item)
                item = tgt[1] if tgt[0] == "field" else None
                okr = item is not None and end == ("field", item, "0")
            seen.add("reset")
            ctx.ob(rule, "decrement.reset-earlier-to-2", okr, where=b.where(), expected="vector[0..cur] = 2 with cur the decremented position", found="%s := %s" % (show(t2)[:140], show(v2)))
        if p.end == "return":
            ctx.ob(rule, "decrement.true-after-store", strip(p.ret) == vbool(True), where=b.where(), expected="true", found=show(p.ret))
    ctx.ob(rule, "decrement.cases", {"exhausted", "skip-zero", "decrement", "reset"} <= seen, where=b.where(), expected="exhausted / skip-zero / decrement / reset", found=sorted(seen))


def two_next(ctx, lib):
    rule = "C20.R-step"
    ctx.rule(rule, "TwoValuedInterpretationsIterator::next = binary increment over `indexes` (first index holding BOT becomes TOP, all earlier "
                   "become BOT, none => end); decrement_vec = base-3 decrement (first non-zero digit -1, earlier digits reset to 2, none => false); "
                   "`started` yields the initial state exactly once")
    try:
        b = lib.one(TWO + " as std::iter::Iterator>::next")
    except LookupError as e:
        ctx.lost(rule, "two.next", str(e))
        return
    roles, defs = flow.closure_roles(b)
    finds = [r for r in roles.values() if r.adaptor == "find"]
    if len(finds) != 1:
        ctx.cannot(rule, "two.find", "one find over indexes", b.where(), [r.adaptor for r in roles.values()])
    else:
        r = finds[0]
        src, steps = r.receiver_chain()
        ok = src[0] == "field" and src[2] == "indexes" and [s_[0] for s_ in steps] == ["iter", "enumerate"]
        ctx.ob(rule, "two.find-over-indexes", ok, where=b.where(), expected="self.indexes.iter().enumerate().find(..)", found="%s %s" % (flow.show(src), [s_[0] for s_ in steps]))
        cb = lib.body(r.closure_def)
        eng = ctx.engine([lib])
        # positions listed in `indexes` only ever hold BOT or TOP (start table U->BOT, stores write TOP/BOT): domain {B, T}
        for c in ("B", "T"):
            st = symx.State()
            CUR = ("sym", "current")
            env = eng.closure_env(st, cb, [CUR])
            IDX = ("sym", "idx")
            eng.index_hook = lambda e_, s_, base, idx, c=c: shared.term(c) if (symx.contains(base, lambda n: n == CUR) and idx == IDX) else None
            item = ("tuple", (("sym", "pos"), shared.ref_to(st, IDX)))
            paths = eng.summarise(cb, [env, shared.ref_to(st, item)], st)
            got = set(p.ret if p.end == "return" else ("end", p.end) for p in paths)
            ctx.ob(rule, "two.find-table[%s]" % c, got == {vbool(c == "B")}, where=cb.where(), expected=(c == "B"), found=sorted(show(x) for x in got))
        eng.index_hook = None
    eng = ctx.engine([lib])
    paths = eng.summarise(b)
    seen = set()
    for p in paths:
        stores = kernel.stores_of(p)
        started = cond_val(p, lambda e: e[0] == "field" and e[2] == "started")
        if int_of(started) == 0:
            seen.add("first")
            calls = [e for e in p.effects if e.get("kind") == "call"]
            ok = not stores and not calls and p.end == "return" and symx.contains(deep_strip(p.ret), lambda n: n[0] == "field" and n[2] == "current")
            ctx.ob(rule, "two.first-call-yields-start", ok, where=b.where(), expected="started=false: yield current unchanged", found=p.describe()[:200])
            # started must be set
            fin = p.state
            continue
        found = cond_val(p, lambda e: e[0] == "app" and e[1] == "discr" and symx.contains(e, lambda n: n[0] == "app" and flow.last(n[1]) == "find"))
        if found is None:
            if p.end == "return":
                seen.add("ended")
            continue
        if int_of(found) != 1:
            seen.add("none")
            ok = not stores and p.end == "return" and strip(p.ret)[0] == "adt" and strip(p.ret)[2] == "None"
            ctx.ob(rule, "two.no-bot-ends", ok, where=b.where(), expected="no index holds BOT: current = None, nothing stored", found=p.describe()[:200])
            continue
        seen.add("step")
        if not stores:
            ctx.ob(rule, "two.step-stores", False, where=b.where(), expected="the found index is set to TOP", found=p.describe()[:200])
            continue
        t0 = deep_strip(stores[0][0])
        v0 = deep_strip(stores[0][1])
        fitem = symx.find_all(t0, lambda n: n[0] == "app" and flow.last(n[1]) == "find")
        ok0 = (t0[0] == "index" and idx_from_indexes(t0[2]) and shared.cls_of_term(v0) == "T" and bool(fitem)
               and symx.contains(t0[2], lambda n: n[0] == "field" and n[2] == "1"))
        ctx.ob(rule, "two.found-becomes-top", ok0, where=b.where(), expected="result[at] = TOP with at the found element of indexes", found="%s := %s" % (show(t0)[:160], show(v0)))
        for s_ in stores[1:]:
            t1 = deep_strip(s_[0])
            v1 = deep_strip(s_[1])
            # the positions before the found one: indexes[0..pos], indexes[..pos] or indexes.iter().take(pos)
            rng = symx.find_all(t1, lambda n: n[0] == "adt" and (n[1].endswith("ops::Range") or n[1].endswith("ops::RangeTo")))
            tk = symx.find_all(t1, lambda n: n[0] == "app" and flow.last(str(n[1])) == "take" and len(n[2]) == 2)
            ok1 = t1[0] == "index" and idx_from_indexes(t1[2]) and shared.cls_of_term(v1) == "B"
            end = None
            if ok1 and rng:
                if rng[0][1].endswith("ops::Range") and symx.adt_get(rng[0], "start") != vint(0):
                    ok1 = False
                if lossy_adaptors(t1):
                    ok1 = False     # every position of the prefix is reset: nothing may be taken, skipped or filtered out of indexes[0..pos]
                end = deep_strip(symx.adt_get(rng[0], "end"))
            elif ok1 and tk:
                if lossy_adaptors(t1) != ["take"]:
                    ok1 = False
                end = deep_strip(tk[0][2][1])
            else:
                ok1 = False
            if ok1:
                ok1 = end is not None and end[0] == "field" and end[2] == "0" and symx.contains(end, lambda n: n[0] == "app" and flow.last(n[1]) == "find")
            seen.add("reset")
            ctx.ob(rule, "two.earlier-become-bot", ok1, where=b.where(), expected="result[at'] = BOT for at' in indexes[0..pos of found]", found="%s := %s" % (show(t1)[:160], show(v1)))
    none_justified(ctx, rule, b, paths)
    ctx.ob(rule, "two.cases", {"first", "none", "step", "reset"} <= seen, where=b.where(), expected="first / none / step / reset paths", found=sorted(seen))
    # `started` is set on the first call: MIR-level check (assignment of true to .started on the started==false branch)
    sets = []
    for bb, i, s_ in b.statements():
        if s_["k"] == "assign" and any(pe["k"] == "field" and pe.get("name") == "started" for pe in s_["pl"]["p"]):
            rv = s_["rv"]
            sets.append(rv["o"]["v"].get("bool") if rv["k"] == "use" and rv["o"]["k"] == "const" else None)
    ctx.ob(rule, "two.started-set-true", sets == [True], where=b.where(), expected="started = true exactly once", found=sets)


def check(ctx):
    for cfg in configs(ctx.tier):
        ctx.cfg = cfg.name
        lib = ctx.load(cfg)
        F_frozen_new(ctx, lib)
        three_next(ctx, lib)
        two_next(ctx, lib)
        three_decrement(ctx, lib)
        try:
            b = lib.one(THREE + " as std::iter::Iterator>::next")
            sets = []
            for bb, i, s_ in b.statements():
                if s_["k"] == "assign" and any(pe["k"] == "field" and pe.get("name") == "started" for pe in s_["pl"]["p"]):
                    rv = s_["rv"]
                    sets.append(rv["o"]["v"].get("bool") if rv["k"] == "use" and rv["o"]["k"] == "const" else None)
            ctx.ob("C20.R-step", "three.started-set-true", sets == [True], where=b.where(), expected="started = true exactly once", found=sets)
        except LookupError as e:
            ctx.lost("C20.R-step", "three.next", str(e))
    if ctx.tier == "thorough":
        from rules import witness
        witness.check(ctx, ['W14'])   # informational: what external crates cannot reach (scope of the who-may-write census)
