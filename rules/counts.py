"""S.R-rec: count / depth / support recurrences (C12, C13, C14)."""
import sympy

from mirlib import flow, ir, symx
from mirlib.symx import show, vint
from rules import kernel, shared
from rules.kernel import deep_strip, strip, is_call, effects_named, on_field, cond_val, int_of

S = {n: sympy.Symbol(n, integer=True, nonnegative=True) for n in
     ("mL", "cL", "pmL", "pcL", "dL", "mH", "cH", "pmH", "pcH", "dH")}
K = sympy.Symbol("k", integer=True, positive=True)
J = sympy.Symbol("j", integer=True, nonnegative=True)


class NotAlgebraic(Exception):
    pass


def peel_fields(a):
    names = []
    a = strip(a)
    while a[0] in ("field", "downcast", "deref"):
        if a[0] == "field":
            inner = strip(a[1])
            if inner[0] == "downcast" and inner[2] in ("Some", "Ok") and a[2] == "0":
                pass  # payload of an Option/Result, not a tuple slot
            else:
                names.append(a[2])
        a = strip(a[1])
    return names, a


def classify_atom(a, child_of):
    names, base = peel_fields(a)
    # names outer -> inner, e.g. ['cmodels', '0'] or ['2']
    child = child_of(base)
    if child is None:
        raise NotAlgebraic("atom %s is not a count of the lo/hi child" % show(a)[:200])
    if names == ["2"]:
        return "d" + child
    if len(names) == 2 and names[1] in ("0", "1") and names[0] in ("cmodels", "models"):
        pre = {"0": {"cmodels": "c", "models": "m"}, "1": {"cmodels": "pc", "models": "pm"}}[names[1]][names[0]]
        return pre + child
    raise NotAlgebraic("atom %s: unexpected projection %s" % (show(a)[:160], names))


def to_sympy(v, child_of):
    v = strip(v)
    t = v[0]
    if t == "int":
        if v[1] != v[2]:
            raise NotAlgebraic("interval")
        return sympy.Integer(v[1])
    if t == "lin":
        e = sympy.Integer(v[1])
        for a, c in v[2]:
            e += c * to_sympy(a, child_of)
        return e
    if t == "app":
        n = v[1]
        if n in ("Add", "Sub", "Mul"):
            a, b = (to_sympy(x, child_of) for x in v[2])
            return {"Add": a + b, "Sub": a - b, "Mul": a * b}[n]
        if n == "pow":
            return to_sympy(v[2][0], child_of) ** to_sympy(v[2][1], child_of)
        if n == "max":
            return sympy.Max(*[to_sympy(x, child_of) for x in v[2]])
        if n == "min":
            return sympy.Min(*[to_sympy(x, child_of) for x in v[2]])
        if n.startswith("cast:"):
            return to_sympy(v[2][0], child_of)
    return S[classify_atom(v, child_of)]


def spec_triple(order):
    """expected (cmodels, models, pcm, pm, depth) over S with the order assumption substituted"""
    dL, dH = S["dL"], S["dH"]
    D = sympy.Max(dL, dH)
    exp = {
        "cmodels": S["cL"] * 2 ** (D - dL) + S["cH"] * 2 ** (D - dH),
        "models": S["mL"] * 2 ** (D - dL) + S["mH"] * 2 ** (D - dH),
        "pcmodels": S["pcL"] + S["pcH"],
        "pmodels": S["pmL"] + S["pmH"],
        "depth": D + 1,
    }
    return {k: subst(v, order) for k, v in exp.items()}


def subst(e, order):
    if order == "L>H":
        return sympy.simplify(e.subs(S["dL"], S["dH"] + K))
    if order == "L<=H":
        return sympy.simplify(e.subs(S["dH"], S["dL"] + J))
    return e


def order_of(p, child_of):
    """depth order assumed on path p ('L>H' / 'L<=H' / None)"""
    for e, v in p.cond:
        e = deep_strip(e)
        if e[0] == "app" and e[1] in ("Gt", "Lt", "Ge", "Le"):
            try:
                a = classify_atom(e[2][0], child_of)
                b = classify_atom(e[2][1], child_of)
            except NotAlgebraic:
                continue
            if {a, b} != {"dL", "dH"}:
                continue
            val = int_of(v)
            op = e[1]
            # normalise to statement about dL ? dH
            if a == "dH":
                op = {"Gt": "Lt", "Lt": "Gt", "Ge": "Le", "Le": "Ge"}[op]
            truth = {"Gt": "L>H", "Le": "L<=H"}
            if op == "Gt":
                return "L>H" if val == 1 else "L<=H"
            if op == "Le":
                return "L<=H" if val == 1 else "L>H"
            if op == "Ge":
                return "L>=H" if val == 1 else "L<H"
            if op == "Lt":
                return "L<H" if val == 1 else "L>=H"
    return None


def eq_under(found, expected, order):
    orders = [order] if order in ("L>H", "L<=H") else (["L>H", "L<=H"] if order is None else
                                                       {"L>=H": ["L>H", "L=H"], "L<H": ["L<H"]}[order])
    for o in orders:
        if o == "L=H":
            f = found.subs(S["dL"], S["dH"])
            x = expected.subs(S["dL"], S["dH"])
        elif o == "L<H":
            f = found.subs(S["dH"], S["dL"] + K)
            x = expected.subs(S["dH"], S["dL"] + K)
        else:
            f, x = subst(found, o), subst(expected, o)
        if sympy.simplify(sympy.expand(f - x)) != 0:
            return False, "under %s: found %s, expected %s" % (o, sympy.simplify(f), sympy.simplify(x))
    return True, "equal"


def check_triple(ctx, rule, site, where, triple, order, child_of, models_zero_allowed=False):
    """triple: symx value ('tuple', (ModelCounts, ModelCounts, depth))"""
    t = strip(triple)
    if t[0] != "tuple" or len(t[1]) != 3:
        ctx.cannot(rule, site + ".shape", "a (models, paths, depth) triple", where, show(t)[:200])
        return
    mc, pc, d = (strip(x) for x in t[1])
    comps = {}
    for name, val, pre in (("models", mc, ""), ("paths", pc, "p")):
        if val[0] != "adt" or not val[1].endswith("ModelCounts"):
            ctx.cannot(rule, "%s.%s" % (site, name), "a ModelCounts value", where, show(val)[:200])
            return
        comps[pre + "cmodels"] = symx.adt_get(val, "cmodels")
        comps[pre + "models"] = symx.adt_get(val, "models")
    comps["depth"] = d
    spec = {
        "cmodels": S["cL"] * 2 ** (sympy.Max(S["dL"], S["dH"]) - S["dL"]) + S["cH"] * 2 ** (sympy.Max(S["dL"], S["dH"]) - S["dH"]),
        "models": S["mL"] * 2 ** (sympy.Max(S["dL"], S["dH"]) - S["dL"]) + S["mH"] * 2 ** (sympy.Max(S["dL"], S["dH"]) - S["dH"]),
        "pcmodels": S["pcL"] + S["pcH"],
        "pmodels": S["pmL"] + S["pmH"],
        "depth": sympy.Max(S["dL"], S["dH"]) + 1,
    }
    for k, v in comps.items():
        try:
            f = to_sympy(v, child_of)
        except NotAlgebraic as e:
            ctx.cannot(rule, "%s.%s" % (site, k), "an arithmetic expression over the children's counts", where, str(e))
            continue
        if models_zero_allowed and k in ("cmodels", "models") and sympy.simplify(f) == 0:
            ctx.ob(rule, "%s.%s" % (site, k), True, where=where, expected="0 (documented: adhoccounting without adhoccountmodels)", found="0",
                   note="whitelisted exception of the README")
            continue
        ok, why = eq_under(f, spec[k], order)
        ctx.ob(rule, "%s.%s[%s]" % (site, k, order or "any"), ok, where=where, expected=str(spec[k]), found=why)


def leaf_ok(triple, which):
    t = strip(triple)
    if t[0] != "tuple" or len(t[1]) != 3:
        return False
    want = {"T": (0, 1), "B": (1, 0)}[which]
    for x in t[1][:2]:
        x = strip(x)
        if x[0] != "adt" or symx.adt_get(x, "cmodels") != vint(want[0]) or symx.adt_get(x, "models") != vint(want[1]):
            return False
    return strip(t[1][2]) == vint(0)


def rec_child_of(fn_name, handle_inner):
    """child classifier for recursive functions: base = F(self, nodes[t].lo|hi)"""
    def f(base):
        base = strip(base)
        if is_call(base, fn_name):
            arg = deep_strip(base[2][-1])
            los = symx.find_all(arg, lambda n: n[0] == "field" and n[2] == "lo")
            his = symx.find_all(arg, lambda n: n[0] == "field" and n[2] == "hi")
            idx = symx.find_all(arg, lambda n: n[0] == "index" and symx.contains(n[1], lambda m: m[0] == "field" and m[2] == "nodes")
                                and symx.contains(n[2], lambda m: m == handle_inner))
            if idx and len(los) == 1 and not his:
                return "L"
            if idx and len(his) == 1 and not los:
                return "H"
        return None
    return f


def R_rec_counts(ctx, lib, rule="S.R-rec"):
    ctx.rule(rule, "count/depth recurrences extracted from every place they are written equal the specification: "
                   "d(n)=max(d(lo),d(hi))+1; p(n)=p(lo)+p(hi); m(n)=m(lo)*2^(D-d(lo))+m(hi)*2^(D-d(hi)), D=max(d(lo),d(hi)) "
                   "(checked with sympy under both depth orders); leaves: d=0, TOP=(0,1), BOT=(1,0) as (cmodels,models); "
                   "CountNode slots: models/paths/depth = 0/1/2")
    feats = set(lib.features)
    n_sites = 0
    # ---- recursive procedures
    for name in ("modelcount_naive", "modelcount_memoization"):
        try:
            b = lib.one("obdd::Bdd::" + name)
        except LookupError as e:
            ctx.lost(rule, name, str(e))
            continue
        n_sites += 1
        eng = ctx.engine([lib], no_inline={b.path})
        st = symx.State()
        T = shared.term_sym("t")
        paths = eng.summarise(b, [shared.ref_to(st, ("sym", "bdd")), T], st)
        child_of = rec_child_of("Bdd::" + name, T[3][0][1])
        seen = set()
        for p in paths:
            if p.end != "return":
                continue
            ret = strip(p.ret)
            is_top = cond_val(p, lambda e: e[0] == "app" and e[1] == "Eq" and set(e[2]) == {T[3][0][1], vint(1)})
            is_bot = cond_val(p, lambda e: e[0] == "app" and e[1] == "Eq" and set(e[2]) == {T[3][0][1], vint(0)})
            if int_of(is_top) == 1:
                seen.add("top")
                ctx.ob(rule, name + ".leaf-top", leaf_ok(ret, "T"), where=b.where(), expected="((0,1),(0,1),0)", found=show(ret)[:200])
                continue
            if int_of(is_bot) == 1:
                seen.add("bot")
                ctx.ob(rule, name + ".leaf-bot", leaf_ok(ret, "B"), where=b.where(), expected="((1,0),(1,0),0)", found=show(ret)[:200])
                continue
            if kernel.contains_get(ret) and ret[0] in ("field", "downcast", "app", "deref"):
                # memo hit
                gets = [e for e in effects_named(p, "HashMap::get") if on_field(e, "count_cache")]
                ok = bool(gets) and deep_strip(gets[0]["args"][1]) == T
                ctx.ob(rule, name + ".memo-hit-key", ok, where=b.where(), expected="count_cache.get(&term)", found=[show(deep_strip(g["args"][1])) for g in gets])
                seen.add("hit")
                continue
            order = order_of(p, child_of)
            seen.add("step")
            check_triple(ctx, rule, name + ".step", b.where(), ret, order, child_of)
            ins = [e for e in effects_named(p, "HashMap::insert") if on_field(e, "count_cache")]
            if name == "modelcount_memoization":
                ok = len(ins) == 1 and deep_strip(ins[0]["args"][1]) == T and deep_strip(ins[0]["args"][2]) == deep_strip(ret)
                ctx.ob(rule, name + ".memo-insert", ok, where=b.where(), expected="count_cache.insert(term, returned triple)",
                       found=[(show(deep_strip(e["args"][1])), show(deep_strip(e["args"][2]))[:120]) for e in ins])
        need = {"top", "bot", "step"} | ({"hit"} if name == "modelcount_memoization" else set())
        ctx.ob(rule, name + ".cases", need <= seen, where=b.where(), expected=sorted(need), found=sorted(seen))
    # ---- ad-hoc bookkeeping in node
    if "adhoccounting" in feats:
        try:
            b, paths, (V, LO, HI), node_v = None, None, (None, None, None), None
            b, paths, (V, LO, HI) = kernel.node_summary(ctx, lib)
        except LookupError as e:
            ctx.lost(rule, "node", str(e))
            paths = []
        n_sites += 1

        def child_of(base, LO=LO, HI=HI):
            base = deep_strip(base)
            gets = symx.find_all(base, lambda n: n[0] == "app" and flow.fname(n[1]) == "HashMap::get")
            if len(gets) != 1 or not symx.contains(gets[0], lambda n: n[0] == "field" and n[2] == "count_cache"):
                return None
            k = deep_strip(gets[0][2][1])
            return "L" if k == LO else ("H" if k == HI else None)
        n_ins = 0
        for p in paths:
            pushes = [e for e in effects_named(p, "Vec::push") if on_field(e, "nodes")]
            if not pushes or p.end != "return":
                continue
            ins = [e for e in effects_named(p, "HashMap::insert") if on_field(e, "count_cache")]
            ctx.ob(rule, "node.count-insert", len(ins) == 1 and deep_strip(ins[0]["args"][1]) == deep_strip(p.ret) if ins else False,
                   where=b.where(), expected="count_cache.insert(new handle, ..) once on the fresh path", found=len(ins))
            for e in ins:
                n_ins += 1
                order = order_of(p, child_of)
                check_triple(ctx, rule, "node.adhoc", b.where(e["loc"]), e["args"][2], order, child_of,
                             models_zero_allowed="adhoccountmodels" not in feats)
        ctx.floor(rule, "ad-hoc count inserts in node", n_ins, 1)
        # seeds
        for fname_ in ("obdd::Bdd::new", "obdd::Bdd::fix_import"):
            try:
                bb = lib.one(fname_)
            except LookupError as e:
                ctx.lost(rule, fname_, str(e))
                continue
            eng = ctx.engine([lib], no_inline={"adf_bdd::obdd::Bdd::modelcount_memoization", "adf_bdd::obdd::Bdd::generate_var_dependencies"})
            st = symx.State()
            args = [shared.ref_to(st, ("sym", "bdd"))] if bb.argc == 1 else []
            seeds = {}
            for p in eng.summarise(bb, args, st):
                for e in effects_named(p, "HashMap::insert"):
                    k = deep_strip(e["args"][1])
                    c = shared.cls_of_term(k)
                    if c in ("T", "B") and symx.contains(e["args"][0], lambda n: (n[0] == "field" and n[2] == "count_cache") or (n[0] == "app" and flow.fname(n[1]) == "RefCell::borrow_mut")):
                        seeds[c] = leaf_ok(e["args"][2], c)
            ctx.ob(rule, flow.last(fname_) + ".seeds", seeds == {"T": True, "B": True}, where=bb.where(),
                   expected="count_cache seeds TOP->((0,1),(0,1),0), BOT->((1,0),(1,0),0)", found=seeds)
    # ---- max_depth fallback
    if "adhoccounting" not in feats:
        try:
            b = lib.one("obdd::Bdd::max_depth")
            n_sites += 1
            eng = ctx.engine([lib], no_inline={b.path})
            st = symx.State()
            T = shared.term_sym("t")

            def hook(eng_, st_, base, idx):
                return None
            paths = eng.summarise(b, [shared.ref_to(st, ("sym", "bdd")), T], st)
            child_of = rec_child_of("Bdd::max_depth", T[3][0][1])
            seen = set()
            for p in paths:
                if p.end != "return":
                    continue
                ret = strip(p.ret)
                if ret == vint(0):
                    seen.add("leaf")
                    c = cond_val(p, lambda e: e[0] == "app" and e[1] == "Le" and symx.contains(e, lambda n: n == T[3][0][1]))
                    ctx.ob(rule, "max_depth.leaf", int_of(c) == 1, where=b.where(), expected="0 only for truth values", found=p.describe()[:200])
                    continue
                if kernel.contains_get(ret):
                    seen.add("cached")
                    names, base = peel_fields(ret)
                    ctx.ob(rule, "max_depth.cached-slot", names[:1] == ["2"], where=b.where(), expected="slot 2 of the cached CountNode", found=names)
                    continue
                seen.add("step")
                try:
                    def dchild(base_):
                        base_ = strip(base_)
                        if is_call(base_, "Bdd::max_depth"):
                            arg = deep_strip(base_[2][-1])
                            lo = symx.contains(arg, lambda n: n[0] == "field" and n[2] == "lo")
                            hi = symx.contains(arg, lambda n: n[0] == "field" and n[2] == "hi")
                            if lo != hi:
                                return "L" if lo else "H"
                        return None

                    def conv(v):
                        v = strip(v)
                        if v[0] == "int":
                            return sympy.Integer(v[1])
                        if v[0] == "lin":
                            e = sympy.Integer(v[1])
                            for a, c in v[2]:
                                e += c * conv(a)
                            return e
                        if v[0] == "app" and v[1] in ("max", "min"):
                            return (sympy.Max if v[1] == "max" else sympy.Min)(*[conv(x) for x in v[2]])
                        if v[0] == "app" and v[1] in ("Add", "Sub"):
                            a_, b_ = conv(v[2][0]), conv(v[2][1])
                            return a_ + b_ if v[1] == "Add" else a_ - b_
                        ch = dchild(v)
                        if ch is None:
                            raise NotAlgebraic(show(v)[:160])
                        return S["d" + ch]
                    f = conv(ret)
                    ok = sympy.simplify(f - (sympy.Max(S["dL"], S["dH"]) + 1)) == 0
                    ctx.ob(rule, "max_depth.step", ok, where=b.where(), expected="max(d(lo), d(hi)) + 1", found=str(f))
                except NotAlgebraic as e:
                    ctx.cannot(rule, "max_depth.step", "max(d(lo), d(hi)) + 1", b.where(), str(e))
            ctx.ob(rule, "max_depth.cases", {"leaf", "step"} <= seen, where=b.where(), expected=["leaf", "step"], found=sorted(seen))
        except LookupError as e:
            ctx.lost(rule, "max_depth", str(e))
    # ---- slot agreement of the readers
    for name, slot in (("models", "0"), ("paths", "1"), ("max_depth", "2")):
        try:
            b = lib.one("obdd::Bdd::" + name)
        except LookupError as e:
            ctx.lost(rule, name, str(e))
            continue
        eng = ctx.engine([lib], no_inline={"adf_bdd::obdd::Bdd::modelcount_memoization", "adf_bdd::obdd::Bdd::modelcount_naive", b.path})
        st = symx.State()
        T = shared.term_sym("t")
        args = [shared.ref_to(st, ("sym", "bdd")), T] + ([("sym", "memo")] if b.argc == 3 else [])
        bad = []
        n_ret = 0
        for p in eng.summarise(b, args, st):
            if p.end != "return":
                continue
            ret = strip(p.ret)
            if ret == vint(0) or (ret[0] == "lin") or (ret[0] == "app" and ret[1] in ("max", "Add")):
                continue  # max_depth fallback arithmetic, checked above
            names, base = peel_fields(ret)
            n_ret += 1
            src_ok = (symx.contains(base, lambda n: n[0] == "app" and flow.fname(n[1]) in ("HashMap::get", "Bdd::modelcount_memoization", "Bdd::modelcount_naive"))
                      and symx.contains(base, lambda n: n == T or n == T[3][0][1]))
            if names[-1:] != [slot] or not src_ok:
                bad.append("%s from %s" % (names, show(base)[:120]))
        ctx.ob(rule, "reader.%s-slot" % name, not bad and n_ret >= 1, where=b.where(), expected="slot %s of the CountNode of the queried term" % slot,
               found=bad or "%d returns" % n_ret)
        # memoization flag polarity (documented: true = memoised procedure)
        if b.argc == 3:
            for flag in (True, False):
                st = symx.State()
                args = [shared.ref_to(st, ("sym", "bdd")), T, symx.vbool(flag)]
                used = set()
                for p in eng.summarise(b, args, st):
                    for e in p.effects:
                        if e.get("kind") == "call" and flow.fname(e["resolved"]) in ("Bdd::modelcount_memoization", "Bdd::modelcount_naive"):
                            used.add(flow.fname(e["resolved"]))
                if used:
                    want = {"Bdd::modelcount_memoization"} if flag else {"Bdd::modelcount_naive"}
                    ctx.ob(rule, "reader.%s-flag[%s]" % (name, flag), used == want, where=b.where(), expected=sorted(want), found=sorted(used))
    ctx.floor(rule, "recurrence sites", n_sites, 3)


# ------------------------------------------------------------------ supports
def R_rec_support(ctx, lib, rule="S.R-rec"):
    ctx.rule(rule + "/support", "support recurrence s(n) = s(lo) U s(hi) U {var(n)}, s(leaf) = {} at every place it is written "
                                "(Bdd::node ad hoc, generate_var_dependencies, var_dependencies fallback)")
    rule = rule + "/support"
    feats = set(lib.features)
    n = 0

    def union_ok(p, lo_pred, hi_pred, var_pred, sink):
        """in path p: union(A,B) with A~lo,B~hi (any order), then insert(var) into the collected set, and `sink(set)`"""
        unions = effects_named(p, "HashSet::union")
        if len(unions) != 1:
            return False, "%d union calls" % len(unions)
        a, b_ = deep_strip(unions[0]["args"][0]), deep_strip(unions[0]["args"][1])
        if not ((lo_pred(a) and hi_pred(b_)) or (lo_pred(b_) and hi_pred(a))):
            return False, "union operands %s, %s are not the supports of lo and hi" % (show(a)[:100], show(b_)[:100])
        ins = [e for e in effects_named(p, "HashSet::insert")]
        if len(ins) != 1 or not var_pred(deep_strip(ins[0]["args"][1])):
            return False, "insert of the node's own variable not found: %s" % [show(deep_strip(e["args"][1]))[:80] for e in ins]
        target = deep_strip(ins[0]["args"][0])
        if not symx.contains(target, lambda n_: n_ == deep_strip(unions[0]["result"])):
            return False, "variable inserted into %s, not into the union" % show(target)[:120]
        return sink(p, unions[0], ins[0])

    if "variablelist" in feats:
        # node ad hoc
        try:
            b, paths, (V, LO, HI) = kernel.node_summary(ctx, lib)
            for p in paths:
                pushes = [e for e in effects_named(p, "Vec::push") if on_field(e, "nodes")]
                if not pushes or p.end != "return":
                    continue
                n += 1

                def idx_of(h):
                    return lambda a: (a[0] == "index" or a[0] == "app") and symx.contains(a, lambda n_: n_[0] == "field" and n_[2] == "var_deps") \
                        and symx.contains(a, lambda n_: n_ == h[3][0][1]) and not symx.contains(a, lambda n_: n_ == (HI if h is LO else LO)[3][0][1])

                def sink(p_, un, ins):
                    vp = [e for e in effects_named(p_, "Vec::push") if on_field(e, "var_deps")]
                    if len(vp) != 1:
                        return False, "%d pushes to var_deps" % len(vp)
                    if vp[0]["serial"] < ins["serial"]:
                        return False, "set pushed before the variable was inserted"
                    pushed = deep_strip(vp[0]["args"][1])
                    if not symx.contains(pushed, lambda n_: n_ == deep_strip(un["result"])):
                        return False, "pushed %s" % show(pushed)[:120]
                    # index alignment: var_deps.push happens on the same path as nodes.push (same index)
                    return True, "ok"
                ok, why = union_ok(p, idx_of(LO), idx_of(HI), lambda v: v == V, sink)
                ctx.ob(rule, "node.support", ok, where=b.where(), expected="var_deps.push(var_deps[lo] U var_deps[hi] U {var})", found=why)
        except LookupError as e:
            ctx.lost(rule, "node", str(e))
        # generate_var_dependencies (private; role: the function fix_import calls that pushes to var_deps)
        gen = None
        try:
            fi = lib.one("obdd::Bdd::fix_import")
            for _, t, ci in fi.calls():
                pth = ir.callee_path(ci)
                cb = lib.body(pth) if pth else None
                if cb is not None and any(pe.get("name") == "var_deps" for c in [cb] + lib.closures_of(cb, True)
                                          for _, _, s in c.statements() if s["k"] == "assign" and s["rv"]["k"] == "ref" for pe in s["rv"]["pl"]["p"] if pe["k"] == "field"):
                    gen = cb
        except LookupError as e:
            ctx.lost(rule, "fix_import", str(e))
        if gen is None:
            ctx.lost(rule, "generate_var_dependencies", "function reached from fix_import that rebuilds var_deps")
        else:
            n += 1
            clos = lib.closures_of(gen)
            roles, _ = flow.closure_roles(gen)
            done = False
            for c in clos:
                r = roles.get(c.path)
                if r is None or r.adaptor != "for_each":
                    continue
                src, steps = r.receiver_chain()
                src_ok = src[0] == "field" and src[2] == "nodes" and [s[0] for s in steps] == ["iter"]
                ctx.ob(rule, "generate.iterates-nodes", src_ok, where=gen.where(), expected="self.nodes.iter().for_each(..) in index order",
                       found="%s via %s" % (flow.show(src), [s[0] for s in steps]))
                eng = ctx.engine([lib])
                for kind, varv in (("inner", 4), ("BOTconst", shared.VAR_BOT), ("TOPconst", shared.VAR_TOP)):
                    st = symx.State()
                    LOh, HIh = shared.term_sym("lo"), shared.term_sym("hi")
                    node = symx.mk_adt(shared.BDDNODE, "BddNode", [("var", shared.var_of(vint(varv))), ("lo", LOh), ("hi", HIh)])
                    env = ("closure", c.path, (shared.ref_to(st, ("sym", "bdd")),))
                    paths = eng.summarise(c, [shared.ref_to(st, env), shared.ref_to(st, node)], st)
                    for p in paths:
                        if p.end != "return":
                            continue
                        vp = [e for e in effects_named(p, "Vec::push")]
                        if kind != "inner":
                            ok = len(vp) == 1 and is_call(deep_strip(vp[0]["args"][1]), "HashSet::new") and not effects_named(p, "HashSet::union")
                            ctx.ob(rule, "generate.leaf[%s]" % kind, ok, where=c.where(), expected="push(empty set)", found=p.describe()[:200])
                        else:
                            def idx_of2(h, other):
                                return lambda a: symx.contains(a, lambda n_: n_ == h[3][0][1]) and not symx.contains(a, lambda n_: n_ == other[3][0][1])

                            def sink2(p_, un, ins):
                                if len(vp) != 1 or vp[0]["serial"] < ins["serial"]:
                                    return False, "push missing or before insert"
                                if not symx.contains(deep_strip(vp[0]["args"][1]), lambda n_: n_ == deep_strip(un["result"])):
                                    return False, "pushed something else"
                                return True, "ok"
                            ok, why = union_ok(p, idx_of2(LOh, HIh), idx_of2(HIh, LOh), lambda v: v == shared.var_of(vint(varv)), sink2)
                            ctx.ob(rule, "generate.inner", ok, where=c.where(), expected="push(var_deps[lo] U var_deps[hi] U {var})", found=why)
                done = True
            if not done:
                ctx.cannot(rule, "generate.closure", "a for_each closure over self.nodes", gen.where(), [c.path for c in clos])
        # reader
        try:
            b = lib.one("obdd::Bdd::var_dependencies")
            eng = ctx.engine([lib])
            st = symx.State()
            T = shared.term_sym("t")
            paths = eng.summarise(b, [shared.ref_to(st, ("sym", "bdd")), T], st)
            ok = all(p.end == "return" and symx.contains(deep_strip(p.ret), lambda n_: n_[0] == "index" and symx.contains(n_[1], lambda m: m[0] == "field" and m[2] == "var_deps") and n_[2] == T[3][0][1]) for p in paths)
            ctx.ob(rule, "var_dependencies.reads-own-entry", ok and len(paths) >= 1, where=b.where(), expected="clone of var_deps[tree]", found=[show(p.ret)[:120] if p.ret else p.end for p in paths])
        except LookupError as e:
            ctx.lost(rule, "var_dependencies", str(e))
    else:
        try:
            b = lib.one("obdd::Bdd::var_dependencies")
            n += 1
            eng = ctx.engine([lib], no_inline={b.path})
            for kind, varv in (("inner", 4), ("BOTconst", shared.VAR_BOT), ("TOPconst", shared.VAR_TOP)):
                st = symx.State()
                T = shared.term_sym("t")
                LOh, HIh = shared.term_sym("lo"), shared.term_sym("hi")
                node = symx.mk_adt(shared.BDDNODE, "BddNode", [("var", shared.var_of(vint(varv))), ("lo", LOh), ("hi", HIh)])
                eng.index_hook = lambda e_, s_, base, idx, node=node: node if symx.contains(base, lambda n_: n_[0] == "field" and n_[2] == "nodes") else None
                paths = eng.summarise(b, [shared.ref_to(st, ("sym", "bdd")), T], st)
                for p in paths:
                    if p.end != "return":
                        continue
                    if kind != "inner":
                        ok = is_call(strip(p.ret), "HashSet::new") and not effects_named(p, "HashSet::union")
                        ctx.ob(rule, "var_dependencies.leaf[%s]" % kind, ok, where=b.where(), expected="empty set", found=show(p.ret)[:160])
                    else:
                        rec = lambda h: (lambda a: is_call(strip(a), "Bdd::var_dependencies") and strip(strip(a)[2][-1]) == h)

                        def sink3(p_, un, ins):
                            r = deep_strip(p_.ret)
                            if not symx.contains(r, lambda n_: n_ == deep_strip(un["result"])):
                                return False, "returns %s" % show(r)[:120]
                            return True, "ok"
                        ok, why = union_ok(p, rec(LOh), rec(HIh), lambda v: v == shared.var_of(vint(varv)), sink3)
                        ctx.ob(rule, "var_dependencies.inner", ok, where=b.where(), expected="s(lo) U s(hi) U {var}", found=why)
            eng.index_hook = None
        except LookupError as e:
            ctx.lost(rule, "var_dependencies", str(e))
    ctx.floor(rule, "support sites", n, 1)
