"""Rule framework: obligations, floors, known findings, evidence, reports."""
import json
import os
import time

from mirlib import facts, ir, symx

VERIF = os.path.dirname(os.path.dirname(os.path.abspath(__file__)))
KNOWN = os.path.join(VERIF, "known_findings.json")


class Obligation:
    __slots__ = ("rule", "key", "config", "ok", "where", "expected", "found", "kind", "nontrivial", "note")

    def __init__(self, rule, key, config, ok, where=None, expected=None, found=None, kind="refuted",
                 nontrivial=True, note=None):
        self.rule = rule
        self.key = key
        self.config = config
        self.ok = ok
        self.where = where
        self.expected = expected
        self.found = found
        self.kind = kind  # refuted | anchor-lost | floor | unreviewed | cannot-establish | engine
        self.nontrivial = nontrivial
        self.note = note

    def ident(self):
        return (self.rule, self.key)

    def to_json(self):
        d = {"rule": self.rule, "instance": self.key, "config": self.config, "verdict": "discharged" if self.ok else self.kind}
        if self.where:
            d["where"] = self.where
        if self.expected is not None:
            d["expected"] = self.expected
        if self.found is not None:
            d["found"] = self.found
        if self.note:
            d["note"] = self.note
        return d


class Context:
    def __init__(self, prop, tier, seed, verbose=False):
        self.prop = prop
        self.tier = tier
        self.seed = seed
        self.verbose = verbose
        self.obligations = []
        self.configs_used = {}
        self.crates = {}
        self.rule_texts = {}
        self.notes = []
        self.cfg = None  # current config name (set by for_configs)
        self.failures = []
        self.stats = {"bodies": {}, "callsites": 0}

    # ------------------------------------------------------------ facts
    def load(self, config, package=None):
        """config: facts.Config ; returns ir.Crate of the requested package (default: own package)"""
        pkg = package or facts.PKGS[config.kind]
        key = (config.name, pkg)
        if key not in self.crates:
            d, info = facts.ensure(config)
            self.configs_used[config.name] = info
            path = os.path.join(d, pkg + ".json")
            if not os.path.exists(path):
                raise RuntimeError("fact file missing: %s" % path)
            c = ir.load(d, pkg)
            if pkg != "adf_bdd" and os.path.exists(os.path.join(d, "adf_bdd.json")):
                libc = ir.load(d, "adf_bdd")
                c.adts_all = dict(libc.adts)
                c.adts_all.update(c.adts)
                c.lib = libc
            self.crates[key] = c
            self.stats["bodies"]["%s/%s" % (config.name, pkg)] = len(c.all_bodies)
            floor = {"adf_bdd": 300, "adf-bdd-bin": 30, "adf-bdd-server": 150}.get(pkg, 1)
            self.ob("facts.bodies", "%s" % pkg, len(c.all_bodies) >= floor, config=config.name,
                    expected=">= %d bodies" % floor, found=len(c.all_bodies), kind="floor", nontrivial=False)
        return self.crates[key]

    def engine(self, crates, **kw):
        if not isinstance(crates, (list, tuple)):
            crates = [crates]
        kw.setdefault("max_inline_blocks", 16)
        return symx.Engine(crates, **kw)

    # ------------------------------------------------------------ obligations
    def rule(self, rule, text):
        self.rule_texts[rule] = text

    def ob(self, rule, key, ok, where=None, expected=None, found=None, kind="refuted", config=None,
           nontrivial=True, note=None):
        o = Obligation(rule, key, config or self.cfg, bool(ok), where, _short(expected), _short(found),
                       kind, nontrivial, note)
        self.obligations.append(o)
        if self.verbose:
            print("  [%s] %s %s %s" % ("ok" if ok else kind.upper(), rule, key, "" if ok else "expected=%s found=%s" % (o.expected, o.found)))
        return bool(ok)

    def lost(self, rule, key, what, where=None):
        """an anchor (function, call site, closure role) could not be found"""
        return self.ob(rule, key, False, where=where, expected=what, found="not found", kind="anchor-lost")

    def cannot(self, rule, key, what, where=None, found=None):
        return self.ob(rule, key, False, where=where, expected=what, found=found, kind="cannot-establish")

    def floor(self, rule, what, count, minimum):
        return self.ob(rule, "floor:" + what, count >= minimum, expected=">= %d %s" % (minimum, what),
                       found=count, kind="floor", nontrivial=False)

    def engine_failure(self, msg, tb):
        self.failures.append(msg)
        self.ob("engine", "exception", False, expected="rule suite runs to completion", found=msg + "\n" + tb[-1500:],
                kind="engine", nontrivial=False)


def _short(x, n=1500):
    if x is None:
        return None
    if not isinstance(x, (str, int, float, bool, list, dict)):
        x = str(x)
    if isinstance(x, str) and len(x) > n:
        return x[:n] + "..."
    return x


def load_known():
    try:
        with open(KNOWN) as f:
            return json.load(f)
    except OSError:
        return {"open": [], "fixed": []}


def finish(ctx, mod, wall):
    known = load_known()
    open_keys = {}
    for k in known.get("open", []):
        if k["property"] == ctx.prop:
            open_keys[(k["rule"], k["instance"])] = k
    total = len(ctx.obligations)
    bad = [o for o in ctx.obligations if not o.ok and o.kind != "info"]   # kind info: recorded in the evidence, never a verdict (type-level witnesses)
    violations = []
    known_hits = []
    seen = set()
    for o in bad:
        ident = o.ident()
        if ident in open_keys:
            if ident not in seen:
                known_hits.append((o, open_keys[ident]))
        else:
            violations.append(o)
        seen.add(ident)
    # distinct non-trivial obligations
    distinct = set()
    for o in ctx.obligations:
        if o.nontrivial:
            distinct.add((o.rule, o.key))
    discharged = sum(1 for o in ctx.obligations if o.ok)
    samples = []
    per_rule = {}
    for o in ctx.obligations:
        r = per_rule.setdefault(o.rule, {"obligations": 0, "discharged": 0})
        r["obligations"] += 1
        r["discharged"] += 1 if o.ok else 0
    seen_rules = set()
    for o in ctx.obligations:
        if o.ok and o.nontrivial and o.rule not in seen_rules:
            seen_rules.add(o.rule)
            samples.append(o.to_json())
    for o in ctx.obligations[:3]:
        if o.to_json() not in samples:
            samples.append(o.to_json())
    out_dir = os.environ.get("VCHECK_OUT") or VERIF   # VCHECK_OUT: self-test workers write evidence/reports elsewhere
    os.makedirs(os.path.join(out_dir, "evidence"), exist_ok=True)
    os.makedirs(os.path.join(out_dir, "reports"), exist_ok=True)
    report_path = os.path.join(out_dir, "reports", "%s-%s.json" % (ctx.prop, ctx.tier))
    ev = {
        "property_id": ctx.prop,
        "tier": ctx.tier,
        "seed": ctx.seed,
        "level": "other",
        "coverage": {
            "explanation": getattr(mod, "EXPLANATION", "").strip(),
            "obligations": total,
            "discharged": discharged,
            "evaluations": total,
            "distinct_nontrivial": len(distinct),
            "rule": ("Obligations are generated by the rule modules from the type-checked MIR of /repo "
                     "(one per rule instance per feature configuration); an obligation is non-trivial unless "
                     "it is an instance-count floor or a fact-file sanity check; distinct = distinct (rule, instance) pairs."),
            "samples": samples[:12],
            "exhaustive": True,
            "checker_cmd": "./vcheck %s --tier %s" % (ctx.prop, ctx.tier),
            "trusted_base": getattr(mod, "TRUSTED", ["rustc nightly type checker, trait resolution and MIR construction",
                                                     "the specification tables in the rule module"]),
            "rules": {k: {"text": ctx.rule_texts.get(k, ""), **v} for k, v in per_rule.items()},
            "configurations": ctx.configs_used,
            "bodies_analysed": ctx.stats["bodies"],
            "not_decided": getattr(mod, "NOT_DECIDED", "").strip(),
            "known_findings_matched": [k["instance"] for _, k in known_hits],
            "informational": [o.to_json() for o in ctx.obligations if o.kind == "info"][:40],
        },
        "assumptions": getattr(mod, "ASSUMPTIONS", [
            "nightly rustc builds the same program from the same sources and cfgs as the stable toolchain",
            "std/iterator adaptors, crossbeam, roaring, biodivine, serde, mongodb, actix behave as documented",
        ]),
        "wall_s": round(wall, 2),
        "violations": len(violations),
    }
    with open(os.path.join(out_dir, "evidence", ctx.prop + ".json"), "w") as f:
        json.dump(ev, f, indent=1, default=str)
    for o, k in known_hits:
        print("KNOWN-FINDING: property=%s rule=%s instance=%s %s" % (ctx.prop, o.rule, o.key, k.get("what", "")))
    print("%s %s: %d obligations, %d discharged, %d known findings, %d violations, %.1fs" % (
        ctx.prop, ctx.tier, total, discharged, len(known_hits), len(violations), wall))
    if violations:
        rep = {"property": ctx.prop, "tier": ctx.tier, "violations": [o.to_json() for o in violations]}
        with open(report_path, "w") as f:
            json.dump(rep, f, indent=1, default=str)
        shown = {}
        for o in violations:
            shown.setdefault(o.ident(), []).append(o)
        for ident, os_ in list(shown.items())[:40]:
            o = os_[0]
            cfgs = sorted(set(str(x.config) for x in os_))
            print("  %s %s [%s] at %s (%s)\n      expected: %s\n      found:    %s" % (
                o.kind.upper(), o.rule, o.key, o.where or "?", ", ".join(cfgs), o.expected, o.found))
        print("VIOLATION property=%s replay=%s" % (ctx.prop, report_path))
        return 1
    if os.path.exists(report_path):
        os.remove(report_path)
    return 0
