"""E5 - type-level witnesses: compile_fail doctests with an error code, each paired with a compiling `no_run` twin.

Nothing is executed: `compile_fail` examples must be rejected by rustc with exactly the stated error code, the twins are
compiled only (`no_run`).  The crate /verif/witness path-depends on /repo/lib, so the verdict is about the current tree.
Results are cached per source hash (work/witness-<hash>.json) so that several checks of one run share one compilation."""
import fcntl
import json
import os
import re
import shutil
import subprocess
import time

from mirlib import facts

VERIF = facts.VERIF
WDIR = os.path.join(VERIF, "witness")
RULE = "Y.witness"
TEXT = ("INFORMATIONAL (never a verdict) - type-level witness: the `compile_fail,E0xxx` example is rejected by rustc with exactly that error and its twin - identical except for the offending "
        "line - compiles (cargo +nightly test --doc; twins are no_run, nothing is executed)")

LINE = re.compile(r"^test src/lib\.rs - (W\d+)(\w*) \(line \d+\) - (compile fail|compile) \.\.\. (\w+)")


def results():
    key = facts.source_hash()
    h = _src_hash()
    cache = os.path.join(facts.WORK, "witness-%s-%s.json" % (key, h))
    os.makedirs(facts.WORK, exist_ok=True)
    lockf = open(os.path.join(facts.WORK, ".witness.lock"), "w")
    fcntl.flock(lockf, fcntl.LOCK_EX)
    try:
        if os.path.exists(cache) and os.environ.get("VCHECK_NO_CACHE") != "1":
            return json.load(open(cache))
        for f in os.listdir(facts.WORK):
            if f.startswith("witness-") and f.endswith(".json"):
                os.remove(os.path.join(facts.WORK, f))
        shutil.copy(os.path.join(facts.REPO, "Cargo.lock"), os.path.join(WDIR, "Cargo.lock"))
        env = dict(os.environ, CARGO_NET_OFFLINE="true", CARGO_TARGET_DIR=os.path.join(facts.WORK, "witness-target"))
        env.pop("RUSTC_WORKSPACE_WRAPPER", None)
        t0 = time.time()
        r = subprocess.run(["cargo", "+nightly", "test", "--doc", "--offline"], cwd=WDIR, env=env, text=True,
                           stdout=subprocess.PIPE, stderr=subprocess.STDOUT)
        res = {"wall_s": round(time.time() - t0, 1), "exit": r.returncode, "tests": {}, "tail": r.stdout[-3000:]}
        for line in r.stdout.splitlines():
            m = LINE.match(line.strip())
            if m:
                wid, name, kind, verdict = m.groups()
                res["tests"].setdefault(wid, {"name": wid + name})["fail" if kind == "compile fail" else "twin"] = verdict
        json.dump(res, open(cache, "w"), indent=1)
        return res
    finally:
        fcntl.flock(lockf, fcntl.LOCK_UN)
        lockf.close()


def _src_hash():
    import hashlib
    h = hashlib.sha256()
    for f in ("Cargo.toml", "src/lib.rs"):
        with open(os.path.join(WDIR, f), "rb") as fh:
            h.update(fh.read())
    return h.hexdigest()[:10]


def check(ctx, ids, rule=RULE):
    """one obligation per witness id (e.g. 'W01'): the compile_fail example fails with its code AND the twin compiles"""
    ctx.rule(rule, TEXT)
    saved = ctx.cfg
    ctx.cfg = "witness"
    try:
        res = results()
    except Exception as e:  # noqa
        ctx.ob(rule, "witness-run", False, expected="witness crate compiles its doctests", found="%s: %s" % (type(e).__name__, e), kind="info", nontrivial=False)
        ctx.cfg = saved
        return
    for wid in ids:
        t = res["tests"].get(wid)
        if t is None:
            # the whole witness crate may have failed to build (e.g. a public path moved): fail closed
            ctx.ob(rule, wid, False, where="witness/src/lib.rs", expected="witness %s present in the doctest output" % wid,
                   found="not reported (exit %s): %s" % (res["exit"], res["tail"][-400:]), kind="info", nontrivial=False)
            continue
        ok = t.get("fail") == "ok" and t.get("twin") == "ok"
        ctx.ob(rule, "%s" % t["name"], ok, where="witness/src/lib.rs", expected="compile_fail example rejected with its error code, twin compiles",
               found="compile_fail: %s, twin: %s" % (t.get("fail"), t.get("twin")), kind="info", nontrivial=False)
    ctx.cfg = saved
