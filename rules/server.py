"""Helpers for the web-service rules (C16, C17): handler discovery, bson documents, provenance roles."""
from mirlib import flow, ir

HANDLERS_ADF = ("add_adf_problem", "solve_adf_problem", "get_adf_problem", "delete_adf_problem", "get_adf_problems_for_user")
HANDLERS_USER = ("register", "delete_account", "login", "logout", "user_info", "update_user")
HELPERS = ("adf_problem_exists", "username_exists", "create_username_index")


def fn_name(body):
    """name of the (async) fn a coroutine/closure body belongs to"""
    crate = body.crate
    b = body
    while b is not None and b.kind == "closure":
        b = crate.bodies.get(b.parent)
    if b is None:
        return None
    return [x for x in flow.sg(b.path).split("::") if x][-1]


def handler_bodies(server, name):
    """(outer fn body, coroutine body, nested closure bodies) of async fn `name`"""
    outers = [b for b in server.all_bodies if b.kind != "closure" and [x for x in flow.sg(b.path).split("::") if x][-1] == name
              and any(c.is_coroutine for c in server.closures_of(b))]
    if len(outers) != 1:
        raise LookupError("async fn %s: found %d" % (name, len(outers)))
    outer = outers[0]
    cor = [c for c in server.closures_of(outer) if c.is_coroutine]
    if len(cor) != 1:
        raise LookupError("coroutine of %s: found %d" % (name, len(cor)))
    return outer, cor[0], server.closures_of(cor[0], recursive=True)


def param_roles(outer):
    """capture index of the coroutine -> role by the outer fn's parameter type"""
    roles = {}
    for i in range(1, outer.argc + 1):
        t = ir.ty_str(outer.locals[i]["ty"])
        if "actix_identity::Identity" in t:
            r = "IDENTITY"
        elif "web::Data" in t:
            r = "STATE"
        elif "HttpRequest" in t:
            r = "REQ"
        elif any(x in t for x in ("web::Path", "web::Json", "MultipartForm", "web::Form", "web::Query", "web::Bytes", "String")):
            r = "REQUEST"
        elif "mongodb::Collection" in t:
            r = "COLL"
        else:
            r = "OTHER:" + t[:40]
        roles[i - 1] = r
    return roles


def role_sources(e, roles, owner_path=None):
    """roles of the coroutine upvars / owner params an expression depends on"""
    out = set()
    for n in flow.find(e, lambda n_: n_[0] in ("upvar", "oparam", "param")):
        if n[0] == "upvar":
            out.add(roles.get(n[1], "?"))
        elif n[0] == "oparam":
            out.add("OUTER")
        else:
            out.add("PARAM%d" % n[1])
    return out


def doc_entries(body, defs, e, depth=0):
    """e: flow expression of a bson Document value (its Document::new() call expr, possibly wrapped in Into::into);
    returns {key: value expr} gathering Document::insert calls on the same document; nested documents recursively as dicts"""
    base = e
    while True:
        if base[0] == "call" and flow.last(base[2]) in ("into", "from", "clone") and base[3]:
            base = base[3][0]
        elif base[0] == "adt" and base[1].endswith("Bson") and base[2] == "Document" and base[3]:
            base = base[3][0][1]
        else:
            break
    if not (base[0] == "call" and flow.fname(base[1]).endswith("Document::new")):
        return None
    res = {}
    for bb, t, ci in body.calls():
        p = ir.callee_path(ci) or ""
        if flow.fname(p).endswith("Document::insert"):
            ce = defs.expr_call(t, bb)
            if ce[0] == "call" and ce[3] and ce[3][0] == base:
                k = flow.const_val(ce[3][1]) if ce[3][1][0] == "const" else flow.show(ce[3][1])
                v = ce[3][2]
                if depth < 3:
                    sub = doc_entries(body, defs, v, depth + 1)
                    if sub is not None:
                        res[k] = sub
                        continue
                res[k] = v
    return res


def collection_calls(server, elem_suffix):
    """all calls of mongodb::Collection<elem> methods: (body, bb, term, method, call expr, defs)"""
    out = []
    for b in server.all_bodies:
        d = None
        for bb, t, ci in b.calls():
            p = ir.callee_path(ci) or ""
            if "mongodb::Collection" in p or "mongodb::coll::Collection" in p:
                args = [ir.ty_str(a) for a in (ci.get("args") or [])]
                if args and args[0].endswith(elem_suffix) and "{closure" not in p:
                    d = d or flow.Defs(b)
                    out.append((b, bb, t, flow.last(p), d.expr_call(t, bb), d))
    return out


def identity_payload(e, roles):
    """is expression e (possibly 'alts') the Ok payload of Identity::id() of the request's identity?  returns list of leaf descriptions"""
    leaves = []

    def leaf(x):
        x0 = x
        while x[0] == "call" and flow.last(x[2]) in ("into", "clone", "to_string", "to_owned", "from", "as_str", "deref", "borrow", "as_ref") and x[3]:
            x = x[3][0]
        if x[0] == "alts":
            for a in x[1]:
                leaf(a)
            return
        # ((map(up:identity, closure) as Some).0 as Ok).0   or   (Identity::id(x) as Ok).0
        y = x
        path = []
        while y[0] in ("field", "downcast"):
            path.append(y[2])
            y = y[1]
        if y[0] == "call" and flow.last(y[2]) == "map" and y[3] and y[3][0][0] == "upvar" and roles.get(y[3][0][1]) == "IDENTITY" and "Ok" in path:
            leaves.append("IDENTITY")
            return
        if y[0] == "call" and flow.fname(y[1]).endswith("Identity::id") and "Ok" in path:
            src = role_sources(y, roles)
            leaves.append("IDENTITY" if src <= {"IDENTITY"} and src else "ID?:%s" % sorted(src))
            return
        leaves.append(("OTHER", x))
    leaf(e)
    return leaves


LOSSY = ("skip", "take", "step_by", "skip_while", "take_while", "nth", "last", "truncate", "pop", "remove", "swap_remove", "drain", "retain", "dedup", "find", "position", "rev",
         "sort", "sort_by", "sort_unstable", "reverse", "split_off", "split_at", "first", "next_back")


def lossy_calls(crate, body, allow=()):
    """calls of element-dropping / reordering iterator or Vec operations in `body` and its closures (a conversion that must carry every element in order has none)"""
    out = []
    for b in [body] + crate.closures_of(body, recursive=True):
        for bb, t, ci in b.calls():
            p = ir.callee_path(ci) or ""
            nm = flow.last(p)
            if nm in LOSSY and nm not in allow and ("iter" in p or "Iterator" in p or "Vec" in p or "slice" in p or "collections" in p):
                out.append("%s at %s" % (flow.fname(p), b.where(t.get("loc"))))
    return out
