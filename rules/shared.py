"""Shared domain helpers and the shared obligations S.* of DESIGN.md section 2."""
import itertools
import re

from mirlib import flow, ir, symx
from mirlib.facts import REPO as _REPO
from mirlib.symx import INF, mk_adt, vbool, vint, show

TERM = "adf_bdd::datatypes::bdd::Term"
VAR = "adf_bdd::datatypes::bdd::Var"
BDDNODE = "adf_bdd::datatypes::bdd::BddNode"
VAR_BOT = 18446744073709551614
VAR_TOP = 18446744073709551615

CLASSES = ("B", "T", "U")


def term(cls):
    return mk_adt(TERM, "Term", [("0", {"B": vint(0), "T": vint(1), "U": vint(2, INF)}[cls])])


def term_sym(name):
    return mk_adt(TERM, "Term", [("0", ("sym", name))])


def var_of(v):
    return mk_adt(VAR, "Var", [("0", v)])


def cls_of_term(v):
    """class of a Term value, or None"""
    if v[0] == "adt" and v[1] == TERM:
        n = v[3][0][1]
        if n[0] == "int":
            if n[1] == n[2] == 0:
                return "B"
            if n[1] == n[2] == 1:
                return "T"
            if n[1] >= 2:
                return "U"
    return None


def bio(cls):
    return ("sym", "bio:" + cls)


def _bio_cls(eng, st, a):
    v = symx.deref_val(eng, st, a)
    for _ in range(3):
        if v[0] == "sym" and str(v[1]).startswith("bio:"):
            return v[1][4:]
        if v[0] == "ref" or (v[0] == "app" and v[1] == "&"):
            v = symx.deref_val(eng, st, v)
    return None


def _bio_is_true(eng, st, frame, args, finfo, t):
    c = _bio_cls(eng, st, args[0])
    if c is None:
        return NotImplemented
    return [(st, vbool(c == "T"))]


def _bio_is_false(eng, st, frame, args, finfo, t):
    c = _bio_cls(eng, st, args[0])
    if c is None:
        return NotImplemented
    return [(st, vbool(c == "B"))]


BIO_INTRINSICS = {
    "biodivine_lib_bdd::_impl_bdd::_impl_util::<impl biodivine_lib_bdd::Bdd>::is_true": _bio_is_true,
    "biodivine_lib_bdd::_impl_bdd::_impl_util::<impl biodivine_lib_bdd::Bdd>::is_false": _bio_is_false,
}


def ref_to(st, v):
    return ("ref", st.new_cell(v), ())


def run_table(eng, body, arg_makers, domain_lists):
    """Enumerate the cartesian product of `domain_lists`; arg_makers[i](st, element) builds argument i.
    Returns {tuple(elements): [Path,...]}"""
    table = {}
    for combo in itertools.product(*domain_lists):
        st = symx.State()
        args = [mk(st, x) for mk, x in zip(arg_makers, combo)]
        table[combo] = eng.summarise(body, args, st)
    return table


def single_bool(paths):
    """the unique boolean result of a set of paths, or a description of why not"""
    rets = set()
    for p in paths:
        if p.end != "return":
            return None, "path ends with %s" % p.end
        rets.add(p.ret)
    if len(rets) == 1:
        r = rets.pop()
        if r[0] == "bool":
            return r[1], None
        return None, "symbolic result %s" % show(r)
    return None, "results differ: %s" % sorted(show(r) for r in rets)


def by_ref(st, x):
    return ref_to(st, x)


def by_val(st, x):
    return x


# ------------------------------------------------------------------ S.T-term
S_T_TERM_TEXT = (
    "S.T-term: behaviour tables over the term-class domain {BOT(0), TOP(1), U(>=2)} of the predicates the "
    "three-valued semantics is read through equal the specification: is_truth_value = {B,T}; is_true = {T}; "
    "compare_inf / cmp_information = class equality; From<bool>: true->TOP,false->BOT; "
    "From<&biodivine::Bdd>: valid->TOP, unsat->BOT, else undecided.")


def S_T_term(ctx, lib, which=None):
    """which: optional subset of function keys to check (attribution)."""
    rule = "S.T-term"
    ctx.rule(rule, S_T_TERM_TEXT)
    eng = ctx.engine([lib], intrinsics=BIO_INTRINSICS)
    n = 0

    def want(k):
        return which is None or k in which

    def table1(key, suffix, spec, maker=by_ref, dom=CLASSES, mkdom=term):
        nonlocal n
        try:
            b = lib.one(suffix)
        except LookupError as e:
            ctx.lost(rule, key, str(e))
            return
        n += 1
        tab = run_table(eng, b, [lambda st, c: maker(st, mkdom(c))], [dom])
        for (c,), paths in tab.items():
            r, why = single_bool(paths)
            ctx.ob(rule, "%s[%s]" % (key, c), r is not None and r == spec(c), where=b.where(),
                   expected="%s(%s) = %s" % (key, c, spec(c)), found=r if r is not None else why)

    def table2(key, suffix, spec, mk2=term, m2=by_ref):
        nonlocal n
        try:
            b = lib.one(suffix)
        except LookupError as e:
            ctx.lost(rule, key, str(e))
            return
        n += 1
        tab = run_table(eng, b, [lambda st, c: by_ref(st, term(c)) if mk2 is term or True else None,
                                 lambda st, c: m2(st, mk2(c))], [CLASSES, CLASSES])
        for (c1, c2), paths in tab.items():
            r, why = single_bool(paths)
            ctx.ob(rule, "%s[%s,%s]" % (key, c1, c2), r is not None and r == spec(c1, c2), where=b.where(),
                   expected="%s(%s,%s) = %s" % (key, c1, c2, spec(c1, c2)), found=r if r is not None else why)

    if want("is_truth_value"):
        table1("Term::is_truth_value", "datatypes::bdd::Term::is_truth_value", lambda c: c in "BT")
    if want("is_true"):
        table1("Term::is_true", "datatypes::bdd::Term::is_true", lambda c: c == "T")
    if want("compare_inf"):
        table2("Term::compare_inf", "datatypes::bdd::Term::compare_inf", lambda a, b: a == b)
    if want("no_inf_inconsistency"):
        # a.no_inf_inconsistency(b): b carries the same information as a, or a is undecided (b may only add information to a)
        table2("Term::no_inf_inconsistency", "datatypes::bdd::Term::no_inf_inconsistency", lambda a, b: a == b or a == "U")
    if want("cmp_information"):
        table2("Term::cmp_information", "datatypes::bdd::Term::cmp_information", lambda a, b: a == b, mk2=bio)
    if want("bio_is_truth_value"):
        table1("AdfOperations::is_truth_value", "as adfbiodivine::AdfOperations>::is_truth_value",
               lambda c: c in "BT", mkdom=bio)
    if want("bio_cmp_information"):
        try:
            b = lib.one("as adfbiodivine::AdfOperations>::cmp_information")
            n += 1
            tab = run_table(eng, b, [lambda st, c: by_ref(st, bio(c)), lambda st, c: by_ref(st, bio(c))],
                            [CLASSES, CLASSES])
            for (c1, c2), paths in tab.items():
                r, why = single_bool(paths)
                ctx.ob(rule, "AdfOperations::cmp_information[%s,%s]" % (c1, c2), r is not None and r == (c1 == c2),
                       where=b.where(), expected=(c1 == c2), found=r if r is not None else why)
        except LookupError as e:
            ctx.lost(rule, "AdfOperations::cmp_information", str(e))
    if want("from_bool"):
        try:
            b = lib.one("Term as std::convert::From<bool>>::from")
            n += 1
            for bv, cls in ((True, "T"), (False, "B")):
                paths = eng.summarise(b, [vbool(bv)])
                got = set(cls_of_term(p.ret) if p.end == "return" else p.end for p in paths)
                ctx.ob(rule, "From<bool>[%s]" % bv, got == {cls}, where=b.where(), expected=cls, found=sorted(map(str, got)))
        except LookupError as e:
            ctx.lost(rule, "From<bool> for Term", str(e))
    if want("from_bio"):
        try:
            b = lib.one("Term as std::convert::From<&biodivine_lib_bdd::Bdd>>::from")
            n += 1
            for c in CLASSES:
                st = symx.State()
                paths = eng.summarise(b, [by_ref(st, bio(c))], st)
                got = set(cls_of_term(p.ret) if p.end == "return" else p.end for p in paths)
                # undecided must map to a handle of class U
                ctx.ob(rule, "From<&Bdd>[%s]" % c, got == {c}, where=b.where(), expected=c, found=sorted(map(str, got)))
        except LookupError as e:
            ctx.lost(rule, "From<&Bdd> for Term", str(e))
    return n


# ------------------------------------------------------------------ biodivine variable naming scheme
def bio_naming(lib):
    """how adfbiodivine::Adf::from_parser names the biodivine variables.
    returns ('index', F_path) for (0..namelist.len()).map(F) ; ('label', None) for the statement labels ; (None, description)"""
    from mirlib.pat import ANY, ADT, C, CLOS, F as PF, K, P, V, match
    b = lib.one("adfbiodivine::Adf::from_parser")
    calls, d = flow.all_call_exprs(b)
    mv = [e for bb, t, ci, e in calls if e[0] == "call" and flow.last(e[2]) == "make_variables"]
    if len(mv) != 1:
        return None, "%d make_variables calls" % len(mv)
    arg = mv[0][3][1]
    m = match(arg, C("collect", C("map", C("iter", C("collect", C("map", ADT("Range", start=K(0), end=C("len", V("nl"))), V("f")))), ANY)))
    if m is not None and m["f"][0] == "fnitem" and flow.find(m["nl"], lambda n_: n_[0] == "call" and flow.last(n_[2]) == "namelist"):
        return "index", m["f"][1]
    labels = [n_ for n_ in flow.find(arg, lambda n_: n_[0] == "call" and flow.last(n_[2]) in ("namelist", "names"))]
    under_len = flow.find(arg, lambda n_: n_[0] == "call" and flow.last(n_[2]) == "len" and flow.find(n_, lambda m_: m_[0] == "call" and flow.last(m_[2]) in ("namelist", "names")))
    if labels and not under_len:
        return "label", None
    return None, flow.show(arg)[:200]


def position_name_pats(lib, idx_pat):
    """patterns (list) matching the String that names the biodivine variable of position idx_pat under the tree's naming scheme"""
    from mirlib.pat import ANY, ADT, C, F as PF
    scheme, info = bio_naming(lib)
    if scheme == "index":
        fn_last = info.split("::")[-1]
        return [C("Adf::" + fn_last, idx_pat)], scheme, info
    if scheme == "label":
        return [C("expect", C("VarContainer::name", PF(ANY, "ordering"), ADT("Var", _0=idx_pat)), ANY)], scheme, info
    return [], scheme, info


def source_literal(loc):
    """first string literal inside the source range loc = [file, l1, c1, l2, c2] (relative to the repository root)"""
    import os
    import re
    path = os.path.join(_REPO, loc[0])
    try:
        lines = open(path).read().split("\n")
    except OSError:
        return None
    l1, c1, l2, c2 = loc[1], loc[2], loc[3], loc[4]
    if l1 == l2:
        text = lines[l1 - 1][c1 - 1:c2 - 1]
    else:
        text = "\n".join([lines[l1 - 1][c1 - 1:]] + lines[l1:l2 - 1] + [lines[l2 - 1][:c2 - 1]])
    m = re.search(r'"((?:[^"\\\\]|\\\\.)*)"', text)
    return m.group(1) if m else None


def strip_placeholders(lit):
    import re
    return re.sub(r"\{[^{}]*\}", "", lit.replace("{{", "").replace("}}", ""))


