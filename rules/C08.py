"""C08 - parser."""
from mirlib import facts, flow, ir, symx
from mirlib.pat import ANY, ADT, C, CLOS, F, IDX, K, OP, P, TUP, V, match
from rules import kernel, shared
from rules.kernel import deep_strip, strip, is_call, effects_named, unloop, int_of

EXPLANATION = """
Decided: the grammar skeleton is recovered from the type-checked nom combinator constructions (expression reconstruction
over MIR) and compared with the documented grammar D.8: C08.G-top (parse = all_consuming(many1(alt(statement-fact,
ac-fact))), every fact terminated by '.' then optional whitespace), C08.G-bracket (every '(' is paired with ')' in the
same sequence; ac and the binary connectives take exactly two comma-separated arguments with optional whitespace around
the comma, neg/s/c one), C08.A-ops (keyword -> Formula variant with operands in source order; c(v)->Top, c(f)->Bot;
composed with C09.A-term and C07.T-conn this is the documented meaning), C08.G-alt (atomic alternative last, no `cut`:
labels that look like keywords fall through), C08.F-label (labels reach namelist/dict/Atom/formulaname verbatim; a new
statement gets the next free position and dict maps it to that position), S.P-parse (every call of the parse closure in
CLI and server sends its Err outcome to a panic resp. an error value, never to a semantics call or a print),
C08.P-panic (census of panic sites reachable from parse), C08.A-alphabet (producer/consumer contract between the label
alphabet of the grammar and the variable-name precondition of biodivine), C08.F-input (the text handed to the parser is the submitted text, unmodified),
C09.A-term and C07.T-conn (what each Formula variant is compiled to, natively
and for biodivine, with operand order: the meaning of the keywords is observable only through this composition)."""
NOT_DECIDED = "Language inclusion 'every documented input is accepted' in general: nom's combinator semantics are trusted and whitespace placement beyond the listed skeleton is not modelled."
TECHNIQUE = "static analysis: grammar extraction from resolved combinator calls (MIR expression reconstruction) compared with the specified grammar; CFG reachability from Err edges; provenance of labels"


def configs(tier):
    return facts.LIB_ALL if tier == "thorough" else [facts.Config("lib")]


# ------------------------------------------------------------------ grammar extraction
def G(e):
    """flow expression of a nom parser value -> grammar tree"""
    e0 = e
    if e[0] == "fnitem":
        n = flow.sg(e[1])
        if n.endswith("multispace0"):
            return ("ws",)
        if n.endswith("alphanumeric1"):
            return ("alnum",)
        if "AdfParser::" in n:
            return ("ref", n.split("::")[-1])
        return ("fn", n)
    if e[0] == "call":
        n = flow.sg(e[2])
        ln = flow.last(e[2])
        a = e[3]
        if "{closure" in e[1] and len(a) >= 1 and a[0][0] == "call":
            # invoking the combinator closure on the input
            return G(a[0])
        if n.startswith("nom::"):
            if ln == "tag":
                return ("tag", flow.const_val(a[0]))
            if ln == "take_until":
                return ("until", flow.const_val(a[0]))
            if ln == "preceded":
                return ("seq", (("skip", G(a[0])), ("keep", G(a[1]))))
            if ln == "terminated":
                return ("seq", (("keep", G(a[0])), ("skip", G(a[1]))))
            if ln == "delimited":
                return ("seq", (("skip", G(a[0])), ("keep", G(a[1])), ("skip", G(a[2]))))
            if ln == "separated_pair":
                return ("seq", (("keep", G(a[0])), ("skip", G(a[1])), ("keep", G(a[2]))))
            if ln == "alt":
                t = a[0]
                items = t[1] if t[0] == "tuple" else (t,)
                return ("alt", tuple(G(x) for x in items))
            if ln in ("many1", "many0", "all_consuming", "cut", "opt", "complete", "peek", "recognize"):
                return (ln, G(a[0]))
            if ln == "value":
                return ("value", G(a[1]), a[0])       # nom::combinator::value(val, parser): the parser's result is replaced by val
            if ln == "map":
                return ("map", G(a[0]), a[1])         # nom::combinator::map(parser, f): f applied to the parser's result (the rest of the input is kept by nom)
            return ("nom?", ln)
        if ln == "map" and "Result" in e[1]:
            return ("rmap", G(a[0]), a[1])
        if "AdfParser::" in flow.sg(e[1]):
            # a method returning a parser closure (parse_statement(self)) or a direct call
            return ("ref", flow.sg(e[1]).split("::")[-1])
    if e[0] == "closure":
        return ("closure", e[1])
    return ("?", flow.show(e0)[:80])


def linear(g):
    """flatten nested sequences: list of (keep?, atom)"""
    if g[0] == "seq":
        out = []
        for k, x in g[1]:
            for kk, y in linear(x):
                out.append((kk and k == "keep", y))
        return out
    return [(True, g)]


def lin_str(seq):
    return " ".join(("" if k else "~") + atom_str(a) for k, a in seq)


def atom_str(a):
    if a[0] == "tag":
        return repr(a[1])
    if a[0] == "ref":
        return "<%s>" % a[1]
    if a[0] in ("ws", "alnum"):
        return a[0]
    if a[0] == "until":
        return "until(%r)" % a[1]
    if a[0] == "alt":
        return "(" + " | ".join(lin_str(linear(x)) for x in a[1]) + ")"
    return str(a)


def fn_grammar(lib, name):
    b = lib.one("parser::AdfParser::" + name)
    d = flow.Defs(b)
    return b, d.expr_local(0)


WS_COMMA = [(False, ("ws",)), (False, ("tag", ",")), (False, ("ws",))]

EXPECTED = {
    "statement": [(False, ("tag", "s")), (False, ("tag", "(")), (True, ("ref", "atomic")), (False, ("tag", ")"))],
    "ac": [(False, ("tag", "ac")), (False, ("tag", "(")), (True, ("ref", "atomic"))] + WS_COMMA + [(True, ("ref", "formula")), (False, ("tag", ")"))],
    "formula_pair": [(False, ("tag", "(")), (True, ("ref", "formula"))] + WS_COMMA + [(True, ("ref", "formula")), (False, ("tag", ")"))],
}
KEYWORDS = {"and": "And", "or": "Or", "imp": "Imp", "xor": "Xor", "iff": "Iff"}


def grammar_rules(ctx, lib):
    rg, rb, ra, ro = "C08.G-top", "C08.G-bracket", "C08.G-alt", "C08.A-ops"
    ctx.rule(rg, "parse = value((), all_consuming(many1(alt((parse_statement, parse_ac))))); each fact = terminated(fact, terminated(tag('.'), multispace0))")
    ctx.rule(rb, "bracket pairing and arities per parser function (linearised combinator sequences equal the documented ones; ~ marks discarded parts): "
                 + "; ".join("%s: %s" % (k, lin_str(v)) for k, v in EXPECTED.items())
                 + "; unary: ~'neg' ~'(' <formula> ~')'; binary: ~kw <formula_pair>; constant: ~'c' ~'(' 'v'|'f' ~')'; atomic: ~'\"' until('\"') ~'\"' | alnum")
    ctx.rule(ra, "formula = alt(constant, binary_op, unary_op, atomic_term) with the atomic alternative last; binary_op = alt over the five connectives; no `cut` anywhere")
    ctx.rule(ro, "keyword -> Formula variant with operands in order: and->And, or->Or, imp->Imp, xor->Xor, iff->Iff (Box(first), Box(second)); neg->Not; c(v)->Top, c(f)->Bot; atomic_term->Atom(label)")
    # ---- top
    try:
        b = lib.one("parser::AdfParser::parse")
        cl = lib.closures_of(b)
        ok = len(cl) == 1
        g = None
        if ok:
            g = G(flow.closure_ret(lib, cl[0]))
            g2 = g[:2] if g and g[0] == "value" else g     # (the value itself - () - is not part of the grammar)
            ok = g2 == ("value", ("all_consuming", ("many1", ("alt", (("ref", "parse_statement"), ("ref", "parse_ac"))))))
            if not ok and g2 == ("value", ("all_consuming", ("many1", ("alt", (("ref", "parse_ac"), ("ref", "parse_statement")))))):
                ok = True
            # applied to the closure's own input
            cr = flow.closure_ret(lib, cl[0])
            ok = ok and cr[0] == "call" and cr[3][-1] == ("tuple", (("param", 2),))
        ctx.ob(rg, "parse", ok, where=b.where(), expected="value((), all_consuming(many1(alt((statement-fact, ac-fact)))))(input)", found=str(g)[:300])
    except LookupError as e:
        ctx.lost(rg, "parse", str(e))
    for name, inner in (("parse_statement", "statement"), ("parse_ac", "ac")):
        try:
            b = lib.one("parser::AdfParser::" + name)
            cl = lib.closures_of(b)
            found = None
            ok = False
            for c in cl:
                calls, d = flow.all_call_exprs(c)
                for bb, t, ci, e in calls:
                    if e[0] == "call" and "{closure" in e[1] and e[3] and e[3][0][0] == "call" and flow.last(e[3][0][2]) == "terminated":
                        g = G(e)
                        found = g
                        ok = linear(g) == [(True, ("ref", inner)), (False, ("tag", ".")), (False, ("ws",))] and e[3][-1] == ("tuple", (("param", 2),))
            ctx.ob(rg, name + ".fact", ok, where=b.where(), expected="<%s> ~'.' ~ws applied to the input" % inner, found=lin_str(linear(found)) if found else None)
        except LookupError as e:
            ctx.lost(rg, name, str(e))
    # ---- brackets / arities
    grams = {}
    for name in ("statement", "ac", "formula_pair", "unary_op", "constant", "atomic", "formula", "binary_op", "atomic_term", "and", "or", "imp", "xor", "iff"):
        try:
            b, e = fn_grammar(lib, name)
            grams[name] = (b, G(e), e)
        except LookupError as ex:
            ctx.lost(rb, name, str(ex))
    for name, want in EXPECTED.items():
        if name in grams:
            b, g, e = grams[name]
            ctx.ob(rb, name, linear(g) == want and applied_to_input(e), where=b.where(), expected=lin_str(want), found=lin_str(linear(g)))
    if "unary_op" in grams:
        b, g, e = grams["unary_op"]
        ok = g[0] in ("rmap", "map") and linear(g[1]) == [(False, ("tag", "neg")), (False, ("tag", "(")), (True, ("ref", "formula")), (False, ("tag", ")"))]
        ctx.ob(rb, "unary_op", ok and (g[0] == "rmap" or applied_to_input(e)), where=b.where(), expected="~'neg' ~'(' <formula> ~')'", found=lin_str(linear(g[1])) if g[0] in ("rmap", "map") else str(g)[:200])
        if ok and g[0] == "map":
            # nom's map: the closure receives the parsed sub-formula only
            okn = False
            if g[2][0] == "closure":
                cr = flow.closure_ret(lib, lib.body(g[2][1]))
                okn = match(cr, ADT("Not", _0=C("Box::new", P(2)))) is not None
            ctx.ob(ro, "neg->Not", okn, where=b.where(), expected="map(.., |f| Formula::Not(Box::new(f)))", found=flow.show(g[2])[:160])
        elif ok:
            cr = flow.closure_ret(lib, lib.body(g[2][1]))
            ctx.ob(ro, "neg->Not", match(cr, TUP(F(P(2), "0"), ADT("Not", _0=C("Box::new", F(P(2), "1"))))) is not None, where=b.where(), expected="(rest, Formula::Not(Box::new(result)))", found=flow.show(cr)[:160])
    for kw, variant in KEYWORDS.items():
        if kw not in grams:
            continue
        b, g, e = grams[kw]
        cf = closure_form(lib, e) if g[0] != "rmap" else None
        if cf is not None:
            # a shared helper that *returns* the parser closure, `binary_connective(kw, Formula::V)(input)` (inlined by mirlib/inline.py): the closure is read with its
            # captures - the keyword and the variant constructor - substituted
            g1, applied, value = cf
            ok = g1 is not None and linear(g1) == [(False, ("tag", kw)), (True, ("ref", "formula_pair"))] and applied
            ctx.ob(rb, kw, ok, where=b.where(), expected="~'%s' <formula_pair>" % kw, found=lin_str(linear(g1)) if g1 else None)
            ctx.ob(ro, "%s->%s" % (kw, variant), value == (variant, ["0", "1"]), where=b.where(), expected="Formula::%s(Box::new(first), Box::new(second))" % variant, found=str(value))
            continue
        tf = try_form(b, e) if g[0] != "rmap" else None
        if tf is not None:
            # `let (rest, (l, r)) = preceded(tag(kw), formula_pair)(input)?; Ok((rest, Formula::V(Box::new(l), Box::new(r))))` - also after a shared helper that takes the
            # keyword and the variant constructor as arguments was inlined (mirlib/inline.py): the constants reach the tag and the constructor call
            g1, rest_ok, value = tf
            ok = linear(g1) == [(False, ("tag", kw)), (True, ("ref", "formula_pair"))] and rest_ok
            ctx.ob(rb, kw, ok, where=b.where(), expected="~'%s' <formula_pair>" % kw, found=lin_str(linear(g1)))
            okv = False
            if value is not None:
                ctor, args = value
                okv = ctor == variant and args == ["0", "1"]
            ctx.ob(ro, "%s->%s" % (kw, variant), okv, where=b.where(), expected="Formula::%s(Box::new(first), Box::new(second))" % variant, found=str(value))
            continue
        ok = g[0] == "rmap" and linear(g[1]) == [(False, ("tag", kw)), (True, ("ref", "formula_pair"))]
        ctx.ob(rb, kw, ok, where=b.where(), expected="~'%s' <formula_pair>" % kw, found=lin_str(linear(g[1])) if g[0] == "rmap" else str(g)[:200])
        if g[0] == "rmap" and g[2][0] == "closure":
            cr = flow.closure_ret(lib, lib.body(g[2][1]))
            okv = match(cr, TUP(F(P(2), "0"), ADT(variant, _0=C("Box::new", F(F(P(2), "1"), "0")), _1=C("Box::new", F(F(P(2), "1"), "1"))))) is not None
            ctx.ob(ro, "%s->%s" % (kw, variant), okv, where=b.where(), expected="Formula::%s(Box::new(first), Box::new(second))" % variant, found=flow.show(cr)[:200])
        else:
            ctx.cannot(ro, "%s->%s" % (kw, variant), "Result::map(.., closure building the variant)", b.where(), str(g)[:160])
    if "constant" in grams:
        b, g, e = grams["constant"]
        if g[0] == "alt" and len(g[1]) == 2 and all(x[0] == "value" for x in g[1]):
            # alt((value(Formula::Top, c(v)), value(Formula::Bot, c(f)))): every alternative yields its own constant
            got = {}
            for x in g[1]:
                lin = linear(x[1])
                shape = len(lin) == 4 and lin[0] == (False, ("tag", "c")) and lin[1] == (False, ("tag", "(")) and lin[3] == (False, ("tag", ")")) and lin[2][1][0] == "tag"
                val = x[2]
                vn = val[2] if val[0] == "adt" and "Formula" in val[1] else flow.show(val)[:40]
                got[lin[2][1][1] if shape else "?"] = vn
            ctx.ob(rb, "constant", set(got) == {"v", "f"} and applied_to_input(e), where=b.where(), expected="~'c' ~'(' 'v' ~')' | ~'c' ~'(' 'f' ~')'", found=str(got))
            ctx.ob(ro, "c(v)->Top,c(f)->Bot", got == {"v": "Top", "f": "Bot"}, where=b.where(), expected="'v' -> Formula::Top, 'f' -> Formula::Bot", found=str(got))
            g = ("handled",)
        ok = g[0] == "rmap" and g[1][0] == "alt" and len(g[1][1]) == 2
        alts = []
        if ok:
            alts = [linear(x) for x in g[1][1]]
            want_v = [(False, ("tag", "c")), (False, ("tag", "(")), (True, ("tag", "v")), (False, ("tag", ")"))]
            want_f = [(False, ("tag", "c")), (False, ("tag", "(")), (True, ("tag", "f")), (False, ("tag", ")"))]
            ok = sorted(alts, key=str) == sorted([want_v, want_f], key=str)
        if g[0] != "handled":
            ctx.ob(rb, "constant", ok, where=b.where(), expected="~'c' ~'(' 'v' ~')' | ~'c' ~'(' 'f' ~')'", found=[lin_str(a) for a in alts] or str(g)[:200])
        if g[0] == "rmap" and g[2][0] == "closure":
            cb = lib.body(g[2][1])
            eng = ctx.engine([lib])
            res = {}
            for lit in ("v", "f"):
                st = symx.State()
                env = eng.closure_env(st, cb, [])

                def hook(eng_, st_, frame, path, target, args, t, lit=lit):
                    # <str as PartialEq>::eq on the matched literal
                    if flow.last(target) in ("eq",) and ("str" in target or "PartialEq" in path):
                        a0 = strip(symx.deref_val(eng_, st_, args[0])) if args[0][0] == "ref" else strip(args[0])
                        a1 = strip(symx.deref_val(eng_, st_, args[1])) if args[1][0] == "ref" else strip(args[1])
                        for _ in range(2):
                            if a0[0] == "ref":
                                a0 = strip(symx.deref_val(eng_, st_, a0))
                            if a1[0] == "ref":
                                a1 = strip(symx.deref_val(eng_, st_, a1))
                        vals = [x[1] if x[0] == "str" else None for x in (a0, a1)]
                        if vals[0] is not None and vals[1] is not None:
                            return [(st_, symx.vbool(vals[0] == vals[1]))]
                    return NotImplemented
                eng.call_hook = hook
                item = ("tuple", (("sym", "rest"), ("str", lit)))
                paths = eng.summarise(cb, [env, item], st)
                eng.call_hook = None
                outs = set()
                for p in paths:
                    if p.end == "return":
                        r = deep_strip(p.ret)
                        outs.add(r[1][1][2] if r[0] == "tuple" and r[1][1][0] == "adt" else symx.show(r)[:60])
                    elif p.end == "diverge":
                        outs.add("panic")
                res[lit] = outs
            ctx.ob(ro, "c(v)->Top,c(f)->Bot", res == {"v": {"Top"}, "f": {"Bot"}}, where=cb.where(), expected="'v' -> Formula::Top, 'f' -> Formula::Bot", found=str(res))
    if "atomic" in grams:
        b, g, e = grams["atomic"]
        ok = g[0] == "alt" and len(g[1]) == 2
        alts = [linear(x) for x in g[1]] if ok else []
        want_q = [(False, ("tag", '"')), (True, ("until", '"')), (False, ("tag", '"'))]
        ok = ok and alts[0] == want_q and alts[1] == [(True, ("alnum",))]
        ctx.ob(rb, "atomic", ok and applied_to_input(e), where=b.where(), expected="~'\"' until('\"') ~'\"' | alnum", found=[lin_str(a) for a in alts] or str(g)[:200])
    if "atomic_term" in grams:
        b, g, e = grams["atomic_term"]
        if g[0] == "map" and g[1] == ("ref", "atomic"):
            # map(atomic, Formula::Atom): the variant constructor applied to the label
            f_ = g[2]
            okm = (f_[0] == "fnitem" and flow.sg(f_[1]).endswith("parser::Formula::Atom")) and applied_to_input(e)
            if f_[0] == "closure":
                okm = match(flow.closure_ret(lib, lib.body(f_[1])), ADT("Atom", _0=P(2))) is not None and applied_to_input(e)
            ctx.ob(ro, "atomic_term->Atom", okm, where=b.where(), expected="map(atomic, Formula::Atom)(input)", found=str(g)[:200])
            g = ("handled",)
        ok = g[0] == "rmap" and g[1] == ("ref", "atomic")
        if ok:
            cr = flow.closure_ret(lib, lib.body(g[2][1]))
            ok = match(cr, TUP(F(P(2), "0"), ADT("Atom", _0=F(P(2), "1")))) is not None
        if g[0] != "handled":
            ctx.ob(ro, "atomic_term->Atom", ok, where=b.where(), expected="atomic(input).map(|(rest, label)| (rest, Formula::Atom(label)))", found=str(g)[:200])
    # ---- alternatives
    if "formula" in grams:
        b, g, e = grams["formula"]
        ok = g[0] == "alt" and set(g[1]) == {("ref", "constant"), ("ref", "binary_op"), ("ref", "unary_op"), ("ref", "atomic_term")} and g[1][-1] == ("ref", "atomic_term") and len(g[1]) == 4
        ctx.ob(ra, "formula", ok and applied_to_input(e), where=b.where(), expected="alt((constant, binary_op, unary_op, atomic_term)), atomic last", found=str(g)[:300])
    if "binary_op" in grams:
        b, g, e = grams["binary_op"]
        ok = g[0] == "alt" and set(g[1]) == {("ref", k) for k in KEYWORDS} and len(g[1]) == 5
        ctx.ob(ra, "binary_op", ok and applied_to_input(e), where=b.where(), expected="alt((and, or, imp, xor, iff))", found=str(g)[:300])
    cuts = []
    for bd in lib.all_bodies:
        if (bd.file or "").endswith("parser.rs"):
            for bb, t, ci in bd.calls():
                p = flow.sg(ir.callee_path(ci) or "")
                if p.startswith("nom::") and flow.last(p) in ("cut", "fail"):
                    cuts.append(bd.where(t.get("loc")))
    ctx.ob(ra, "no-cut", not cuts, expected="no cut/fail combinator in the parser", found=cuts)


def closure_form(lib, e):
    """e = <local closure with captures>(input) where the closure body is `P(input).map(|(rest, (l, r))| (rest, V(Box::new(l), Box::new(r))))`
    -> (grammar of P, P is applied to the closure's own input, (variant, [boxed payload components in order])) or None"""
    if not (e[0] == "call" and e[3] and e[3][0][0] == "closure" and len(e[3]) == 2 and e[3][1] == ("tuple", (("param", 1),))):
        return None
    clo = e[3][0]
    cb = lib.body(clo[1])
    if cb is None:
        return None
    cr = flow.subst_upvars(flow.closure_ret(lib, cb), list(clo[2]))
    g = G(cr)
    if g[0] != "rmap" or g[2][0] != "closure":
        return None
    applied = cr[0] == "call" and cr[3] and cr[3][0][0] == "call" and cr[3][0][3] and cr[3][0][3][-1] == ("tuple", (("param", 2),))
    inner = g[2]
    icb = lib.body(inner[1])
    if icb is None:
        return g[1], applied, None
    icaps = [flow.subst_upvars(c_, list(clo[2])) for c_ in inner[2]]
    icr = flow.subst_upvars(flow.closure_ret(lib, icb), icaps)
    value = None
    if icr[0] == "tuple" and len(icr[1]) == 2 and icr[1][0] == ("field", ("param", 2), "0"):
        v = icr[1][1]
        comps = name = None
        if v[0] == "adt" and "Formula" in v[1]:
            name, comps = v[2], [x_ for _, x_ in sorted(v[3])]
        elif v[0] == "call" and v[3] and v[3][0][0] == "fnitem" and "parser::Formula::" in v[3][0][1] and v[1] == "<indirect>":
            name, comps = v[3][0][1].split("::")[-1], list(v[3][1:])
        elif v[0] == "call" and "parser::Formula::" in flow.sg(v[1]):
            name, comps = flow.sg(v[1]).split("::")[-1], list(v[3])
        if comps is not None:
            args = []
            for c_ in comps:
                if c_[0] == "call" and flow.last(c_[2]) == "new" and "Box" in c_[1] and c_[3] and c_[3][0][0] == "field" and c_[3][0][1] == ("field", ("param", 2), "1"):
                    args.append(c_[3][0][2])
                else:
                    args.append("?")
            value = (name, args)
    return g[1], applied, value


def try_form(b, e):
    """`let (rest, (l, r)) = P(input)?; Ok((rest, V(Box::new(l), Box::new(r))))`  ->  (grammar of P, rest is P's remaining input, (variant name, [payload components boxed
    in order])) or None.  The variant is built by the aggregate itself or by a call of the variant's constructor function (also through a fn value)."""
    x = flow.expand_phi(flow.Defs(b), e)
    if x[0] != "alts" or len(x[1]) != 2:
        return None
    oks = [a for a in x[1] if a[0] == "adt" and a[1].endswith("result::Result") and a[2] == "Ok"]
    res = [a for a in x[1] if a[0] == "call" and flow.last(a[2]) == "from_residual"]
    if len(oks) != 1 or len(res) != 1:
        return None
    br = flow.find(res[0], lambda n_: n_[0] == "call" and flow.last(n_[2]) == "branch")
    if len(br) < 1:
        return None
    branch = br[0]
    payload = ("field", ("downcast", branch, "Continue"), "0")
    tup = dict(oks[0][3]).get("0")
    if tup is None or tup[0] != "tuple" or len(tup[1]) != 2:
        return None
    rest_ok = tup[1][0] == ("field", payload, "0")
    v = tup[1][1]
    value = None
    comps = None
    if v[0] == "adt" and "Formula" in v[1]:
        name, comps = v[2], [x_ for _, x_ in sorted(v[3])]
    elif v[0] == "call" and v[3] and v[3][0][0] == "fnitem" and "parser::Formula::" in v[3][0][1] and v[1] == "<indirect>":
        name, comps = v[3][0][1].split("::")[-1], list(v[3][1:])
    elif v[0] == "call" and "parser::Formula::" in flow.sg(v[1]):
        name, comps = flow.sg(v[1]).split("::")[-1], list(v[3])
    if comps is not None:
        args = []
        for c_ in comps:
            if c_[0] == "call" and flow.last(c_[2]) == "new" and "Box" in c_[1] and c_[3] and c_[3][0][0] == "field" and c_[3][0][1] == ("field", payload, "1"):
                args.append(c_[3][0][2])
            else:
                args.append("?")
        value = (name, args)
    inner = branch[3][0] if branch[3] else None
    if inner is None:
        return None
    return G(inner), rest_ok, value


def applied_to_input(e):
    return e[0] == "call" and e[3] and e[3][-1] == ("tuple", (("param", 1),))


# ------------------------------------------------------------------ labels
def F_label(ctx, lib):
    rule = "C08.F-label"
    ctx.rule(rule, "parse_statement: a label not yet in dict is appended to namelist as String::from(label) and dict maps that same string to its position "
                   "(namelist.len() before the push); a known label changes nothing; parse_ac pushes String::from(name) to formulaname; atomic_term keeps the slice")
    try:
        b = lib.one("parser::AdfParser::parse_statement")
        cl = lib.closures_of(b)
        if len(cl) != 1:
            raise LookupError("one closure")
        cb = cl[0]
        eng = ctx.engine([lib])
        paths = [p for p in eng.summarise(cb) if p.end == "return"]
        seen = set()
        for p in paths:
            r = deep_strip(p.ret)
            if not (r[0] == "adt" and r[2] == "Ok"):
                continue
            ck = [(deep_strip(e), v) for e, v in p.cond if deep_strip(e)[0] == "app" and flow.last(deep_strip(e)[1]) == "contains_key"]
            pushes = effects_named(p, "Vec::push")
            inserts = effects_named(p, "HashMap::insert")
            if len(ck) != 1:
                ctx.cannot(rule, "parse_statement.lookup", "one dict.contains_key(label) test", cb.where(), p.describe()[:200])
                continue
            label = deep_strip(ck[0][0][2][1])
            if int_of(ck[0][1]) == 1:
                seen.add("known")
                ctx.ob(rule, "parse_statement.known-label-unchanged", not pushes and not inserts, where=cb.where(), expected="no change for a known label", found=p.describe()[:200])
            else:
                seen.add("new")
                ok = len(pushes) == 1 and len(inserts) == 1
                why = p.describe()[:300]
                if ok:
                    def owned(x):
                        """(base, n) after stripping owning conversions / copies: String::from, to_owned, to_string, into, clone"""
                        x, n_ = deep_strip(x), 0
                        while x[0] == "app" and flow.last(x[1]) in ("from", "to_string", "to_owned", "into", "clone") and x[2]:
                            x, n_ = deep_strip(x[2][0]), n_ + 1
                        return x, n_
                    pv = deep_strip(pushes[0]["args"][1])
                    pb, pn = owned(pv)
                    ok = pn >= 1 and pb == label
                    lens = [e for e in effects_named(p, "Vec::len") if e["serial"] < pushes[0]["serial"]]
                    k, v = deep_strip(inserts[0]["args"][1]), deep_strip(inserts[0]["args"][2])
                    pos_ok = bool(lens) and v == deep_strip(lens[-1]["result"])
                    kb, kn = owned(k)
                    key_ok = (kb[0] == "index" and deep_strip(kb[2]) == v) or (kn >= 1 and kb == label)
                    ok = ok and pos_ok and key_ok
                    why = "push %s; insert(%s, %s)" % (symx.show(pv)[:80], symx.show(k)[:80], symx.show(v)[:60])
                ctx.ob(rule, "parse_statement.new-label", ok, where=cb.where(), expected="namelist.push(String::from(label)); dict.insert(that string, position = len before push)", found=why)
            # the label is the kept result of the fact parser
            ctx.ob(rule, "parse_statement.label-is-parse-result[%s]" % ("known" if int_of(ck[0][1]) == 1 else "new"),
                   symx.contains(label, lambda n: n[0] == "app" and "{closure" in str(n[1])) or symx.contains(label, lambda n: n[0] == "field" and n[2] == "1"),
                   where=cb.where(), expected="label = second component of the parse result", found=symx.show(label)[:160])
        ctx.ob(rule, "parse_statement.cases", seen == {"known", "new"}, where=cb.where(), expected="known / new label", found=sorted(seen))
    except LookupError as e:
        ctx.lost(rule, "parse_statement", str(e))
    try:
        b = lib.one("parser::AdfParser::parse_ac")
        for c in lib.closures_of(b):
            calls, d = flow.all_call_exprs(c)
            pushes = [e for bb, t, ci, e in calls if e[0] == "call" and flow.last(e[2]) == "push"]
            okn = False
            okf = False
            for e in pushes:
                tgt = flow.show(e[3][0])
                if "formulaname" in tgt:
                    okn = e[3][1][0] == "call" and flow.last(e[3][1][2]) in ("from", "to_string", "to_owned") and e[3][1][3][0][0] == "field" and e[3][1][3][0][2] == "0"
                elif "formulae" in tgt:
                    okf = e[3][1][0] == "field" and e[3][1][2] == "1"
            ctx.ob(rule, "parse_ac.name-and-formula", okn and okf, where=c.where(), expected="formulaname.push(String::from(name)); formulae.push(formula) with (name, formula) the parsed pair", found=[flow.show(e)[:120] for e in pushes])
    except LookupError as e:
        ctx.lost(rule, "parse_ac", str(e))


# ------------------------------------------------------------------ S.P-parse
SEM = ("::grounded", "::complete", "::stable", "::stable_nogood", "::stable_with_prefilter", "::stable_bdd_representation",
       "::stable_count_optimisation_heu_a", "::stable_count_optimisation_heu_b", "::two_val_nogood_channel", "::stable_nogood_channel",
       "::from_parser", "::from_parser_with_stm_rewrite", "::hybrid_step", "::hybrid_step_opt", "::formulacounts", "::varsort_lexi", "::varsort_alphanum")


def P_parse(ctx, crate, rule="S.P-parse", floor=3, key_prefix=""):
    ctx.rule(rule, "every call of the closure returned by AdfParser::parse: the Err outcome flows to a diverging terminator (panic) or to an error value; no path "
                   "from the Err edge reaches a library construction/semantics call or a print")
    n = 0
    for b in crate.all_bodies:
        calls, d = flow.all_call_exprs(b)
        for bb, t, ci, e in calls:
            if not (e[0] == "call" and e[3] and e[3][0][0] == "call" and flow.sg(e[3][0][1]).endswith("parser::AdfParser::parse") and flow.last(e[2]) in ("call", "call_mut", "call_once")):
                continue
            n += 1
            key = "%s%s@%s" % (key_prefix, b.qual, n)
            # find how the result is examined
            dest = t["dest"]["l"]
            # (a) match on the discriminant in this body
            sw = None
            cur = t["t"]
            guard = 0
            while cur is not None and guard < 6:
                blk = b.blocks[cur]
                if blk["term"]["k"] == "switch":
                    sw = cur
                    break
                if blk["term"]["k"] in ("goto", "falseedge"):
                    cur = blk["term"]["t"]
                    guard += 1
                    continue
                break
            if sw is not None:
                st = b.blocks[sw]["term"]
                ok_t = [x[1] for x in st["targets"] if x[0] == "0"]
                err_t = [x[1] for x in st["targets"] if x[0] == "1"] or [st["otherwise"]]
                sem_blocks = set(b.call_blocks(lambda p, tt: any(flow.sg(p).endswith(s) for s in SEM) or is_print(p, tt)))
                reach = b.reach_avoiding(err_t, set())
                hit = sorted(reach & sem_blocks)
                rets = [x for x in reach if b.blocks[x]["term"]["k"] == "return"]
                ctx.ob(rule, key, not hit and not rets, where=b.where(t.get("loc")), expected="Err edge only reaches a panic",
                       found="Err edge reaches %s" % ([b.where(b.blocks[x]["term"].get("loc")) for x in hit[:3]] or "a normal return"))
            else:
                # (b) server: map_err into an error value which is returned as Result; the Ok side is consumed by Result::map
                uses = []
                for bb2, t2, ci2, e2 in calls:
                    if e2[0] == "call" and e2[3] and flow.find(e2[3][0], lambda n_: n_ == e) and e2 != e:
                        uses.append(flow.last(e2[2]))
                ok = "map_err" in uses and "map" in uses
                # constructions happen only inside the closure given to Result::map
                sem_here = [flow.fname(ir.callee_path(c2) or "") for _, tt, c2 in b.calls() if any(flow.sg(ir.callee_path(c2) or "").endswith(s) for s in SEM)]
                ctx.ob(rule, key, ok and not sem_here, where=b.where(t.get("loc")), expected="parse(..).map_err(error).map(|_| build) - constructions only under Ok",
                       found="uses %s; constructions outside map: %s" % (uses, sem_here))
    ctx.floor(rule, key_prefix + "parse calls", n, floor)
    return n


IDENTITY_LIKE = ("expect", "unwrap", "deref", "as_str", "borrow", "as_ref", "clone", "to_string", "to_owned", "into", "from", "as_deref", "unwrap_or_default")


def F_input(ctx, crate, kind, floor, rule="C08.F-input"):
    ctx.rule(rule, "the text handed to the parser is the text that was submitted: in the CLI the argument of every parse call is the result of fs::read_to_string(<input path>) "
                   "through identity-like calls only (expect/unwrap/deref/as_str/clone ...); in the web service it is the `code` field of the request payload; no "
                   "transformation (whitespace stripping, case folding, replace, trim ...) sits in between - labels and layout reach the grammar verbatim")
    n = 0
    for b in crate.all_bodies:
        calls, d = flow.all_call_exprs(b)
        for bb, t, ci, e in calls:
            if not (e[0] == "call" and e[3] and e[3][0][0] == "call" and flow.sg(e[3][0][1]).endswith("parser::AdfParser::parse") and flow.last(e[2]) in ("call", "call_mut", "call_once")):
                continue
            n += 1
            arg = e[3][1]
            while arg[0] == "tuple" and len(arg[1]) == 1:
                arg = arg[1][0]
            x = flow.expand_phi(d, arg)
            foreign = []
            src = []

            def walk(y):
                if y[0] == "call":
                    nm = flow.last(y[2])
                    if flow.sg(y[1]).endswith("fs::read_to_string") or flow.sg(y[1]).endswith("io::read_to_string"):
                        src.append("read_to_string")
                        return
                    if nm not in IDENTITY_LIKE:
                        foreign.append(flow.fname(y[1]))
                    for a in y[3][:1]:
                        walk(a)
                elif y[0] in ("tuple",):
                    for a in y[1]:
                        walk(a)
                elif y[0] in ("ref", "deref", "field", "downcast") and len(y) > 1 and isinstance(y[1], tuple):
                    if y[0] == "field" and y[2] == "code":
                        src.append("field code")
                    walk(y[1])
                elif y[0] == "upvar":
                    src.append(flow.show(y))
                elif y[0] == "alts":
                    for a in y[1]:
                        walk(a)
            walk(x)
            if kind == "bin":
                ok = not foreign and src == ["read_to_string"]
            else:
                ok = not foreign and bool(src) and all(("code" in s_) for s_ in src)
            ctx.ob(rule, "%s:%s@%d" % (kind, b.qual, n), ok, where=b.where(t.get("loc")), expected="the submitted text, unmodified", found="source %s; calls in between: %s; %s" % (src, foreign, flow.show(x)[:160]))
    ctx.floor(rule, kind + " parse calls", n, floor)


def is_print(p, t):
    return flow.sg(p).endswith(("io::_print", "io::stdio::_print"))


# ------------------------------------------------------------------ panic census
PANIC_CENSUS = {
    ("AdfParser::parse_statement", "expect"): "lock poisoning only (RwLock::write of dict / namelist)",
    ("AdfParser::parse_statement", "index"): "namelist[pos] with pos = len before the push just made",
    ("AdfParser::constant", "panic"): "unreachable!(): alt(tag('v'), tag('f')) can only yield 'v' or 'f'",
}


def P_panic(ctx, lib):
    rule = "C08.P-panic"
    ctx.rule(rule, "census of panic-capable sites in the functions reachable from parse (frozen with reasons): " + "; ".join("%s/%s: %s" % (k[0], k[1], v) for k, v in PANIC_CENSUS.items()))
    names = ("parse", "parse_statement", "parse_ac", "statement", "ac", "atomic_term", "formula", "unary_op", "constant", "formula_pair", "and", "or", "imp", "xor", "iff", "binary_op", "atomic")
    found = {}
    for nme in names:
        try:
            b = lib.one("parser::AdfParser::" + nme)
        except LookupError:
            continue
        for bd in [b] + lib.closures_of(b, True):
            for bb, t in bd.terminators():
                if symx.in_log(t.get("exp")):
                    continue
                if any(str(x_).startswith("m:debug_assert") for x_ in (t.get("exp") or [])):
                    continue    # debug_assert!/debug_assert_eq!: compiled out of the shipped (release) binary
                kind = None
                if t["k"] == "call":
                    p = flow.sg(ir.callee_path(ir.callee_of(t)) or "")
                    ln = flow.last(p)
                    if ln in ("expect", "unwrap") and ("Result" in p or "Option" in p):
                        kind = "expect"
                    elif "panicking::" in p or ln in ("panic", "unreachable", "panic_fmt", "begin_panic", "unreachable_display"):
                        kind = "panic"
                    elif ln in ("index", "index_mut") and "ops::Index" in (ir.callee_of(t) or {}).get("path", ""):
                        kind = "index"
                elif t["k"] == "assert" and t.get("msg") == "BoundsCheck":
                    kind = "index"
                if kind:
                    found.setdefault((b.qual, kind), []).append(bd.where(t.get("loc")))
    for key, sites in sorted(found.items()):
        ctx.ob(rule, "%s/%s" % key, key in PANIC_CENSUS, where=sites[0], expected="a reviewed panic site", found="%d site(s): %s" % (len(sites), sites[:3]), kind="unreviewed")
    ctx.floor(rule, "panic-capable site groups", len(found), 2)


# ------------------------------------------------------------------ alphabet contract
def A_alphabet(ctx, lib):
    rule = "C08.A-alphabet"
    ctx.rule(rule, "producer/consumer contract: a label may contain what the grammar's `atomic` accepts (alphanumerics, or anything but '\"' between quotes); every "
                   "string handed to biodivine's BddVariableSetBuilder::make_variables must avoid ! & | ^ = < > ( ) ? : (its documented precondition, a panic otherwise); "
                   "strings derived from labels without filtering violate the contract, strings built from constants and integer formatting satisfy it")
    try:
        b = lib.one("adfbiodivine::Adf::from_parser")
    except LookupError as e:
        ctx.lost(rule, "adfbiodivine::Adf::from_parser", str(e))
        return
    scheme, info = shared.bio_naming(lib)
    key = "Adf::from_parser(bio)/make_variables"
    if scheme == "label":
        ctx.ob(rule, key, False, where=b.where(), expected="variable names within biodivine's alphabet (no ! & | ^ = < > ( ) ? :)",
               found="names are the parser labels unfiltered: a quoted label such as \"a(1)\" is accepted by the parser and panics here")
        return
    if scheme != "index":
        ctx.cannot(rule, key, "provenance of the variable names", b.where(), info)
        return
    fb = lib.body(info)
    if fb is None:
        ctx.lost(rule, key + ".naming-fn", "body of the naming function %s" % info)
        return
    # F(idx: usize) -> String = format!(<literal pieces>, idx): pieces from the source literal, argument type from MIR
    d = flow.Defs(fb)
    ret = d.expr_local(0)
    fm = flow.find(ret, lambda n_: n_[0] == "call" and flow.fname(n_[1]).endswith("fmt::format"))
    args_ok = False
    lit = None
    if fm:
        disp = flow.find(fm[0], lambda n_: n_[0] == "call" and flow.last(n_[2]) in ("new_display", "new_debug", "new_lower_hex", "new_upper_hex"))
        args_ok = all(a[3][0] == ("param", 1) for a in disp) and fb.locals[1]["ty"].get("s") in ("usize", "u32", "u64", "u16", "u8")
        # the template literal
        for bb, t, ci in fb.calls():
            if flow.fname(ir.callee_path(ci) or "").endswith("fmt::format") and t.get("loc"):
                lit = source_literal(t["loc"])
    forbidden = set("!&|^=<>()?:")
    lit_ok = lit is not None and not (set(strip_placeholders(lit)) & forbidden)
    ctx.ob(rule, key, bool(fm) and args_ok and lit_ok, where=fb.where(),
           expected="names generated as format!(<safe literal>, position): digits plus constant pieces without ! & | ^ = < > ( ) ? :",
           found="template %r, integer argument: %s" % (lit, args_ok))


source_literal = shared.source_literal
strip_placeholders = shared.strip_placeholders


def check(ctx):
    for cfg in configs(ctx.tier):
        ctx.cfg = cfg.name
        lib = ctx.load(cfg)
        grammar_rules(ctx, lib)
        F_label(ctx, lib)
        P_panic(ctx, lib)
        A_alphabet(ctx, lib)
        # keyword -> Formula variant (grammar rules above) -> operation: 'a formula denoting the Boolean function written in the file' is observable only through what the
        # variants are compiled to, natively (Adf::term + the connective tables) and for biodivine (to_boolean_expr): C08.A-ops = C09.A-term o C07.T-conn
        from rules import C09, kernel as _k
        C09.A_term(ctx, lib)
        _k.T_conn(ctx, lib)
    ctx.cfg = "bin@default"
    bin_ = ctx.load(facts.Config("bin"))
    P_parse(ctx, bin_, floor=3, key_prefix="bin:")
    F_input(ctx, bin_, "bin", 3)
    ctx.cfg = "server@default"
    server = ctx.load(facts.Config("server"))
    P_parse(ctx, server, floor=1, key_prefix="server:")
    F_input(ctx, server, "server", 1)
