"""C09 - compilation to diagrams preserves every acceptance condition."""
import glob
import os
import re

from mirlib import facts, flow, ir, symx
from mirlib.pat import ANY, ADT, C, CLOS, F, IDX, K, OP, P, TUP, V, match
from rules import deps, kernel, shared
from rules.kernel import deep_strip, strip, is_call, effects_named, unloop, int_of

EXPLANATION = """
Decided: C09.A-wire (writer/reader agreement of the biodivine bridge: biodivine's write_as_string - read from the
dependency version pinned in Cargo.lock - emits `var,low,high` per node between `|`; the reader passes element [0] to
Var(..), [1] to the lo and [2] to the hi parameter of Bdd::node, looks the children up among the handles created so far
in dump order, maps dump rows 0/1 to the constants false/true, handles valid/unsatisfiable conditions before parsing and
takes the last created handle as root; every statement is paired with its own biodivine diagram by zip), C09.A-term
(Formula variant -> Bdd operation / BooleanExpression variant with the operands in source order, composed with
C07.T-conn: and->AND, or->OR, imp->first IMPLIES second, xor->XOR, iff->IFF, neg->NOT, c(v)->TOP, c(f)->BOT, atom->its own
variable), C09.F-order (Adf::from_parser and adfbiodivine::Adf::from_parser store the formula fetched with the enumerate
index into the slot given by the formula_order() item; formula_order maps each acceptance-condition name through the
dictionary at construction time), C01.A-hybrid (which diagrams the hybrid steps hand to the bridge), and the kernel-build suite of
rules/deps.py (C07.T-conn, C07.T-ite0, C07.R-ite, S.F-memo ite_cache, S.R-node, S.R-new, S.W-store, C06.W-ctor): the native compilation
is a fold of these operations.  For the pre-grounded import: the biodivine part of the grounded obligations (S.F-full var_list, C01.P-progress, C01.F-io bio.*)."""
NOT_DECIDED = "biodivine's own compilation (eval_expression) is trusted; 'formulas of any size' follows by structural induction over Formula from the per-variant step (paper)."
TECHNIQUE = "static analysis: writer/reader table agreement (dependency source pinned by Cargo.lock vs MIR summary of the reader), per-variant MIR summaries, index provenance"

FORMULA_OPS = {"Not": ("Bdd::not", 1), "And": ("Bdd::and", 2), "Or": ("Bdd::or", 2), "Imp": ("Bdd::imp", 2), "Xor": ("Bdd::xor", 2), "Iff": ("Bdd::iff", 2)}


def configs(tier):
    return facts.LIB_ALL if tier == "thorough" else facts.LIB_QUICK


def dep_dir(name):
    lock = open(os.path.join(facts.REPO, "Cargo.lock")).read()
    m = re.search(r'name = "%s"\nversion = "([^"]+)"\nsource = "[^"]*"\nchecksum = "([0-9a-f]+)"' % re.escape(name), lock)
    if not m:
        return None, None, None
    ver, chk = m.group(1), m.group(2)
    home = os.environ.get("CARGO_HOME", os.path.expanduser("~/.cargo"))
    dirs = glob.glob(os.path.join(home, "registry", "src", "*", "%s-%s" % (name, ver)))
    return (dirs[0] if dirs else None), ver, chk


def A_wire_writer(ctx):
    rule = "C09.A-wire"
    d, ver, chk = dep_dir("biodivine-lib-bdd")
    if d is None:
        ctx.cannot(rule, "writer.source", "source of the pinned biodivine-lib-bdd version in the cargo registry", "Cargo.lock", ver)
        return
    src = ""
    for f in glob.glob(os.path.join(d, "src", "**", "*.rs"), recursive=True):
        t = open(f).read()
        if "fn write_as_string" in t:
            src = t
    m = re.search(r"fn write_as_string\(.*?\n    \}\n", src, re.S)
    body = m.group(0) if m else ""
    fmt = re.search(r'write!\(\s*output\s*,\s*"([^"]*)"\s*,\s*node\.(\w+)\s*,\s*node\.(\w+)\s*,\s*node\.(\w+)\s*\)', body)
    ok = bool(fmt) and fmt.group(1) == "{},{},{}|" and (fmt.group(2), fmt.group(3), fmt.group(4)) == ("var", "low_link", "high_link") and 'write!(output, "|")' in body
    ctx.ob(rule, "writer.row-format", ok, where="biodivine-lib-bdd %s (%s..)" % (ver, chk[:12]), expected='"|" then per node "{var},{low_link},{high_link}|"',
           found=(fmt.group(0) if fmt else body[:200]))
    node_src = ""
    for f in glob.glob(os.path.join(d, "src", "**", "*.rs"), recursive=True):
        t = open(f).read()
        if "fn mk_true(" in t:
            node_src = t
    m2 = re.search(r"fn mk_true\(.*?\{(.*?)\n    \}", node_src, re.S)
    ok2 = bool(m2) and re.search(r"vec!\[\s*BddNode::mk_zero\(num_vars\)\s*,\s*BddNode::mk_one\(num_vars\)\s*\]", m2.group(1)) is not None
    ctx.ob(rule, "writer.terminal-rows", ok2, where="biodivine-lib-bdd %s" % ver, expected="row 0 = zero terminal, row 1 = one terminal", found=m2.group(1).strip()[:160] if m2 else None)


def A_wire_reader(ctx, lib):
    rule = "C09.A-wire"
    ctx.rule(rule, "bridge wire format: writer `|var,low,high|...` (dependency source, pinned) vs reader in from_biodivine_vector: split('|') non-empty rows enumerated; "
                   "row 0 -> constant(false), row 1 -> constant(true), row k -> node(Var(parse(e[0])), term_vec[parse(e[1])], term_vec[parse(e[2])]) pushed to term_vec; "
                   "root = last handle; valid -> TOP, unsat -> BOT before parsing; conditions paired with statements by zip in order")
    try:
        b = lib.one("adf::Adf::from_biodivine_vector")
    except LookupError as e:
        ctx.lost(rule, "from_biodivine_vector", str(e))
        return
    roles, d = flow.closure_roles(b)
    fe = [r for r in roles.values() if r.adaptor == "for_each"]
    ok = len(fe) == 1 and match(fe[0].receiver, C("zip", C("iter_mut", C("from_elem", ANY, C("len", P(2)))), C("iter", P(2)))) is not None
    ctx.ob(rule, "reader.pairing", ok, where=b.where(), expected="result.ac.iter_mut().zip(bio_ac.iter()).for_each(..)", found=flow.show(fe[0].receiver)[:200] if fe else None)
    ret = d.expr_local(0)
    okr = match(ret, ADT("Adf", ordering=C("clone", P(1)), bdd=C("Bdd::new"), ac=C("from_elem", ANY, C("len", P(2))))) is not None
    ctx.ob(rule, "reader.fresh-store", okr, where=b.where(), expected="Adf { ordering: ordering.clone(), bdd: Bdd::new(), ac: vec![_; bio_ac.len()], .. }", found=flow.show(ret)[:240])
    if not fe:
        return
    cb = lib.body(fe[0].closure_def)
    eng = ctx.engine([lib], no_inline={"adf_bdd::obdd::Bdd::node"})
    st = symx.State()
    NEWAC = st.new_cell(("sym", "new_ac0"))
    BIO = ("sym", "bdd_ac")
    env = eng.closure_env(st, cb, [("sym", "result")])
    item = ("tuple", (("ref", NEWAC, ()), shared.ref_to(st, BIO)))
    paths = eng.summarise(cb, [env, item], st)
    seen = set()

    def is_pred(e, name):
        return is_call(e, "_impl_util::" + name) and symx.contains(e, lambda n: n == BIO)
    for p in paths:
        t = [int_of(v) for e, v in p.cond if is_pred(deep_strip(e), "is_true")]
        f = [int_of(v) for e, v in p.cond if is_pred(deep_strip(e), "is_false")]
        final = p.state.cells[NEWAC]
        pushes = effects_named(p, "Vec::push")
        if t == [1]:
            seen.add("valid")
            ctx.ob(rule, "reader.valid->TOP", shared.cls_of_term(final) == "T" and not pushes, where=cb.where(), expected="*new_ac = constant(true)", found=symx.show(final))
            continue
        if f == [1]:
            seen.add("unsat")
            ctx.ob(rule, "reader.unsat->BOT", shared.cls_of_term(final) == "B" and not pushes, where=cb.where(), expected="*new_ac = constant(false)", found=symx.show(final))
            continue
        if p.end == "return":
            seen.add("done")
            continue
        if p.end != "backedge":
            continue
        # one row
        idxc = [(deep_strip(unloop(e)), v) for e, v in p.cond if deep_strip(unloop(e))[0] == "app" and deep_strip(unloop(e))[1] == "Eq"]
        row = None
        for e, v in idxc:
            a, b_ = e[2]
            k = b_ if b_[0] == "int" else a
            if int_of(v) == 1:
                row = int_of(k)
        if row is None and len(idxc) == 2 and all(int_of(v) == 0 for e, v in idxc):
            row = "k"
        if len(pushes) != 1:
            ctx.ob(rule, "reader.row-push", False, where=cb.where(), expected="one handle pushed per row", found=p.describe()[:200])
            continue
        pushed = deep_strip(unloop(pushes[0]["args"][1]))
        # root := last(term_vec) after the push
        fin = deep_strip(unloop(final))
        root_ok = symx.contains(fin, lambda n: n[0] == "app" and flow.last(n[1]) == "last") and symx.contains(fin, lambda n: n[0] == "app" and str(n[1]).startswith("upd:") and flow.last(n[1][4:]) == "push")
        if row in (0, 1):
            seen.add("row%d" % row)
            ctx.ob(rule, "reader.row%d-constant" % row, shared.cls_of_term(pushed) == ("B" if row == 0 else "T"), where=cb.where(), expected="constant(%s)" % ("false" if row == 0 else "true"), found=symx.show(pushed))
        else:
            seen.add("rowk")
            ok = is_call(pushed, "Bdd::node")
            why = symx.show(pushed)[:300]
            if ok:
                var, lo, hi = (deep_strip(x) for x in pushed[2][1:])

                def elem_index(x):
                    """x contains parse(collect(split(row, ','))[i]) -> i"""
                    ps = symx.find_all(x, lambda n: n[0] == "app" and flow.last(n[1]) == "parse")
                    if len(ps) != 1:
                        return None
                    idx = symx.find_all(ps[0], lambda n: n[0] == "index" and symx.contains(n[1], lambda m: m[0] == "app" and flow.last(m[1]) == "split"))
                    if len(idx) != 1:
                        return None
                    sp = symx.find_all(idx[0][1], lambda m: m[0] == "app" and flow.last(m[1]) == "split")
                    sep_ok = bool(sp) and any(a == ("str", ",") for a in sp[0][2])
                    return int_of(idx[0][2]) if sep_ok else None
                iv, il, ih = elem_index(var), elem_index(lo), elem_index(hi)
                shape_v = var[0] == "adt" and var[1] == shared.VAR
                shape_l = lo[0] == "index" and hi[0] == "index" and lo[1] == hi[1]
                ok = (iv, il, ih) == (0, 1, 2) and shape_v and shape_l
                why = "var<-e[%s], lo<-term_vec[e[%s]], hi<-term_vec[e[%s]]" % (iv, il, ih)
                # children are looked up in the vector the handles are pushed to
                tv = deep_strip(unloop(pushes[0]["args"][0]))
                ok = ok and shape_l and deep_strip(lo[1]) == tv
            ctx.ob(rule, "reader.rowk-node", ok, where=cb.where(), expected="node(Var(e[0]), term_vec[e[1]], term_vec[e[2]])", found=why)
        ctx.ob(rule, "reader.root-is-last[%s]" % row, root_ok, where=cb.where(), expected="*new_ac = *term_vec.last() after the push", found=symx.show(fin)[:160])
    ctx.ob(rule, "reader.cases", {"valid", "unsat", "row0", "row1", "rowk"} <= seen, where=cb.where(), expected="valid / unsat / row0 / row1 / rowk", found=sorted(seen))
    # the row source: to_string(bdd_ac).split('|').filter(non-empty).enumerate()
    calls, dd = flow.all_call_exprs(cb)
    src_ok = False
    for bb, t, ci, e in calls:
        if e[0] == "call" and flow.last(e[2]) == "enumerate":
            m = match(e, C("enumerate", C("filter", C("split", C("to_string", F(P(2), "1")), V("sep")), CLOS("f"))))
            if m is not None and flow.const_val(m["sep"]) == "|":
                fb = lib.body(m["f"])
                fr = flow.closure_ret(lib, fb)
                src_ok = fr[0] == "unop" and fr[1] == "Not" and fr[2][0] == "call" and flow.last(fr[2][2]) == "is_empty"
    ctx.ob(rule, "reader.rows", src_ok, where=cb.where(), expected="bdd_ac.to_string().split('|').filter(|t| !t.is_empty()).enumerate()", found=src_ok)
    # to_string resolves to biodivine's Display
    ts = [ci for bb, t, ci in cb.calls() if flow.last(ci["path"] if ci else "") == "to_string"]
    okd = bool(ts) and any("biodivine_lib_bdd::Bdd" in ir.ty_str(a) for a in (ts[0].get("impl", {}).get("args") or ts[0].get("args") or []))
    ctx.ob(rule, "reader.display-of-biodivine-bdd", okd, where=cb.where(), expected="<biodivine_lib_bdd::Bdd as ToString>::to_string", found=[ir.ty_str(a) for a in (ts[0].get("impl", {}).get("args") or [])] if ts else None)


def A_term(ctx, lib):
    rule = "C09.A-term"
    ctx.rule(rule, "Adf::term: Bot->constant(false), Top->constant(true), Atom(v)->bdd.variable(ordering.variable(v)), Not(a)->not(term(a)), "
                   "And/Or/Imp/Xor/Iff(a,b)->and/or/imp/xor/iff(term(a), term(b)) in source order; Formula::to_boolean_expr: the same variant mapping into "
                   "BooleanExpression with operands in order, Atom(name)->Variable(name.to_string())")
    try:
        fa = lib.adt("parser::Formula")
        variants = [v["name"] for v in fa["variants"]]
    except LookupError as e:
        ctx.lost(rule, "Formula", str(e))
        return
    ops = ("adf_bdd::obdd::Bdd::variable", "adf_bdd::obdd::Bdd::not", "adf_bdd::obdd::Bdd::and", "adf_bdd::obdd::Bdd::or", "adf_bdd::obdd::Bdd::iff",
           "adf_bdd::obdd::Bdd::xor", "adf_bdd::obdd::Bdd::imp")
    try:
        b = lib.one("adf::Adf::term")
        eng = ctx.engine([lib], no_inline=set(ops) | {b.path, "adf_bdd::datatypes::adf::VarContainer::variable"})
        st = symx.State()
        SELF = shared.ref_to(st, ("sym", "self"))
        FORM = ("sym", "formula")
        paths = eng.summarise(b, [SELF, shared.ref_to(st, FORM)], st)
        seen = {}
        for p in paths:
            if p.end != "return":
                continue
            dv = [int_of(v) for e, v in p.cond if deep_strip(e) == ("app", "discr", (FORM,))]
            if len(dv) != 1 or dv[0] is None or dv[0] >= len(variants):
                ctx.cannot(rule, "term.arm", "one arm per Formula variant", b.where(), p.describe()[:200])
                continue
            vn = variants[dv[0]]
            r = deep_strip(p.ret)
            ok = False

            def sub(i, vn=vn):
                return lambda x: is_call(x, "Adf::term") and deep_strip(x[2][1]) == ("field", ("downcast", FORM, vn), str(i))
            if vn == "Bot":
                ok = shared.cls_of_term(r) == "B"
            elif vn == "Top":
                ok = shared.cls_of_term(r) == "T"
            elif vn == "Atom":
                ok = is_call(r, "Bdd::variable") and symx.contains(r[2][1], lambda n: is_call(n, "VarContainer::variable") and deep_strip(n[2][1]) == ("field", ("downcast", FORM, "Atom"), "0")) \
                    and symx.contains(r[2][1], lambda n: n[0] == "field" and n[2] == "ordering")
            elif vn in FORMULA_OPS:
                opn, ar = FORMULA_OPS[vn]
                ok = is_call(r, opn) and len(r[2]) == ar + 1 and all(sub(i)(deep_strip(r[2][i + 1])) for i in range(ar))
                ok = ok and symx.contains(r[2][0], lambda n: n[0] == "field" and n[2] == "bdd")
            seen[vn] = ok
            ctx.ob(rule, "term[%s]" % vn, ok, where=b.where(), expected="see rule", found=symx.show(r)[:240])
        ctx.ob(rule, "term.arms", set(seen) == set(variants), where=b.where(), expected=sorted(variants), found=sorted(seen))
    except LookupError as e:
        ctx.lost(rule, "Adf::term", str(e))
    try:
        b = lib.one("parser::Formula::to_boolean_expr")
        eng = ctx.engine([lib], no_inline={b.path})
        st = symx.State()
        FORM = ("sym", "formula")
        paths = eng.summarise(b, [shared.ref_to(st, FORM)] + ([None] * (b.argc - 1)), st)
        seen = {}
        for p in paths:
            if p.end != "return":
                continue
            dv = [int_of(v) for e, v in p.cond if deep_strip(e) == ("app", "discr", (FORM,))]
            if len(dv) != 1 or dv[0] is None or dv[0] >= len(variants):
                ctx.cannot(rule, "to_boolean_expr.arm", "one arm per Formula variant", b.where(), p.describe()[:200])
                continue
            vn = variants[dv[0]]
            r = deep_strip(p.ret)
            ok = False
            if r[0] == "adt" and r[1].endswith("BooleanExpression"):
                fields = [deep_strip(x) for _, x in r[3]]

                def boxed_sub(x, i, vn=vn):
                    while x[0] == "app" and x[1] == "Box":
                        x = deep_strip(x[2][0])
                    same_naming = len(x[2]) == 1 or deep_strip(x[2][1]) in (("sym", "arg2"), ("sym", "*arg2"))
                    return is_call(x, "Formula::to_boolean_expr") and deep_strip(x[2][0]) == ("field", ("downcast", FORM, vn), str(i)) and same_naming
                if vn == "Bot":
                    ok = r[2] == "Const" and fields == [symx.vbool(False)]
                elif vn == "Top":
                    ok = r[2] == "Const" and fields == [symx.vbool(True)]
                elif vn == "Atom":
                    label = ("field", ("downcast", FORM, "Atom"), "0")
                    x = fields[0] if len(fields) == 1 else ("x",)
                    by_label = x[0] == "app" and flow.last(x[1]) in ("to_string", "to_owned", "from", "into") and deep_strip(x[2][0]) == label
                    # naming function handed in by the caller (checked at the call sites: C09.A-name)
                    by_param = x[0] == "app" and flow.last(x[1]) in ("call", "call_mut", "call_once") and symx.contains(x[2][0], lambda n: n == ("sym", "arg2") or n == ("sym", "*arg2")) \
                        and symx.contains(x[2][1], lambda n: n == label)
                    ok = r[2] == "Variable" and (by_label or by_param)
                elif vn in FORMULA_OPS:
                    ar = FORMULA_OPS[vn][1]
                    ok = r[2] == vn and len(fields) == ar and all(boxed_sub(fields[i], i) for i in range(ar))
            seen[vn] = ok
            ctx.ob(rule, "to_boolean_expr[%s]" % vn, ok, where=b.where(), expected="BooleanExpression::%s with operands in order" % ("Const/Variable" if vn in ("Bot", "Top", "Atom") else vn), found=symx.show(r)[:240])
        ctx.ob(rule, "to_boolean_expr.arms", set(seen) == set(variants), where=b.where(), expected=sorted(variants), found=sorted(seen))
    except LookupError as e:
        ctx.lost(rule, "Formula::to_boolean_expr", str(e))
    # VarContainer::variable looks the name up in the mapping
    try:
        b = lib.one("datatypes::adf::VarContainer::variable")
        d = flow.Defs(b)
        ret = d.expr_local(0)
        m = match(ret, C("and_then", C("ok", C("read", F(P(1), "mapping"))), CLOS("c", [P(2)])))
        ok = m is not None
        if ok:
            cb = lib.body(m["c"])
            cr = flow.closure_ret(lib, cb)
            m2 = match(cr, C("map", C("get", P(2), OP("VarContainer::variable", 2)), CLOS("w")))
            ok = m2 is not None
            if ok:
                wr = flow.closure_ret(lib, lib.body(m2["w"]))
                ok = match(wr, ADT("Var", _0=P(2))) is not None
        ctx.ob(rule, "VarContainer::variable", ok, where=b.where(), expected="mapping.read().get(name).map(|v| Var(*v))", found=flow.show(ret)[:200])
    except LookupError as e:
        ctx.lost(rule, "VarContainer::variable", str(e))


def A_name(ctx, lib):
    rule = "C09.A-name"
    ctx.rule(rule, "naming agreement of the biodivine variables: the variable of position i is created under the name N(i) (make_variables receives the names in position "
                   "order) and every BooleanExpression::Variable refers to a statement through the same N: Atom(label) -> N(dict_value(label)), rewritings -> N(position); "
                   "dict_value(label) = dict.get(label) (the dictionary that orders namelist, C08.F-label)")
    scheme, info = shared.bio_naming(lib)
    ctx.ob(rule, "scheme", scheme in ("index", "label"), where="lib/src/adfbiodivine.rs", expected="names = statement labels, or (0..n).map(N) for one naming function N", found="%s %s" % (scheme, info))
    if scheme != "index":
        return
    fn_last = info.split("::")[-1]
    n = 0
    for b in lib.all_bodies:
        calls, d = flow.all_call_exprs(b)
        for bb, t, ci, e in calls:
            if e[0] == "call" and flow.fname(e[1]) == "Formula::to_boolean_expr" and b.qual != "Formula::to_boolean_expr":
                n += 1
                ok = len(e[3]) == 2 and e[3][1][0] == "closure"
                why = flow.show(e)[:200]
                if ok:
                    cb = lib.body(e[3][1][1])
                    cr = flow.closure_ret(lib, cb)
                    pat = C("Adf::" + fn_last, C("expect", C("AdfParser::dict_value", ANY, P(2)), ANY))
                    ok = match(cr, pat) is not None
                    # the dictionary is the one of the parser whose formula is converted
                    if ok:
                        dv = flow.find(cr, lambda n_: n_[0] == "call" and flow.last(n_[2]) == "dict_value")[0]
                        form_src = flow.find(flow.subst_upvars(e[3][0], flow.resolve_captures(lib, b) or []) if b.kind == "closure" else e[3][0], lambda n_: n_[0] == "call" and flow.last(n_[2]) == "ac_at")
                        ok = bool(form_src) and pat_same_parser(dv[3][0], form_src[0][3][0])
                    why = flow.show(cr)[:200]
                ctx.ob(rule, "%s.atom-names" % b.qual, ok, where=b.where(t.get("loc")), expected="to_boolean_expr(&|name| N(parser.dict_value(name))) with the formula's own parser", found=why)
    ctx.floor(rule, "to_boolean_expr call sites", n, 2)
    try:
        b = lib.one("parser::AdfParser::dict_value")
        d = flow.Defs(b)
        ret = d.expr_local(0)
        ok = match(ret, C("copied", C("get", C("expect", C("read", F(P(1), "dict")), ANY), P(2)))) is not None
        ctx.ob(rule, "dict_value", ok, where=b.where(), expected="dict.read().get(value).copied()", found=flow.show(ret)[:160])
    except LookupError as e:
        ctx.lost(rule, "dict_value", str(e))
    # vars are taken from the variable set in creation order
    try:
        b = lib.one("adfbiodivine::Adf::from_parser")
        d = flow.Defs(b)
        ret = d.expr_local(0)
        fs = dict(ret[3]) if ret[0] == "adt" else {}
        ok = "vars" in fs and match(fs["vars"], C("variables", C("build", ANY))) is not None
        ctx.ob(rule, "vars-in-creation-order", ok, where=b.where(), expected="vars: builder.build().variables()", found=flow.show(fs.get("vars", ("x",)))[:160])
    except LookupError as e:
        ctx.lost(rule, "adfbiodivine::Adf::from_parser", str(e))


def pat_same_parser(a, b):
    def root(x):
        while isinstance(x, tuple) and x and x[0] in ("field", "call") and (x[0] == "field" or (x[3] and flow.last(x[2]) in ("clone", "deref", "borrow"))):
            x = x[1] if x[0] == "field" else x[3][0]
        return x
    ra, rb = root(a), root(b)
    def key(x):
        if x[0] == "oparam":
            return ("p", flow.sg(x[1]).split("::{closure")[0], x[2])
        if x[0] == "param":
            return ("p", None, x[1])
        return x
    ka, kb = key(ra), key(rb)
    if ka[0] == "p" and kb[0] == "p":
        return ka[2] == kb[2]
    return ka == kb


def F_order(ctx, lib):
    rule = "C09.F-order"
    ctx.rule(rule, "from_parser (native and biodivine): parser.formula_order().iter().enumerate().for_each(|(insert_order, new_order)| result.ac[*new_order] = "
                   "compile(parser.ac_at(insert_order))); ac has one slot per dictionary entry; formula_order = formulaname.iter().map(|name| dict[name]).collect(); "
                   "ac_at(i) = formulae[i]; native: one diagram variable per dictionary index is created first")
    for fname_, compile_ in (("adf::Adf::from_parser", "Adf::term"), ("adfbiodivine::Adf::from_parser", "eval_expression")):
        try:
            b = lib.one(fname_)
        except LookupError as e:
            ctx.lost(rule, fname_, str(e))
            continue
        q = b.qual + ("(bio)" if "biodivine" in fname_ else "")
        roles, d = flow.closure_roles(b)
        fe = [r for r in roles.values() if r.adaptor == "for_each" and match(r.receiver, C("enumerate", C("iter", C("AdfParser::formula_order", P(1))))) is not None]
        ctx.ob(rule, q + ".loop", len(fe) == 1, where=b.where(), expected="parser.formula_order().iter().enumerate().for_each(..)", found=[flow.show(r.receiver)[:100] for r in roles.values()])
        if len(fe) != 1:
            continue
        cb = lib.body(fe[0].closure_def)
        eng = ctx.engine([lib], no_inline={"adf_bdd::adf::Adf::term", "adf_bdd::parser::Formula::to_boolean_expr", "adf_bdd::parser::AdfParser::ac_at",
                                           "adf_bdd::parser::AdfParser::dict_value"})
        st = symx.State()
        caps = flow.resolve_captures(lib, cb) or []
        capvals = []
        pret = d.expr_local(0)
        pfields = dict(pret[3]) if pret[0] == "adt" else {}
        own = dict((k, flow.map_expr(v, lambda x: ("oparam", b.path, x[1]) if x[0] == "param" else x)) for k, v in pfields.items())
        for ce in caps:
            fld = [k for k, v in own.items() if v == ce]
            if flow.is_oparam(ce, 1):
                capvals.append(("sym", "parser"))
            elif ce[0] == "field":
                capvals.append(("field", ("sym", "result"), ce[2]))
            elif len(fld) == 1:
                # the capture is a field of the aggregate under construction
                capvals.append(("field", ("sym", "result"), fld[0]))
            else:
                capvals.append(("sym", "result"))
        env = eng.closure_env(st, cb, capvals)
        INS, NEW = ("sym", "insert_order"), ("sym", "new_order")
        item = ("tuple", (INS, shared.ref_to(st, NEW)))
        paths = [p for p in eng.summarise(cb, [env, item], st) if p.end == "return"]
        ok = len(paths) == 1
        why = None
        if ok:
            p = paths[0]
            stores = kernel.stores_of(p)
            ok = len(stores) == 1
            if ok:
                tgt, val, eff = stores[0]
                tgt, val = deep_strip(tgt), deep_strip(val)
                slot_ok = tgt[0] == "index" and deep_strip(tgt[2]) == NEW and symx.contains(tgt[1], lambda n: n == ("sym", "result")) and \
                    (symx.contains(tgt[1], lambda n: n[0] == "field" and n[2] == "ac"))
                src = symx.find_all(val, lambda n: is_call(n, "AdfParser::ac_at"))
                src_ok = len(src) == 1 and deep_strip(src[0][2][1]) == INS and symx.contains(src[0][2][0], lambda n: n == ("sym", "parser"))
                comp_ok = symx.contains(val, lambda n: n[0] == "app" and flow.fname(n[1]).endswith(compile_))
                ok = slot_ok and src_ok and comp_ok
                why = "slot %s <- %s" % (symx.show(tgt)[:120], symx.show(val)[:200])
        ctx.ob(rule, q + ".slot-and-source", ok, where=cb.where(), expected="result.ac[*new_order] = compile(parser.ac_at(insert_order))", found=why or [p.describe()[:160] for p in paths])
        # slots: one per dictionary entry
        ret = d.expr_local(0)
        fs = dict(ret[3]) if ret[0] == "adt" else {}
        ok_sz = "ac" in fs and match(fs["ac"], C("from_elem", ANY, C("AdfParser::dict_size", P(1)))) is not None
        ok_ord = "ordering" in fs and match(fs["ordering"], C("AdfParser::var_container", P(1))) is not None
        ctx.ob(rule, q + ".slots", ok_sz and ok_ord, where=b.where(), expected="ac: vec![_; parser.dict_size()], ordering: parser.var_container()", found=flow.show(ret)[:240])
    # native: variables created for 0..dict_size in order (diagram variable i = dictionary index i)
    try:
        b = lib.one("adf::Adf::from_parser")
        roles, d = flow.closure_roles(b)
        fe = [r for r in roles.values() if r.adaptor == "for_each" and r.receiver[0] == "adt" and r.receiver[1].endswith("ops::Range")]
        ok = len(fe) == 1
        if ok:
            rng = dict(fe[0].receiver[3])
            ok = flow.const_val(rng["start"]) == 0 and match(rng["end"], C("AdfParser::dict_size", P(1))) is not None
            cb = lib.body(fe[0].closure_def)
            calls, dd = flow.all_call_exprs(cb)
            vs = [e for bb, t, ci, e in calls if e[0] == "call" and flow.fname(e[1]) == "Bdd::variable"]
            ok = ok and len(vs) == 1 and match(vs[0], C("Bdd::variable", ANY, ADT("Var", _0=P(2)))) is not None
        if not fe:
            # the `for v in 0..parser.dict_size() { bdd.variable(Var(v)); }` spelling: the item of the range's `next` is the variable index
            calls, dd = flow.all_call_exprs(b)
            vs = [e for bb, t, ci, e in calls if e[0] == "call" and flow.fname(e[1]) == "Bdd::variable"]
            ok = False
            if len(vs) == 1 and len(vs[0][3]) == 2 and vs[0][3][1][0] == "adt" and vs[0][3][1][1].endswith("Var"):
                idx = dict(vs[0][3][1][3]).get("0")
                nx = flow.find(idx, lambda n_: n_[0] == "call" and flow.last(n_[2]) == "next") if idx is not None else []
                rngs = flow.find(idx, lambda n_: n_[0] == "adt" and n_[1].endswith("ops::Range")) if idx is not None else []
                if idx is not None and idx[0] == "field" and idx[2] == "0" and len(nx) >= 1 and len(rngs) == 1:
                    rng = dict(rngs[0][3])
                    ok = flow.const_val(rng["start"]) == 0 and match(rng["end"], C("AdfParser::dict_size", P(1))) is not None
        ctx.ob(rule, "Adf::from_parser.variables", ok, where=b.where(), expected="(0..parser.dict_size()).for_each(|v| bdd.variable(Var(v))) or the same as a for loop", found=[flow.show(r.receiver)[:100] for r in fe])
    except LookupError as e:
        ctx.lost(rule, "Adf::from_parser", str(e))
    # parser side
    try:
        b = lib.one("parser::AdfParser::formula_order")
        d = flow.Defs(b)
        ret = d.expr_local(0)
        m = match(ret, C("collect", C("map", C("iter", C("borrow", F(P(1), "formulaname"))), CLOS("c"))))
        ok = m is not None
        if ok:
            cr = flow.closure_ret(lib, lib.body(m["c"]))
            ok = match(cr, C("expect", C("get", C("expect", C("read", F(OP("AdfParser::formula_order", 1), "dict")), ANY), P(2)), ANY)) is not None
            why = flow.show(cr)[:200]
        else:
            why = flow.show(ret)[:200]
            # the same map written as a loop: `for name in formulaname.borrow().iter() { order.push(*dict.read().get(name)) }; order` - one loop left only when the
            # iterator is exhausted, one push per round of the looked-up index of that round's name, into the vector that is returned
            calls, dd = flow.all_call_exprs(b)
            pushes = [(bb, t, e) for bb, t, ci, e in calls if e[0] == "call" and flow.last(e[2]) == "push" and "Vec" in e[1]]
            nexts = [e for bb, t, ci, e in calls if e[0] == "call" and flow.last(e[2]) == "next" and "d:ForLoop" in (t.get("exp") or [])]
            loops = b.natural_loops()
            exits = set()
            for head, blocks in loops.items():
                for bb in blocks:
                    for s_ in b.succs(bb):
                        if s_ not in blocks and not (b.blocks[s_]["term"]["k"] == "unreachable" and not b.blocks[s_]["stmts"]):
                            exits.add((bb, s_))
            if len(pushes) == 1 and len(nexts) == 1 and len(loops) == 1 and len(exits) == 1:
                bbp, tp, ep = pushes[0]
                val = ep[3][1]
                m2 = match(val, C("expect", C("get", C("expect", C("read", F(P(1), "dict")), ANY), V("name")), ANY))
                src_ok = match(nexts[0][3][0], C("into_iter", C("iter", C("borrow", F(P(1), "formulaname"))))) is not None or \
                    match(nexts[0][3][0], C("iter", C("borrow", F(P(1), "formulaname")))) is not None
                name_ok = m2 is not None and bool(flow.find(m2["name"], lambda n_: n_ == nexts[0]))
                # receiver of the push = the returned local
                recv_l = None
                a0 = tp["args"][0]
                if a0["k"] in ("move", "copy") and not a0["pl"]["p"]:
                    for _, _, s_ in b.statements():
                        if s_["k"] == "assign" and s_["pl"]["l"] == a0["pl"]["l"] and not s_["pl"]["p"] and s_["rv"]["k"] == "ref" and not s_["rv"]["pl"]["p"]:
                            recv_l = s_["rv"]["pl"]["l"]
                ret_l = [s_["rv"]["o"]["pl"]["l"] for _, _, s_ in b.statements() if s_["k"] == "assign" and s_["pl"]["l"] == 0 and not s_["pl"]["p"]
                         and s_["rv"]["k"] == "use" and s_["rv"]["o"]["k"] in ("move", "copy") and not s_["rv"]["o"]["pl"]["p"]]
                ok = src_ok and name_ok and recv_l is not None and ret_l == [recv_l] and bbp in loops[next(iter(loops))]
                why = "loop form: source %s, looked-up name is the round's item %s, push into the returned vector %s" % (src_ok, name_ok, ret_l == [recv_l])
        ctx.ob(rule, "formula_order", ok, where=b.where(), expected="formulaname.iter().map(|name| *dict.get(name)).collect() (or the same loop)", found=why)
    except LookupError as e:
        ctx.lost(rule, "formula_order", str(e))
    try:
        b = lib.one("parser::AdfParser::ac_at")
        d = flow.Defs(b)
        ret = d.expr_local(0)
        ok = match(ret, C("cloned", C("get", C("borrow", F(P(1), "formulae")), P(2)))) is not None
        ctx.ob(rule, "ac_at", ok, where=b.where(), expected="formulae.borrow().get(idx).cloned()", found=flow.show(ret)[:160])
    except LookupError as e:
        ctx.lost(rule, "ac_at", str(e))
    # parse_ac pushes formula and name together
    try:
        b = lib.one("parser::AdfParser::parse_ac")
        for c in lib.closures_of(b):
            eng = ctx.engine([lib])
            calls, dd = flow.all_call_exprs(c)
            pushes = [(bb, e) for bb, t, ci, e in calls if e[0] == "call" and flow.last(e[2]) == "push"]
            tg = sorted(flow.show(e[3][0])[-40:] for bb, e in pushes)
            okp = len(pushes) == 2 and any("formulae" in x for x in tg) and any("formulaname" in x for x in tg)
            # both fed by the same parse result
            srcs = set()
            for bb, e in pushes:
                srcs.add(frozenset(n_ for n_ in flow.find(e[3][1], lambda n_: n_[0] == "call" and flow.last(n_[2]) in ("branch", "terminated"))))
            ctx.ob(rule, "parse_ac.lockstep", okp and len(srcs) == 1 and all(srcs), where=c.where(), expected="formulae.push(formula) and formulaname.push(name) from the same parsed pair", found=tg)
    except LookupError as e:
        ctx.lost(rule, "parse_ac", str(e))


def check(ctx):
    from rules import C01
    A_wire_writer(ctx)
    for cfg in configs(ctx.tier):
        ctx.cfg = cfg.name
        lib = ctx.load(cfg)
        A_wire_reader(ctx, lib)
        A_term(ctx, lib)
        F_order(ctx, lib)
        A_name(ctx, lib)
        C01.A_hybrid(ctx, lib)
        deps.kernel_build(ctx, lib)      # includes C07.T-conn
        # 'imported after biodivine pre-grounding: that function with the grounded truth values substituted' - the biodivine fixpoint loop that hybrid_step() runs
        # before the bridge: what it substitutes (S.F-full var_list), that it runs to the fixpoint (C01.P-progress) and that the list of a round is not altered (C01.F-io);
        # the native loop is not on this path
        from rules import semantics
        n0 = len(ctx.obligations)
        semantics.bio_list_tables(ctx, lib, "S.F-full", which=("var_list",))
        semantics.P_progress(ctx, lib, "C01.P-progress")
        C01.F_io(ctx, lib)
        ctx.obligations[n0:] = [o for o in ctx.obligations[n0:] if not str(o.key).startswith("native")]
