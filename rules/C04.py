"""C04 - counting-guided stable search."""
from mirlib import facts, flow, ir, symx
from mirlib.pat import ANY, ADT, C, CLOS, F, IDX, K, OP, P, TUP, V, match
from rules import deps, kernel, semantics, shared
from rules.kernel import deep_strip, strip, is_call, effects_named, int_of

EXPLANATION = """
Decided: C04.P-filter (both public entry points return a chain in which every element passed a filter whose result is
stability_check(self, candidate): none is invented; the candidates come from two_val_model_counts over the grounded
interpretation of the same object with the documented heuristic), S.X-exhaust (the cubes of Bdd::interpretations and the
results of the recursive calls are consumed by non-short-circuiting consumers only: no cube is skipped because an earlier
one was inconsistent), S.F-reduct for stability_check and S.F-full for apply_interpretation / grounded_internal,
C04.T-cube (the closure applied to each cube assigns BOT to its negative and TOP to its positive literals, rejects exactly the
cubes that contradict a decided statement or a `will_be` value, and fixes the chosen statement to the searched value),
S.T-term for the predicates read (is_truth_value, is_true, compare_inf, no_inf_inconsistency), C13.T-order (more_models)
is attributed to C13, not to C04: exactness does not depend on the branch polarity.
Dependency suites (rules/deps.py; each obligation is a necessary condition of this property, reported under its own rule id):
kernel-build (C07.T-conn, C07.T-ite0, C07.R-ite, S.F-memo ite_cache, S.R-node, S.R-new, S.W-store, C06.W-ctor), kernel-restrict
(C07.R-restrict, S.F-memo restrict_cache) and translation (C09.A-wire, C09.A-term, C09.F-order, C09.A-name, C01.A-hybrid): an answer
is computed on diagrams built by these functions, on every back-end.  cli-plumbing (C08.F-input, C10.P-cli, C10.F-print): what every answer
printed by adf-bdd passes through, whatever the semantics. Additionally C13.R-cubes (Bdd::interpretations, whose cubes the search branches on)."""
NOT_DECIDED = "Correctness of the `will_be` pruning and 'each reported once' for all ADFs and diagram shapes: a property of an unbounded branching search."
TECHNIQUE = "static analysis: exhaustive-consumption rule over iterator chains, filter-provenance, finite-domain closure tables"


def configs(tier):
    return facts.LIB_ALL if tier == "thorough" else facts.LIB_QUICK


def P_filter(ctx, lib):
    rule = "C04.P-filter"
    ctx.rule(rule, "stable_count_optimisation_heu_{a,b} = two_val_model_counts(&self.grounded(), heuristic).into_iter().filter(|int| self.stability_check(int)); "
                   "two_val_model_counts starts the recursion with an all-undecided will_be vector")
    for name, heu in (("stable_count_optimisation_heu_a", "heu_max_imp_min_nacyc_impact_min_paths"), ("stable_count_optimisation_heu_b", "heu_min_paths_max_imp")):
        try:
            b = lib.one("adf::Adf::" + name)
        except LookupError as e:
            ctx.lost(rule, name, str(e))
            continue
        d = flow.Defs(b)
        ret = d.expr_local(0)
        env = match(ret, C("filter", C("into_iter", C("Adf::two_val_model_counts", P(1), C("Adf::grounded", P(1)), V("h"))), CLOS("flt")))
        ok = env is not None and env["h"][0] == "fnitem" and flow.sg(env["h"][1]).endswith("Adf::" + heu)
        ctx.ob(rule, name + ".chain", ok, where=b.where(), expected="two_val_model_counts(&self.grounded(), Self::%s).into_iter().filter(..)" % heu, found=flow.show(ret)[:260])
        if env:
            fb = lib.body(env["flt"])
            fret = flow.closure_ret(lib, fb)
            okf = match(fret, C("Adf::stability_check", OP("Adf::" + name, 1), P(2))) is not None
            rets = [bb for bb, t in fb.terminators() if t["k"] == "return"]
            ctx.ob(rule, name + ".filter-is-stability-check", okf and len(rets) == 1, where=fb.where(), expected="|int| self.stability_check(int)", found=flow.show(fret)[:160])
    try:
        b = lib.one("adf::Adf::two_val_model_counts")
        d = flow.Defs(b)
        ret = d.expr_local(0)
        env = match(ret, C("Adf::two_val_model_counts_logic", P(1), P(2), V("wb"), ANY, P(3)))   # the depth argument only feeds log messages
        ok = env is not None
        if ok:
            wb = env["wb"]
            ok = wb[0] == "call" and flow.last(wb[2]) == "from_elem" and shared_und(wb[3][0]) and match(wb[3][1], C("len", P(2))) is not None
        ctx.ob(rule, "two_val_model_counts.start", ok, where=b.where(), expected="logic(interpr, &vec![Term::UND; interpr.len()], 0, heuristic)", found=flow.show(ret)[:260])
    except LookupError as e:
        ctx.lost(rule, "two_val_model_counts", str(e))


def shared_und(e):
    v = flow.const_val(e)
    return isinstance(v, tuple) and v[0] == "adt" and v[1].endswith("Term") and v[2] >= 2


def T_cube(ctx, lib):
    rule = "C04.T-cube"
    ctx.rule(rule, "in two_val_model_counts_logic the literals of a cube are applied as: negative var -> BOT unless the current value is TOP or will_be is TOP; "
                   "positive var -> TOP unless the current value is BOT or will_be is BOT (closure tables over the term-class domain).  Obligation: a literal that does not "
                   "contradict the current value / will_be is accepted and gets its own value (over-rejection loses models); rejecting less is redundant but harmless")
    try:
        b = lib.one("adf::Adf::two_val_model_counts_logic")
    except LookupError as e:
        ctx.lost(rule, "two_val_model_counts_logic", str(e))
        return
    n = 0
    for c in lib.closures_of(b, recursive=True):
        parent = lib.body(c.parent)
        roles, _ = flow.closure_roles(parent)
        r = roles.get(c.path)
        if r is None or r.adaptor != "try_for_each":
            continue
        src, steps = r.receiver_chain()
        # receiver: negative.iter() / positive.iter() = components of the cube item of the outer closure
        if not (src[0] == "field" and src[1] == ("param", 2) and src[2] in ("0", "1")):
            continue
        polarity = "negative" if src[2] == "0" else "positive"
        n += 1
        caps = flow.resolve_captures(lib, c) or []
        eng = ctx.engine([lib])
        tab = {}
        for cur in shared.CLASSES:
            for wb in shared.CLASSES:
                st = symx.State()
                NEW = st.new_cell(("sym", "new_int"))
                capvals = []
                roles_of_cap = []
                for ce in caps:
                    s_ = flow.show(ce)
                    if flow.is_oparam(ce, 3, "Adf::two_val_model_counts_logic"):
                        capvals.append(("sym", "will_be"))
                        roles_of_cap.append("will_be")
                    else:
                        capvals.append(("ref", NEW, ()))
                        roles_of_cap.append("new_int")
                VARI = ("sym", "v")

                def hook(e_, s_, base, idx, cur=cur, wb=wb):
                    if idx != VARI and idx != ("field", VARI, "0"):
                        return None
                    if symx.contains(base, lambda n_: n_ == ("sym", "will_be")):
                        return shared.term(wb)
                    if symx.contains(base, lambda n_: n_ == ("sym", "new_int")):
                        return shared.term(cur)
                    return None
                eng.index_hook = hook
                env = eng.closure_env(st, c, capvals)
                paths = eng.summarise(c, [env, shared.ref_to(st, shared.var_of(VARI))], st)
                eng.index_hook = None
                outs = set()
                for p in paths:
                    if p.end != "return":
                        outs.add(("end", p.end))
                        continue
                    r_ = strip(p.ret)
                    stores = [e for e in p.effects if e.get("kind") == "index_mut" and e["cell"] in p.state.written]
                    if r_[0] == "adt" and r_[2] == "Err":
                        outs.add(("reject", len(stores)))
                    elif r_[0] == "adt" and r_[2] == "Ok":
                        vals = [shared.cls_of_term(p.state.cells[e["cell"]]) for e in stores]
                        tgt_ok = all(symx.contains(deep_strip(e["args"][1]), lambda n_: n_ == VARI) and symx.contains(deep_strip(e["args"][0]), lambda n_: n_ == ("sym", "new_int")) for e in stores)
                        outs.add(("assign", tuple(vals), tgt_ok))
                    else:
                        outs.add(("other", symx.show(r_)[:60]))
                tab[(cur, wb)] = outs
        for (cur, wb), outs in sorted(tab.items()):
            if polarity == "negative":
                reject = cur == "T" or wb == "T"
                want = {("reject", 0)} if reject else {("assign", ("B",), True)}
            else:
                reject = cur == "B" or wb == "B"
                want = {("reject", 0)} if reject else {("assign", ("T",), True)}
            if reject:
                # not an obligation: a cube that contradicts the current interpretation or will_be cannot contain a model, so exploring it anyway is redundant work whose
                # results the final stability filter drops (triage oracle: weakening these rejections changes no answer); rejecting MORE loses models and is checked below.
                # What must hold even here: nothing but the literal's own value is ever written.
                okw = all(o[0] == "reject" or (o[0] == "assign" and o[2] and set(o[1]) <= {"B" if polarity == "negative" else "T"}) for o in outs)
                ctx.ob(rule, "%s[cur=%s,will_be=%s]" % (polarity, cur, wb), okw, where=c.where(), expected="reject, or assign the literal's own value", found=sorted(map(str, outs)), nontrivial=False)
                continue
            ctx.ob(rule, "%s[cur=%s,will_be=%s]" % (polarity, cur, wb), outs == want, where=c.where(), expected=sorted(map(str, want)), found=sorted(map(str, outs)))
    ctx.floor(rule, "literal closures", n, 2)


def T_choice(ctx, lib):
    rule = "C04.T-choice"
    ctx.rule(rule, "two_val_model_counts_logic keeps branching while a statement is undecided both in the current interpretation and in will_be: the filter over "
                   "interpr.iter().enumerate() keeps (idx, val) whenever class(val) = U and class(will_be[idx]) = U, with will_be indexed by the item's own idx; when no "
                   "candidate is left, the concluded interpretation takes will_be[idx] for undecided and the value itself for decided positions (same idx)")
    try:
        b = lib.one("adf::Adf::two_val_model_counts_logic")
    except LookupError as e:
        ctx.lost(rule, "two_val_model_counts_logic", str(e))
        return
    roles, _ = flow.closure_roles(b)
    n_f = n_m = 0
    for c in lib.closures_of(b):
        r = roles.get(c.path)
        if r is None or r.adaptor not in ("filter", "map"):
            continue
        src, steps = r.receiver_chain()
        if not (src == ("param", 2) and [s_[0] for s_ in steps] == ["iter", "enumerate"]):
            continue
        caps = flow.resolve_captures(lib, c) or []
        eng = ctx.engine([lib])
        tab = {}
        for cur in shared.CLASSES:
            for wb in shared.CLASSES:
                st = symx.State()
                capvals = [("sym", "will_be") if flow.is_oparam(ce, 3, "Adf::two_val_model_counts_logic") else ("sym", "other%d" % k) for k, ce in enumerate(caps)]
                IDX = ("sym", "idx")
                WB = ("sym", "wb_at_idx")
                used_other_index = []

                def hook(e_, s_, base, idx, wb=wb):
                    if symx.contains(base, lambda n_: n_ == ("sym", "will_be")):
                        if deep_strip(idx) == IDX:
                            return shared.term(wb) if wb != "U" else shared.term("U")
                        used_other_index.append(symx.show(idx)[:60])
                    return None
                eng.index_hook = hook
                env = eng.closure_env(st, c, capvals)
                val = shared.term(cur)
                item = ("tuple", (IDX, shared.ref_to(st, val)))
                arg = shared.ref_to(st, item) if r.adaptor == "filter" else item
                paths = eng.summarise(c, [env, arg], st)
                eng.index_hook = None
                outs = set()
                for p_ in paths:
                    if p_.end != "return":
                        outs.add(("end", p_.end))
                    elif r.adaptor == "filter":
                        outs.add(symx.show(p_.ret))
                    else:
                        outs.add(shared.cls_of_term(deep_strip(p_.ret)) or symx.show(p_.ret)[:60])
                if used_other_index:
                    outs.add(("will_be indexed by", used_other_index[0]))
                tab[(cur, wb)] = outs
        if r.adaptor == "filter":
            n_f += 1
            # only the row that is a necessary condition is an obligation: a statement undecided in both vectors must remain a candidate (otherwise the search
            # stops branching and returns interpretations with undecided positions, which the final stability filter drops: models are lost).  Keeping additional,
            # already decided statements as candidates was found to be redundant but harmless (triage oracle, 12 000 random ADFs), so those rows are not checked.
            outs = tab[("U", "U")]
            want = {symx.show(symx.vbool(True))}
            ctx.ob(rule, "candidate[val=U,will_be=U]", outs == want, where=c.where(), expected=sorted(want), found=sorted(map(str, outs)))
        else:
            n_m += 1
            for (cur, wb), outs in sorted(tab.items()):
                want = {wb if cur == "U" else cur}
                ctx.ob(rule, "concluded[val=%s,will_be=%s]" % (cur, wb), outs == want, where=c.where(), expected=sorted(want), found=sorted(map(str, outs)))
    ctx.floor(rule, "candidate filters", n_f, 1)
    ctx.floor(rule, "conclusion maps", n_m, 1)


def F_branch(ctx, lib):
    rule = "C04.F-branch"
    ctx.rule(rule, "two_val_model_counts_logic, per cube of Bdd::interpretations(ac, goal, Var(idx), [], []): the recursion is entered only if BOTH literal passes succeeded "
                   "(negative and positive try_for_each combined by Result::and, result Ok) and check_consistency(update_interpretation_fixpoint(new_int), will_be) holds; "
                   "before that new_int[idx] is set to TOP iff goal (BOT otherwise) for the same idx and the same goal that were handed to interpretations; the recursion "
                   "receives that updated interpretation and the unchanged will_be; afterwards the chosen statement is concluded to have the opposite value "
                   "(upd_int[idx] = BOT iff goal) and will_be[idx] is fixed for the continuation")
    try:
        b = lib.one("adf::Adf::two_val_model_counts_logic")
    except LookupError as e:
        ctx.lost(rule, "two_val_model_counts_logic", str(e))
        return
    roles, _ = flow.closure_roles(b)
    cubes = None
    for c in lib.closures_of(b):
        r = roles.get(c.path)
        if r is not None and r.adaptor == "for_each":
            src, steps = r.receiver_chain()
            if src[0] == "call" and flow.fname(src[1]) == "Bdd::interpretations":
                cubes = (c, r, src)
    if cubes is None:
        ctx.lost(rule, "cube-closure", "for_each over Bdd::interpretations(..).iter()")
        return
    c, r, src = cubes
    caps = flow.resolve_captures(lib, c) or []
    # parent side: interpretations(self.bdd, ac, goal, Var(idx), [], [])
    iargs = src[3]
    goal_e, gvar_e = iargs[2], iargs[3]
    role = {}
    for k, ce in enumerate(caps):
        if flow.is_oparam(ce, 2, "Adf::two_val_model_counts_logic"):
            role[k] = "interpr"
        elif flow.is_oparam(ce, 3, "Adf::two_val_model_counts_logic"):
            role[k] = "will_be"
        elif flow.is_oparam(ce, 1, "Adf::two_val_model_counts_logic"):
            role[k] = "self"
        elif flow.strip_owner(ce) == flow.strip_owner(goal_e) if hasattr(flow, "strip_owner") else flow.show(ce) == flow.show(goal_e):
            role[k] = "goal"
    # the goal capture: the capture whose expression is the goal argument; the idx capture: contained in the goal_var argument
    for k, ce in enumerate(caps):
        if k in role:
            continue
        if flow.show(ce).replace("two_val_model_counts_logic.", "") == flow.show(goal_e):
            role[k] = "goal"
        elif flow.find(gvar_e, lambda n_: flow.show(n_) == flow.show(ce).replace("two_val_model_counts_logic.", "")):
            role[k] = "idx"
    have = set(role.values())
    ctx.ob(rule, "captures", {"interpr", "will_be", "self", "goal", "idx"} <= have, where=c.where(), expected="the cube closure captures interpr, will_be, self, the goal flag and the chosen index - the same values that are handed to interpretations",
           found="%s; interpretations(.., %s, %s, ..)" % (sorted(have), flow.show(goal_e)[:80], flow.show(gvar_e)[:80]))
    if not {"interpr", "will_be", "self", "goal", "idx"} <= have:
        return
    inv = {v: k for k, v in role.items()}
    eng = ctx.engine([lib], no_inline={"adf_bdd::adf::Adf::two_val_model_counts_logic", "adf_bdd::adf::Adf::update_interpretation_fixpoint", "adf_bdd::adf::Adf::check_consistency"})
    n_rec = 0
    for goal in (True, False):
        st = symx.State()
        capvals = []
        for k in range(len(caps)):
            rl = role.get(k)
            capvals.append(symx.vbool(goal) if rl == "goal" else ("sym", rl or ("cap%d" % k)))
        env = eng.closure_env(st, c, capvals)
        item = ("tuple", (("sym", "neg"), ("sym", "pos")))
        for p in eng.summarise(c, [env, shared.ref_to(st, item)], st):
            rec = [e for e in effects_named(p, "Adf::two_val_model_counts_logic")]
            if not rec:
                continue
            n_rec += 1
            key = "goal=%s" % goal
            # (1) both passes succeeded
            both = False
            for e, v in p.cond:
                e = deep_strip(e)
                if e[0] == "app" and e[1] == "discr" and int_of(v) == 0:
                    x = deep_strip(e[2][0])
                    tfes = symx.find_all(x, lambda n_: n_[0] == "app" and flow.last(str(n_[1])) == "try_for_each")
                    comb = symx.find_all(x, lambda n_: n_[0] == "app" and str(n_[1]).startswith(("std::result::Result", "core::result::Result", "Result::")) or (n_[0] == "app" and flow.fname(str(n_[1])).startswith("Result::")))
                    names = set(flow.last(str(n_[1])) for n_ in comb)
                    over = set()
                    for t_ in tfes:
                        # every literal of the cube is examined: nothing but iter()/into_iter() between the literal list and try_for_each (a skipped literal is
                        # neither checked against the interpretation nor applied to it; third sweep: positive.iter().skip(1))
                        whole = all(flow.last(str(n_[1])) in ("iter", "into_iter", "deref", "as_slice", "&", "copied", "cloned", "as_ref", "borrow")
                                    for n_ in symx.find_all(t_[2][0], lambda n_: n_[0] == "app"))
                        if not whole:
                            continue
                        if symx.contains(t_[2][0], lambda n_: n_ == ("sym", "neg")):
                            over.add("neg")
                        if symx.contains(t_[2][0], lambda n_: n_ == ("sym", "pos")):
                            over.add("pos")
                    if over == {"neg", "pos"} and names <= {"and", "and_then"} and names:
                        both = True
            ctx.ob(rule, key + ".both-passes-ok", both, where=c.where(), expected="recursion only under negative.try_for_each(..).and(positive.try_for_each(..)).is_ok()", found=p.describe()[:260])
            # (2) new_int[idx] = TOP iff goal
            ims = [e for e in p.effects if e.get("kind") == "index_mut" and e["cell"] in p.state.written]
            okv = False
            for e in ims:
                idx = deep_strip(e["args"][1])
                val = shared.cls_of_term(deep_strip(p.state.cells[e["cell"]]))
                base = deep_strip(e["args"][0])
                if symx.contains(idx, lambda n_: n_ == ("sym", "idx")) and symx.contains(base, lambda n_: n_ == ("sym", "interpr")) and val == ("T" if goal else "B"):
                    okv = True
            ctx.ob(rule, key + ".chosen-statement-gets-goal-value", okv, where=c.where(), expected="new_int[idx] = %s" % ("TOP" if goal else "BOT"),
                   found=[(symx.show(deep_strip(e["args"][1]))[:40], symx.show(deep_strip(p.state.cells[e["cell"]]))[:40]) for e in ims])
            # (3) consistency test and recursion arguments
            upd = [e for e in effects_named(p, "Adf::update_interpretation_fixpoint")]
            cons = [(deep_strip(e), v) for e, v in p.cond if is_call(deep_strip(e), "Adf::check_consistency")]
            okc = len(upd) == 1 and len(cons) == 1 and int_of(cons[0][1]) == 1
            if okc:
                u = deep_strip(upd[0]["result"])
                ca = [deep_strip(a) for a in cons[0][0][2]]
                ra = [deep_strip(a) for a in rec[0]["args"]]
                okc = (len(ca) >= 3 and ca[1] == u and ca[2] == ("sym", "will_be") and len(ra) >= 3 and ra[1] == u and ra[2] == ("sym", "will_be")
                       and symx.contains(deep_strip(upd[0]["args"][1]), lambda n_: n_ == ("sym", "interpr")))
            ctx.ob(rule, key + ".consistent-update-recursed", okc, where=c.where(), expected="upd = update_interpretation_fixpoint(&new_int); check_consistency(&upd, will_be); logic(&upd, will_be, ..)",
                   found=p.describe()[:260])
    ctx.floor(rule, "recursing cube paths", n_rec, 2)
    # the other value: after the cubes of `goal`, the chosen statement is concluded to have the opposite value
    eng2 = ctx.engine([lib], no_inline={"adf_bdd::adf::Adf::two_val_model_counts_logic", "adf_bdd::adf::Adf::update_interpretation_fixpoint", "adf_bdd::adf::Adf::check_consistency",
                                        "adf_bdd::obdd::Bdd::interpretations", "adf_bdd::obdd::Bdd::paths"})
    st = symx.State()
    paths = eng2.summarise(b, [shared.ref_to(st, ("sym", "adf")), shared.ref_to(st, ("sym", "interpr")), shared.ref_to(st, ("sym", "will_be")), ("sym", "depth"), ("sym", "heu")], st)
    n2 = 0
    for p in paths:
        rec = effects_named(p, "Adf::two_val_model_counts_logic")
        if not rec:
            continue
        n2 += 1
        ie = effects_named(p, "Bdd::interpretations")
        if len(ie) != 1:
            ctx.cannot(rule, "other-value.interpretations", "one interpretations call on the path", b.where(), len(ie))
            continue
        goal_expr = deep_strip(ie[0]["args"][2])
        gvar = deep_strip(ie[0]["args"][3])
        gv = [v for e, v in p.cond if deep_strip(e) == goal_expr]
        if goal_expr[0] == "bool":
            goal = goal_expr[1]
        elif gv:
            goal = int_of(gv[0]) == 1
        else:
            ctx.cannot(rule, "other-value.goal", "the goal flag handed to interpretations is tested before the conclusion", b.where(), symx.show(goal_expr)[:160])
            continue
        idx = gvar[3][0][1] if gvar[0] == "adt" and gvar[1] == shared.VAR else None
        ims = [e for e in p.effects if e.get("kind") == "index_mut" and e["cell"] in p.state.written]
        upd = [e for e in ims if is_call(deep_strip(e["args"][0]), "Adf::update_interpretation_fixpoint")]
        okv = len(upd) == 1 and idx is not None and deep_strip(upd[0]["args"][1]) == deep_strip(idx) and shared.cls_of_term(deep_strip(p.state.cells[upd[0]["cell"]])) == ("B" if goal else "T")
        ctx.ob(rule, "other-value[goal=%s]" % goal, okv, where=b.where(), expected="upd_int[idx] = %s (the value not explored through the cubes)" % ("BOT" if goal else "TOP"),
               found=[(symx.show(deep_strip(e["args"][0]))[:50], symx.show(deep_strip(e["args"][1]))[:50], symx.show(deep_strip(p.state.cells[e["cell"]]))[:40]) for e in ims][:3])
        wb = [e for e in ims if not is_call(deep_strip(e["args"][0]), "Adf::update_interpretation_fixpoint") and symx.contains(deep_strip(e["args"][0]), lambda n_: n_ == ("sym", "will_be"))]
        ra = [deep_strip(a) for a in rec[0]["args"]]
        okr = (len(wb) == 1 and idx is not None and deep_strip(wb[0]["args"][1]) == deep_strip(idx) and len(ra) >= 3 and is_call(ra[1], "Adf::update_interpretation_fixpoint")
               and symx.contains(ra[2], lambda n_: n_ == ("sym", "will_be")))
        ctx.ob(rule, "other-value.recursion[goal=%s]" % goal, okr, where=b.where(), expected="must_be_new = will_be with [idx] fixed; logic(&upd_int, &must_be_new, ..)", found=[symx.show(a)[:80] for a in ra[1:3]])
    ctx.floor(rule, "conclusion paths", n2, 2)


def check(ctx):
    for cfg in configs(ctx.tier):
        ctx.cfg = cfg.name
        lib = ctx.load(cfg)
        n = shared.S_T_term(ctx, lib, which={"is_truth_value", "is_true", "compare_inf", "no_inf_inconsistency"})
        ctx.floor("S.T-term", "functions", n, 4)
        P_filter(ctx, lib)
        rule = "S.X-exhaust"
        ctx.rule(rule, "the cubes of Bdd::interpretations and the vectors returned by two_val_model_counts* are consumed only by non-short-circuiting "
                       "adaptors / exhaustive consumers (iter, for_each, append, into_iter, filter, collect ...)")
        nx = semantics.X_exhaust(ctx, lib, rule, ("obdd::Bdd::interpretations", "Adf::two_val_model_counts", "Adf::two_val_model_counts_logic"),
                                 only_fns={"Adf::two_val_model_counts_logic", "Adf::stable_count_optimisation_heu_a", "Adf::stable_count_optimisation_heu_b",
                                           "Adf::two_val_model_counts"})
        ctx.floor(rule, "counting-search chains", nx, 3)
        na = semantics.X_args(ctx, lib, rule, ("Adf::two_val_model_counts_logic",), only_fns={"Adf::two_val_model_counts_logic"})
        ctx.floor(rule, "recursion results appended", na, 2)
        rule = "S.F-reduct"
        ctx.rule(rule, "restriction idioms at the sites the counting search relies on: stability_check REDUCT, apply_interpretation and grounded_internal FULL, "
                       "the single-statement conclusion DECIDE-ONE")
        k, seen = semantics.F_restrict_native(ctx, lib, rule, only={"Adf::stability_check", "Adf::apply_interpretation", "Adf::grounded_internal", "Adf::two_val_model_counts_logic"})
        ctx.floor(rule, "native restriction sites", k, 4)
        T_cube(ctx, lib)
        T_choice(ctx, lib)
        F_branch(ctx, lib)
        deps.cubes(ctx, lib)
        deps.stability_check(ctx, lib)   # the final filter of both entry points
        deps.semantics_base(ctx, lib)
    deps.cli_plumbing(ctx)
