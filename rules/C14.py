"""C14 - persistence round trips."""
from mirlib import facts, flow, ir, symx
from mirlib.pat import ANY, ADT, C, CLOS, F, IDX, K, OP, P, TUP, V, match
from rules import kernel, shared, counts
from rules.kernel import deep_strip, strip, is_call, effects_named, unloop

EXPLANATION = """
Decided: C14.A-skip (census of the serde(skip) fields of Bdd per configuration against what fix_import re-derives:
index-aligned bookkeeping - var_deps under variablelist, count_cache under adhoccounting - is rebuilt for every node in
index order; memo tables and channel ends may stay empty; nodes, cache, ordering and ac are serialised), C14.P-fix (in the
CLI every serde_json::from_str::<Adf> is followed by fix_import on every path before any semantics call, in every bin
feature configuration), C14.F-replay (From<Vec<BddNode>> starts from Bdd::new and calls node(n.var(), n.lo(), n.hi())
for every element in order), C14.A-dto (BddNodeDb, VarContainerDb, SimplifiedAdf: every field is written from and read
into the accessor/field of the same name through to_string / parse only; ac handles are t.0.to_string() <-> Term(parse)),
C14.P-noclobber (every file-creating call in the CLI is reached only through the false edge of exists() on the same
path; the exists branch creates nothing), S.R-rec for the rebuilt counts/supports (attributed instances: fix_import,
generate_var_dependencies, modelcount_memoization), C06.A-serde, C14.P-fix-once (the repair step appends to var_deps and is therefore
applied only to freshly deserialised stores: every fix_import call site outside the repair chain has a serde_json::from_* receiver; the
rebuild-from-parts constructors must not repeat it)."""
NOT_DECIDED = "'Every semantics answer equals the original's' is behavioural; serde_json/bson round trips of primitive values are trusted."
TECHNIQUE = "static analysis: must-pass-through / dominance rules on the CLI's CFG, attribute census, accessor-field agreement via expression reconstruction, loop-cut summaries"

SEMANTICS_CALLS = ("::grounded", "::complete", "::stable", "::stable_nogood", "::stable_with_prefilter", "::stable_bdd_representation",
                   "::stable_count_optimisation_heu_a", "::stable_count_optimisation_heu_b", "::two_val_nogood_channel", "::stable_nogood_channel",
                   "::formulacounts", "::facet_count")


def lib_configs(tier):
    return facts.LIB_ALL if tier == "thorough" else facts.LIB_QUICK


def bin_configs(tier):
    return facts.BIN_ALL if tier == "thorough" else [facts.Config("bin"), facts.Config("bin", ["variablelist"])]


def A_skip(ctx, lib):
    rule = "C14.A-skip"
    ctx.rule(rule, "Bdd: nodes and cache serialised; skipped fields are var_deps, count_cache (rebuilt by fix_import when their feature is on), sender, receiver, "
                   "ite_cache, restrict_cache (may stay empty); Adf: ordering, bdd, ac serialised, only rng skipped; fix_import calls the support rebuild "
                   "unconditionally and, under adhoccounting, seeds the constants and runs modelcount_memoization(Term(i)) for i in 0..nodes.len()")
    feats = set(lib.features)
    try:
        a = lib.adt("obdd::Bdd")
        fields = {f["name"]: f for f in a["variants"][0]["fields"]}
        skipped = sorted(n for n, f in fields.items() if any("skip" in x for x in f["attrs"]))
        allowed = {"var_deps", "count_cache", "sender", "receiver", "ite_cache", "restrict_cache"}
        ctx.ob(rule, "Bdd.skipped-fields", set(skipped) <= allowed and "nodes" not in skipped and "cache" not in skipped, where="lib/src/obdd.rs",
               expected="skipped subset of %s" % sorted(allowed), found=skipped)
        new_fields = sorted(set(fields) - allowed - {"nodes", "cache"})
        ctx.ob(rule, "Bdd.field-census", not new_fields, where="lib/src/obdd.rs", expected="no unreviewed field", found=new_fields, kind="unreviewed")
    except LookupError as e:
        ctx.lost(rule, "Bdd", str(e))
    try:
        a = lib.adt("adf::Adf")
        fields = {f["name"]: f for f in a["variants"][0]["fields"]}
        skipped = sorted(n for n, f in fields.items() if any("skip" in x for x in f["attrs"]))
        ctx.ob(rule, "Adf.skipped-fields", skipped == ["rng"] and set(fields) == {"ordering", "bdd", "ac", "rng"}, where="lib/src/adf.rs", expected="only rng skipped", found=skipped)
    except LookupError as e:
        ctx.lost(rule, "Adf", str(e))
    try:
        a = lib.adt("datatypes::adf::VarContainer")
        fields = {f["name"]: f for f in a["variants"][0]["fields"]}
        skipped = sorted(n for n, f in fields.items() if any("skip" in x for x in f["attrs"]))
        ctx.ob(rule, "VarContainer.skipped-fields", not skipped and set(fields) == {"names", "mapping"}, where="lib/src/datatypes/adf.rs", expected="names and mapping serialised", found=sorted(fields))
    except LookupError as e:
        ctx.lost(rule, "VarContainer", str(e))
    # fix_import
    try:
        fi = lib.one("obdd::Bdd::fix_import")
        eng = ctx.engine([lib], no_inline={"adf_bdd::obdd::Bdd::modelcount_memoization", "adf_bdd::obdd::Bdd::generate_var_dependencies"})
        paths = eng.summarise(fi)
        rets = [p for p in paths if p.end == "return"]
        gen_calls = [len(effects_named(p, "Bdd::generate_var_dependencies")) for p in rets]
        ctx.ob(rule, "fix_import.rebuilds-supports", bool(rets) and all(n == 1 for n in gen_calls), where=fi.where(), expected="generate_var_dependencies() on every path", found=gen_calls)
        if "adhoccounting" in feats:
            steps = [p for p in paths if p.end == "backedge"]
            ok = False
            for p in steps:
                mm = effects_named(p, "Bdd::modelcount_memoization")
                if len(mm) == 1:
                    arg = deep_strip(unloop(mm[0]["args"][1]))
                    rng = symx.find_all(arg, lambda n: n[0] == "adt" and n[1].endswith("ops::Range"))
                    if arg[0] == "adt" and arg[1] == shared.TERM and rng:
                        r = rng[0]
                        ok = symx.adt_get(r, "start") == symx.vint(0) and is_call(deep_strip(symx.adt_get(r, "end")), "Vec::len") and \
                            symx.contains(symx.adt_get(r, "end"), lambda n: n[0] == "field" and n[2] == "nodes")
            ctx.ob(rule, "fix_import.rebuilds-counts", ok, where=fi.where(), expected="for i in 0..self.nodes.len() { modelcount_memoization(Term(i)) }", found=[p.describe()[:160] for p in steps][:2])
        # Adf::fix_import delegates
        af = lib.one("adf::Adf::fix_import")
        d = flow.Defs(af)
        calls = [flow.show(d.expr_call(t, bb)) for bb, t, ci in af.calls()]
        ok = any(match(d.expr_call(t, bb), C("Bdd::fix_import", F(P(1), "bdd"))) is not None for bb, t, ci in af.calls())
        ctx.ob(rule, "Adf::fix_import.delegates", ok, where=af.where(), expected="self.bdd.fix_import()", found=calls)
    except LookupError as e:
        ctx.lost(rule, "fix_import", str(e))


def F_replay(ctx, lib):
    rule = "C14.F-replay"
    ctx.rule(rule, "From<Vec<BddNode>> for Bdd: bdd = Bdd::new(); for node in nodes { bdd.node(node.var(), node.lo(), node.hi()) } ; bdd - every element, in order, "
                   "accessor i feeds parameter i")
    try:
        b = lib.one("obdd::Bdd as std::convert::From<std::vec::Vec<datatypes::bdd::BddNode>>>::from")
    except LookupError as e:
        ctx.lost(rule, "From<Vec<BddNode>>", str(e))
        return
    eng = ctx.engine([lib], no_inline={"adf_bdd::obdd::Bdd::node", "adf_bdd::obdd::Bdd::new"})
    st = symx.State()
    NODES = ("sym", "nodes")
    paths = eng.summarise(b, [NODES], st)
    seen = set()
    for p in paths:
        nodes_calls = effects_named(p, "Bdd::node")
        if p.end == "backedge":
            seen.add("step")
            ok = len(nodes_calls) == 1
            if ok:
                a = [deep_strip(unloop(x)) for x in nodes_calls[0]["args"]]
                item = a[1][1] if a[1][0] == "field" else None
                src_ok = item is not None and symx.contains(item, lambda n: n[0] == "app" and flow.last(n[1]) == "next") and symx.contains(item, lambda n: n == NODES) \
                    and not symx.contains(item, lambda n: n[0] == "app" and flow.last(n[1]) in flow.SHORT_CIRCUIT - {"next"} | {"rev", "filter", "skip", "step_by"})
                ok = src_ok and a[1] == ("field", item, "var") and a[2] == ("field", item, "lo") and a[3] == ("field", item, "hi")
                ok = ok and symx.contains(a[0], lambda n: is_call(n, "Bdd::new"))
            ctx.ob(rule, "step", ok, where=b.where(), expected="bdd.node(node.var(), node.lo(), node.hi()) for the loop item, on the store created by Bdd::new",
                   found=[symx.show(deep_strip(unloop(x)))[:100] for x in nodes_calls[0]["args"]] if nodes_calls else p.describe()[:200])
        elif p.end == "return":
            seen.add("done")
            r = deep_strip(unloop(p.ret))
            ctx.ob(rule, "returns-store", symx.contains(r, lambda n: is_call(n, "Bdd::new")) and not nodes_calls, where=b.where(), expected="the replayed store", found=symx.show(r)[:160])
    ctx.ob(rule, "cases", seen == {"step", "done"}, where=b.where(), expected="loop step and exit", found=sorted(seen))
    # the loop has a single exit (exhaustion)
    loops = b.natural_loops()
    ok = len(loops) == 1
    if ok:
        h = list(loops)[0]
        exits = set((x, s_) for x in loops[h] for s_ in b.succs(x) if s_ not in loops[h] and not (b.blocks[s_]["term"]["k"] == "unreachable"))
        ok = len(exits) == 1
    ctx.ob(rule, "single-exit", ok, where=b.where(), expected="the replay loop ends only when the vector is exhausted", found=len(loops))
    # accessors
    for acc in ("var", "lo", "hi"):
        try:
            ab = lib.one("datatypes::bdd::BddNode::" + acc)
            d = flow.Defs(ab)
            ctx.ob(rule, "accessor." + acc, d.expr_local(0) == ("field", ("param", 1), acc), where=ab.where(), expected="self." + acc, found=flow.show(d.expr_local(0)))
        except LookupError as e:
            ctx.lost(rule, "BddNode::" + acc, str(e))
    try:
        nb = lib.one("datatypes::bdd::BddNode::new")
        d = flow.Defs(nb)
        ok = match(d.expr_local(0), ADT("BddNode", var=P(1), lo=P(2), hi=P(3))) is not None
        ctx.ob(rule, "BddNode::new", ok, where=nb.where(), expected="Self { var, lo, hi }", found=flow.show(d.expr_local(0)))
    except LookupError as e:
        ctx.lost(rule, "BddNode::new", str(e))


def P_fix(ctx, bin_):
    rule = "C14.P-fix"
    ctx.rule(rule, "CLI: every serde_json::from_str::<Adf> is followed on every path by fix_import of the deserialised value before any semantics call or export")
    try:
        run = bin_.one("App::run")
    except LookupError as e:
        ctx.lost(rule, "App::run", str(e))
        return
    des = []
    for bb, t, ci in run.calls():
        p = ir.callee_path(ci) or ""
        if flow.sg(p).endswith("serde_json::from_str") or "serde_json::de::from_str" in flow.sg(p):
            args = (ci.get("args") or [])
            tys = [ir.ty_str(a) for a in args]
            if any(x.endswith("adf::Adf") for x in tys):
                des.append((bb, t))
    ctx.floor(rule, "deserialisations of Adf", len(des), 1)
    fix_blocks = set(run.call_blocks(lambda p, t: flow.sg(p).endswith("adf::Adf::fix_import")))
    sem_blocks = set(run.call_blocks(lambda p, t: any(flow.sg(p).endswith(s) for s in SEMANTICS_CALLS) or "serde_json::ser::to_writer" in flow.sg(p) or flow.sg(p).endswith("serde_json::to_writer")))
    d = flow.Defs(run)
    for bb, t in des:
        start = [t["t"]] if t["t"] is not None else []
        reach = run.reach_avoiding(start, fix_blocks)
        hit = sorted(reach & sem_blocks)
        ctx.ob(rule, "import@App::run", not hit, where=run.where(t.get("loc")), expected="fix_import before any semantics call / export on every path",
               found="reaches %s without fix_import" % [run.where(run.blocks[x]["term"].get("loc")) for x in hit[:4]] if hit else "all paths pass fix_import")
        # the repaired object is the deserialised one
        ok = False
        for fb in fix_blocks:
            e = d.expr_call(run.blocks[fb]["term"], fb)
            if e[0] == "call" and e[3] and flow.find(e[3][0], lambda n_: n_[0] == "call" and n_[4] == bb):
                ok = True
        ctx.ob(rule, "import@App::run.same-object", ok, where=run.where(t.get("loc")), expected="fix_import called on the deserialised Adf", found=ok)


def P_fix_once(ctx, crates, lib):
    rule = "C14.P-fix-once"
    ctx.rule(rule, "the repair step is applied only to a freshly deserialised store: every call of Adf::fix_import / Bdd::fix_import outside the chain Adf::fix_import -> "
                   "self.bdd.fix_import() -> generate_var_dependencies has a receiver that derives from a serde deserialisation, because generate_var_dependencies appends one "
                   "entry per node to var_deps (not idempotent: a second application shifts the table and later restrictions read the entry of another node); vacuous in "
                   "configurations without the variablelist feature or if the function resets the table first")
    try:
        gen = lib.one("obdd::Bdd::generate_var_dependencies")
    except LookupError as e:
        ctx.lost(rule, "generate_var_dependencies", str(e))
        return
    bodies = [gen] + lib.closures_of(gen, recursive=True)
    pushes = resets = 0
    for gb in bodies:
        for bb, t, ci in gb.calls():
            pth = ir.callee_path(ci) or ""
            if flow.last(pth) in ("push", "insert", "extend") and "Vec" in pth:
                pushes += 1
            if flow.last(pth) in ("clear", "truncate") and "Vec" in pth:
                resets += 1
        for bb, i, s_ in gb.statements():
            if s_["k"] == "assign" and [pe for pe in s_["pl"]["p"] if pe["k"] == "field" and pe.get("name") == "var_deps"] and s_["pl"]["p"][-1].get("name") == "var_deps":
                resets += 1
    if pushes == 0:
        ctx.ob(rule, "appends", True, where=gen.where(), expected="-", found="no var_deps bookkeeping in this configuration", nontrivial=False)
        return
    if resets:
        ctx.ob(rule, "appends", True, where=gen.where(), expected="-", found="generate_var_dependencies resets the table first: idempotent", nontrivial=False)
        return
    n = 0
    for cname, crate in crates.items():
        for b in crate.all_bodies:
            d = None
            for bb, t, ci in b.calls():
                pth = flow.sg(ir.callee_path(ci) or "")
                if not (pth.endswith("adf::Adf::fix_import") or pth.endswith("obdd::Bdd::fix_import") or pth.endswith("Bdd::generate_var_dependencies")):
                    continue
                n += 1
                fn = crate.enclosing_fn(b)
                owner = fn.qual if fn else b.qual
                d = d or flow.Defs(b)
                e = d.expr_call(t, bb)
                recv = e[3][0] if e[0] == "call" and e[3] else None
                # the chain itself
                if cname == "lib" and owner == "Adf::fix_import" and pth.endswith("obdd::Bdd::fix_import") and recv is not None and flow.find(recv, lambda n_: n_[0] == "field" and n_[2] == "bdd"):
                    ctx.ob(rule, "chain:Adf::fix_import", True, where=b.where(t.get("loc")), expected="self.bdd.fix_import()", found="ok", nontrivial=False)
                    continue
                if cname == "lib" and owner == "Bdd::fix_import" and pth.endswith("generate_var_dependencies"):
                    ctx.ob(rule, "chain:Bdd::fix_import", True, where=b.where(t.get("loc")), expected="self.generate_var_dependencies()", found="ok", nontrivial=False)
                    continue
                des = recv is not None and bool(flow.find(recv, lambda n_: n_[0] == "call" and "serde_json" in n_[1] and flow.last(n_[2]).startswith("from_")))
                ctx.ob(rule, "%s:%s" % (cname, owner), des, where=b.where(t.get("loc")), expected="receiver is a freshly deserialised Adf/Bdd (serde_json::from_*)",
                       found=flow.show(recv)[:200] if recv is not None else None)
    ctx.floor(rule, "repair-step call sites", n, 3 if "bin" in crates else 2)


def P_noclobber(ctx, bin_):
    rule = "C14.P-noclobber"
    ctx.rule(rule, "every file-creating call in the CLI (File::create, OpenOptions::open, fs::write, File::options) is reachable only through the false edge of "
                   "Path::exists() on the same path value; nothing is created on the exists branch")
    creators = []
    for b in bin_.all_bodies:
        for bb, t, ci in b.calls():
            p = flow.sg(ir.callee_path(ci) or "")
            if p.endswith(("fs::File::create", "fs::File::create_new", "fs::OpenOptions::open", "std::fs::write", "fs::File::options", "fs::copy", "fs::rename")):
                creators.append((b, bb, t, p))
    ctx.floor(rule, "file-creating calls", len(creators), 1)
    for b, bb, t, p in creators:
        if p.endswith("create_new"):
            ctx.ob(rule, "%s:%s" % (b.qual, flow.last(p)), True, where=b.where(t.get("loc")), expected="create_new never overwrites", found="create_new")
            continue
        d = flow.Defs(b)
        e = d.expr_call(t, bb)
        path_arg = e[3][0] if e[0] == "call" and e[3] else None
        dom = b.dominators()
        guard = None
        for gb, gt, gci in b.calls():
            gp = flow.sg(ir.callee_path(gci) or "")
            if gp.endswith("path::Path::exists") or gp.endswith("Path::try_exists"):
                ge = d.expr_call(gt, gb)
                same = ge[0] == "call" and path_arg is not None and pat_same(ge[3][0], path_arg)
                # the switch on its result
                sw = gt["t"]
                while sw is not None and b.blocks[sw]["term"]["k"] == "goto":
                    sw = b.blocks[sw]["term"]["t"]
                if sw is None or b.blocks[sw]["term"]["k"] != "switch":
                    continue
                st = b.blocks[sw]["term"]
                zero = [x[1] for x in st["targets"] if x[0] == "0"]
                if not zero:
                    continue
                false_bb, true_bb = zero[0], st["otherwise"]
                # create must be dominated by the false edge target and unreachable from the true edge without leaving through the join... use dominance
                if false_bb in dom.get(bb, set()) and same:
                    # nothing created on the exists branch: blocks dominated by true_bb contain no creator
                    dominated_true = [x for x in dom if true_bb in dom[x]]
                    clean = not any(cb_ == b and cbb in dominated_true for cb_, cbb, _, _ in creators)
                    guard = ("ok" if clean else "creates on the exists branch")
        ctx.ob(rule, "%s:%s" % (b.qual, flow.last(p)), guard == "ok", where=b.where(t.get("loc")), expected="dominated by the false edge of exists() on the same path",
               found=guard or "no dominating !exists() test on %s" % (flow.show(path_arg)[:80] if path_arg else None))


def pat_same(a, b):
    from mirlib.pat import skip_copies

    def norm(x):
        x = skip_copies(x)
        while x[0] == "call" and flow.last(x[2]) in ("as_ref", "deref", "as_path", "borrow") and x[3]:
            x = skip_copies(x[3][0])
        return x
    return norm(a) == norm(b)


def A_dto(ctx, server):
    rule = "C14.A-dto"
    ctx.rule(rule, "server DTOs: BddNodeDb{var,lo,hi} <-> BddNode via var().0 / lo().0 / hi().0 .to_string() and BddNode::new(Var(parse(var)), Term(parse(lo)), Term(parse(hi))); "
                   "VarContainerDb{names,mapping} <-> VarContainer names()/mappings(); SimplifiedAdf{ordering,bdd,ac} <-> Adf (ordering.into(), bdd.nodes mapped in order / "
                   "Bdd::from(vec), ac t.0.to_string() / Term(parse))")

    def one(sfx):
        r = [b for b in server.all_bodies if b.kind != "closure" and sfx in b.path]
        if len(r) != 1:
            raise LookupError("expected one body matching %s, found %d" % (sfx, len(r)))
        return r[0]
    # BddNode -> BddNodeDb
    try:
        b = server.trait_impl_fn("convert::From", "adf::BddNodeDb", "BddNode")
        d = flow.Defs(b)
        ret = d.expr_local(0)
        want = {n: C("to_string", F(C("BddNode::" + n, P(1)), "0")) for n in ("var", "lo", "hi")}
        ok = ret[0] == "adt" and all(match(dict(ret[3]).get(n, ("x",)), want[n]) is not None for n in want)
        ctx.ob(rule, "BddNode->BddNodeDb", ok, where=b.where(), expected="var: source.var().0.to_string(), lo: source.lo().0.to_string(), hi: source.hi().0.to_string()", found=flow.show(ret)[:260])
    except LookupError as e:
        ctx.lost(rule, "BddNode->BddNodeDb", str(e))
    try:
        b = server.trait_impl_fn("convert::From", "datatypes::bdd::BddNode", "adf::BddNodeDb")
        d = flow.Defs(b)
        ret = d.expr_local(0)

        def parsed(f):
            return C("unwrap", C("parse", F(P(1), f)))
        patn = C("BddNode::new", ADT("Var", _0=parsed("var")), ADT("Term", _0=parsed("lo")), ADT("Term", _0=parsed("hi")))
        ctx.ob(rule, "BddNodeDb->BddNode", match(ret, patn) is not None, where=b.where(), expected="BddNode::new(Var(var.parse()), Term(lo.parse()), Term(hi.parse()))", found=flow.show(ret)[:260])
    except LookupError as e:
        ctx.lost(rule, "BddNodeDb->BddNode", str(e))
    # VarContainer
    try:
        b = server.trait_impl_fn("convert::From", "adf::VarContainerDb", "VarContainer")
        d = flow.Defs(b)
        ret = d.expr_local(0)
        fs = dict(ret[3]) if ret[0] == "adt" else {}
        okn = "names" in fs and bool(flow.find(fs["names"], lambda n_: n_[0] == "call" and flow.fname(n_[1]) == "VarContainer::names")) and not flow.find(fs["names"], lambda n_: n_[0] == "call" and flow.fname(n_[1]) == "VarContainer::mappings")
        okm = "mapping" in fs and bool(flow.find(fs["mapping"], lambda n_: n_[0] == "call" and flow.fname(n_[1]) == "VarContainer::mappings")) and not flow.find(fs["mapping"], lambda n_: n_[0] == "call" and flow.fname(n_[1]) == "VarContainer::names")
        ctx.ob(rule, "VarContainer->Db", okn and okm, where=b.where(), expected="names from names(), mapping from mappings()", found=flow.show(ret)[:300])
        # mapping closure: (k.clone(), v.to_string())
        for c in server.closures_of(b):
            cret = flow.closure_ret(server, c)
            ctx.ob(rule, "VarContainer->Db.entry", match(cret, TUP(F(P(2), "0"), C("to_string", F(P(2), "1")))) is not None, where=c.where(), expected="(k.clone(), v.to_string())", found=flow.show(cret)[:160])
    except LookupError as e:
        ctx.lost(rule, "VarContainer->Db", str(e))
    try:
        b = server.trait_impl_fn("convert::From", "datatypes::adf::VarContainer", "adf::VarContainerDb")
        d = flow.Defs(b)
        ret = d.expr_local(0)
        e = match(ret, C("VarContainer::from_parser", V("n"), V("m")))
        ok = e is not None and bool(flow.find(e["n"], lambda n_: n_ == ("field", ("param", 1), "names"))) and bool(flow.find(e["m"], lambda n_: n_ == ("field", ("param", 1), "mapping"))) \
            and not flow.find(e["n"], lambda n_: n_ == ("field", ("param", 1), "mapping"))
        ctx.ob(rule, "Db->VarContainer", ok, where=b.where(), expected="from_parser(names, mapping parsed back)", found=flow.show(ret)[:300])
        for c in server.closures_of(b):
            cret = flow.closure_ret(server, c)
            ctx.ob(rule, "Db->VarContainer.entry", match(cret, TUP(F(P(2), "0"), C("unwrap", C("parse", F(P(2), "1"))))) is not None, where=c.where(), expected="(k, v.parse().unwrap())", found=flow.show(cret)[:160])
    except LookupError as e:
        ctx.lost(rule, "Db->VarContainer", str(e))
    # every conversion carries every element, in order: no skip / take / rev / sort / filter-like adaptor anywhere in the From impls of the DTO types
    from rules import server as S_
    n_conv = 0
    for b_ in server.all_bodies:
        if b_.kind == "closure" or "convert::From" not in b_.path or "::from" not in b_.path:
            continue
        if not any(x in b_.path for x in ("BddNodeDb", "VarContainerDb", "SimplifiedAdf")):
            continue
        n_conv += 1
        bad = S_.lossy_calls(server, b_)
        ctx.ob(rule, "exhaustive:%s" % b_.qual, not bad, where=b_.where(), expected="every element is converted, in order", found=bad[:3])
    ctx.floor(rule, "DTO conversions", n_conv, 6)
    # Adf <-> SimplifiedAdf
    try:
        b = server.trait_impl_fn("convert::From", "adf::SimplifiedAdf", "adf::Adf")
        d = flow.Defs(b)
        ret = d.expr_local(0)
        fs = dict(ret[3]) if ret[0] == "adt" else {}
        ok_o = "ordering" in fs and match(fs["ordering"], C("into", F(P(1), "ordering"))) is not None
        e_b = match(fs.get("bdd", ("x",)), C("collect", C("map", C("into_iter", F(F(P(1), "bdd"), "nodes")), V("conv"))))
        e_a = match(fs.get("ac", ("x",)), C("collect", C("map", C("into_iter", F(P(1), "ac")), CLOS("acm"))))
        ok_a = False
        if e_a:
            cret = flow.closure_ret(server, server.body(e_a["acm"]))
            ok_a = match(cret, C("to_string", F(P(2), "0"))) is not None
        ctx.ob(rule, "Adf->SimplifiedAdf", ok_o and e_b is not None and ok_a, where=b.where(),
               expected="ordering.into(), bdd.nodes.into_iter().map(Into::into).collect(), ac.into_iter().map(|t| t.0.to_string()).collect()", found=flow.show(ret)[:400])
    except LookupError as e:
        ctx.lost(rule, "Adf->SimplifiedAdf", str(e))
    try:
        b = server.trait_impl_fn("convert::From", "adf_bdd::adf::Adf", "adf::SimplifiedAdf")
        d = flow.Defs(b)
        ret = d.expr_local(0)
        e = match(ret, C("from", TUP(C("into", F(P(1), "ordering")), C("from", C("collect", C("map", C("into_iter", F(P(1), "bdd")), ANY))),
                                     C("collect", C("map", C("into_iter", F(P(1), "ac")), CLOS("acm"))))))
        ok = e is not None
        if ok:
            cret = flow.closure_ret(server, server.body(e["acm"]))
            ok = match(cret, ADT("Term", _0=C("unwrap", C("parse", P(2))))) is not None
            # the middle element is Bdd::from(Vec<BddNode>)
            mid = ret[3][0][1][1]
            ok = ok and mid[0] == "call" and "obdd::Bdd" in mid[1] and "From" in mid[1]
        ctx.ob(rule, "SimplifiedAdf->Adf", ok, where=b.where(), expected="Adf::from((ordering.into(), Bdd::from(nodes in order), ac mapped Term(parse)))", found=flow.show(ret)[:400])
    except LookupError as e:
        ctx.lost(rule, "SimplifiedAdf->Adf", str(e))


def adf_from_tuple(ctx, lib):
    rule = "C14.A-dto"
    try:
        b = lib.one("adf::Adf as std::convert::From<(datatypes::adf::VarContainer, obdd::Bdd, std::vec::Vec<datatypes::bdd::Term>)>>::from")
        d = flow.Defs(b)
        ret = d.expr_local(0)
        ok = match(ret, ADT("Adf", ordering=F(P(1), "0"), bdd=F(P(1), "1"), ac=F(P(1), "2"))) is not None
        ctx.ob(rule, "Adf::from(tuple)", ok, where=b.where(), expected="Adf { ordering: source.0, bdd: source.1, ac: source.2, .. }", found=flow.show(ret)[:200])
    except LookupError as e:
        ctx.lost(rule, "Adf::from(tuple)", str(e))


def check(ctx):
    from rules import C06
    for cfg in lib_configs(ctx.tier):
        ctx.cfg = cfg.name
        lib = ctx.load(cfg)
        A_skip(ctx, lib)
        F_replay(ctx, lib)
        C06.A_serde(ctx, lib)
        adf_from_tuple(ctx, lib)
        counts.R_rec_support(ctx, lib, rule="S.R-rec")
        counts.R_rec_counts(ctx, lib, rule="S.R-rec")
    for cfg in bin_configs(ctx.tier):
        ctx.cfg = cfg.name
        bin_ = ctx.load(cfg)
        P_fix(ctx, bin_)
        P_noclobber(ctx, bin_)
    ctx.cfg = "server@default"
    server = ctx.load(facts.Config("server"))
    A_dto(ctx, server)
    # repair step applied once, to deserialised stores only (all three crates; lib per configuration)
    bin_ = ctx.load(facts.Config("bin"))
    for cfg in lib_configs(ctx.tier):
        ctx.cfg = cfg.name
        lib = ctx.load(cfg)
        P_fix_once(ctx, {"lib": lib, "bin": bin_, "server": server}, lib)
