"""C18 - nogood store."""
import itertools

from mirlib import facts, flow, ir, symx
from mirlib.symx import mk_adt, show, vbool, vint
from rules import kernel, shared
from rules.kernel import deep_strip, strip, is_call, effects_named, cond_val, int_of

EXPLANATION = """
Decided: C18.T-prim (bit-slice domain: the symbolic summaries of NoGood::{is_violating, conclude, disjunction, eq,
len, is_empty, new_single_nogood} are evaluated over every assignment of the four input bitmaps on up to 3 positions
- positions are independent, so this is the complete 16-row slice plus the cardinality cases 0/1/>=2 - and compared
with the specification D.6; from_term_vec / update_term_vec closure tables over the term-class domain;
try_from_pair_iter conflict rule), C18.T-conflict (the merge step of `conclusions` answers 'conflict' only if a
jointly active position carries different values), C18.T-subsume (add_ng removes a stored nogood only if the new one
subsumes it and leaves the new one out only if it is empty, a duplicate, or subsumed by a stored one - receiver/argument
direction of the subsumption tests), C18.P-final (a `Some` result of `conclusions` is dominated by the scan that returns
`None` if any stored nogood of admissible size matches the interpretation or the result)."""
NOT_DECIDED = "Closure over arbitrary add sequences and the fixpoint iteration of conclusion_closure (only its exits are checked); roaring bitmap set algebra is trusted."
TECHNIQUE = "static analysis: symbolic MIR summaries evaluated over a finite bit-slice domain against specification tables; closure-role/provenance rules on the store"

NG = "adf_bdd::nogoods::NoGood"


def configs(tier):
    return facts.LIB_ALL if tier == "thorough" else [facts.Config("lib")]


# ------------------------------------------------------------------ bitmap expression evaluator
class NotBits(Exception):
    pass


def popcount(x):
    return bin(x).count("1")


def ev(v, env, n):
    """evaluate a symx value over n-bit bitmaps; env maps symbols to ints"""
    v = strip(v)
    if v in env:
        return env[v]
    t = v[0]
    if t == "int":
        if v[1] != v[2]:
            raise NotBits("interval")
        return v[1]
    if t == "bool":
        return v[1]
    if t == "lin":
        r = v[1]
        for a, c in v[2]:
            r += c * ev(a, env, n)
        return r
    if t == "adt" and v[2] in ("Some", "None"):
        if v[2] == "None":
            return None
        return ("Some", ev(v[3][0][1], env, n))
    if t == "tuple":
        return tuple(ev(x, env, n) for x in v[1])
    if t == "field" and v[2] == "0" and strip(v[1])[0] == "downcast" and strip(v[1])[2] == "Some":
        x = ev(strip(v[1])[1], env, n)
        if isinstance(x, tuple) and x and x[0] == "Some":
            return x[1]
        raise NotBits("payload of %s" % show(v)[:120])
    if t == "app":
        name = v[1]
        args = v[2]
        if name in ("Eq", "Ne", "Lt", "Le", "Gt", "Ge"):
            a, b = ev(args[0], env, n), ev(args[1], env, n)
            return {"Eq": a == b, "Ne": a != b, "Lt": a < b, "Le": a <= b, "Gt": a > b, "Ge": a >= b}[name]
        if name == "Not":
            return not ev(args[0], env, n)
        if name == "discr" and len(args) == 1:
            # discriminant of an Option computed from bitmaps (`match x.min() { Some(p) if .. }`): None = 0, Some = 1
            x = ev(args[0], env, n)
            if x is None:
                return 0
            if isinstance(x, tuple) and x and x[0] == "Some":
                return 1
            raise NotBits("discriminant of %s" % show(args[0])[:120])
        if name in ("BitAnd", "BitOr", "BitXor") and len(args) == 2:
            a, b = ev(args[0], env, n), ev(args[1], env, n)
            if isinstance(a, bool) and isinstance(b, bool):
                return {"BitAnd": a and b, "BitOr": a or b, "BitXor": a != b}[name]
        upd = name.startswith("upd:")
        ln = flow.last(name[4:] if upd else name)
        if ln in ("bitand", "bitand_assign"):
            return ev(args[0], env, n) & ev(args[1], env, n)
        if ln in ("bitor", "bitor_assign"):
            return ev(args[0], env, n) | ev(args[1], env, n)
        if ln in ("bitxor", "bitxor_assign"):
            return ev(args[0], env, n) ^ ev(args[1], env, n)
        if ln in ("sub", "sub_assign") and "roaring" in name:
            return ev(args[0], env, n) & ~ev(args[1], env, n)
        if ln == "len" and not upd:
            return popcount(ev(args[0], env, n))
        if ln == "is_empty" and not upd:
            return ev(args[0], env, n) == 0
        if ln == "contains" and not upd:
            return bool((ev(args[0], env, n) >> ev(args[1], env, n)) & 1)
        if ln == "min" and not upd:
            x = ev(args[0], env, n)
            if x == 0:
                return None
            return ("Some", (x & -x).bit_length() - 1)
        if ln == "max" and not upd:
            x = ev(args[0], env, n)
            if x == 0:
                return None
            return ("Some", x.bit_length() - 1)
        if ln in ("unwrap", "expect"):
            x = ev(args[0], env, n)
            if x is None:
                raise NotBits("unwrap of None")
            return x[1] if isinstance(x, tuple) and x and x[0] == "Some" else x
        if ln in ("try_into", "into", "from", "try_from") or name.startswith("cast:"):
            return ev(args[0], env, n)
        if ln == "insert" and upd:
            return ev(args[0], env, n) | (1 << ev(args[1], env, n))
        if ln == "remove" and upd:
            return ev(args[0], env, n) & ~(1 << ev(args[1], env, n))
        if ln in ("default", "new") and not args:
            return 0
        if ln == "clone":
            return ev(args[0], env, n)
    raise NotBits("cannot evaluate %s" % show(v)[:160])


def eval_paths(paths, env, n):
    """the path whose condition holds under env -> (path, evaluated ret) ; exactly one must hold"""
    hit = []
    for p in paths:
        ok = True
        for e, v in p.cond:
            got = ev(e, env, n)
            want = v
            if want[0] == "int":
                w = want[1]
                g = int(got) if isinstance(got, bool) else got
                if g != w:
                    ok = False
                    break
            elif want[0] == "notin":
                g = int(got) if isinstance(got, bool) else got
                if g in want[1]:
                    ok = False
                    break
            else:
                raise NotBits("condition value %r" % (want,))
        if ok:
            hit.append(p)
    if len(hit) != 1:
        raise NotBits("%d paths enabled" % len(hit))
    return hit[0]


def all_models(nmax=3):
    for n in range(0, nmax + 1):
        for sa, sv, oa, ov in itertools.product(range(1 << n), repeat=4):
            # value bits are only meaningful where active; keep all (the code must cope), but the
            # NoGood invariant value <= active is what every constructor establishes
            if sv & ~sa or ov & ~oa:
                continue
            yield n, sa, sv, oa, ov


SA, SV, OA, OV = ("sym", "sa"), ("sym", "sv"), ("sym", "oa"), ("sym", "ov")


def ng_val(a, v):
    return mk_adt(NG, "NoGood", [("active", a), ("value", v)])


def spec_is_violating(n, sa, sv, oa, ov):
    return all((not (sa >> i) & 1) or (((oa >> i) & 1) and (((sv >> i) & 1) == ((ov >> i) & 1))) for i in range(n))


def spec_conclude(n, sa, sv, oa, ov):
    missing = [i for i in range(n) if (sa >> i) & 1 and not (oa >> i) & 1]
    agree = all((not ((sa >> i) & 1 and (oa >> i) & 1)) or (((sv >> i) & 1) == ((ov >> i) & 1)) for i in range(n))
    if len(missing) == 1 and agree:
        p = missing[0]
        return ("Some", (p, not bool((sv >> p) & 1)))
    return None


def T_prim(ctx, lib):
    rule = "C18.T-prim"
    ctx.rule(rule, "bit-slice domain, all assignments of (self.active, self.value, other.active, other.value) on <= 3 positions with value <= active: "
                   "is_violating(s,o) <=> forall pos s_a -> (o_a and (s_v <-> o_v)); conclude(s,o) = Some((p, not s_v[p])) iff {pos: s_a and not o_a} = {p} "
                   "and forall pos (s_a and o_a) -> (s_v <-> o_v), else None; disjunction = pointwise or; eq = pointwise equality; len = |active|; "
                   "new_single_nogood(p,b): active={p}, value={p} iff b; from_term_vec: active <=> decided, value <=> TOP; update_term_vec: active -> "
                   "TOP/BOT by value else unchanged, update <=> some active position was undecided; try_from_pair_iter: None iff empty or conflicting")
    eng = ctx.engine([lib])
    nfun = 0

    def run2(name):
        b = lib.one("nogoods::NoGood::" + name if "::" not in name else name)
        st = symx.State()
        a0 = shared.ref_to(st, ng_val(SA, SV))
        a1 = shared.ref_to(st, ng_val(OA, OV))
        paths = eng.summarise(b, [a0, a1][:b.argc], st)
        return b, paths, (a0, a1)

    # ---- is_violating / conclude / eq
    for name, spec in (("is_violating", spec_is_violating), ("conclude", spec_conclude),
                       ("nogoods::NoGood as std::cmp::PartialEq>::eq", lambda n, sa, sv, oa, ov: sa == oa and sv == ov)):
        try:
            b, paths, _ = run2(name)
        except LookupError as e:
            ctx.lost(rule, name, str(e))
            continue
        nfun += 1
        short = name.split("::")[-1]
        bad = None
        cnt = 0
        try:
            for n, sa, sv, oa, ov in all_models():
                env = {SA: sa, SV: sv, OA: oa, OV: ov}
                p = eval_paths(paths, env, n)
                if p.end != "return":
                    bad = "path ends with %s for %s" % (p.end, (n, sa, sv, oa, ov))
                    break
                got = ev(p.ret, env, n)
                want = spec(n, sa, sv, oa, ov)
                cnt += 1
                if got != want:
                    bad = "positions=%d self=(active %s, value %s) other=(active %s, value %s): returns %s, specification %s" % (
                        n, bin(sa), bin(sv), bin(oa), bin(ov), got, want)
                    break
        except NotBits as e:
            ctx.cannot(rule, short, "summary over bitmap operations only", b.where(), str(e))
            continue
        ctx.ob(rule, short, bad is None, where=b.where(), expected="specification D.6 on all %d slice models" % cnt, found=bad or "agrees on %d models" % cnt)
    # ---- disjunction (effect on self)
    try:
        b, paths, (a0, a1) = run2("disjunction")
        nfun += 1
        bad = None
        for p in paths:
            after = strip(symx.deref_val(eng, p.state, a0))
            for n, sa, sv, oa, ov in all_models(2):
                env = {SA: sa, SV: sv, OA: oa, OV: ov}
                ga = ev(symx.adt_get(after, "active"), env, n)
                gv = ev(symx.adt_get(after, "value"), env, n)
                if ga != (sa | oa) or gv != (sv | ov):
                    bad = "self=(%s,%s) other=(%s,%s): becomes (%s,%s)" % (bin(sa), bin(sv), bin(oa), bin(ov), bin(ga), bin(gv))
                    break
            other_after = strip(symx.deref_val(eng, p.state, a1))
            if other_after != ng_val(OA, OV):
                bad = "other is modified"
        ctx.ob(rule, "disjunction", bad is None and len(paths) == 1, where=b.where(), expected="active |= other.active; value |= other.value", found=bad or "pointwise or")
    except (LookupError, NotBits) as e:
        ctx.cannot(rule, "disjunction", "summary over bitmap operations", None, str(e))
    # ---- len / is_empty
    for name, spec in (("len", lambda n, sa: popcount(sa)), ("is_empty", lambda n, sa: sa == 0)):
        try:
            b = lib.one("nogoods::NoGood::" + name)
            nfun += 1
            st = symx.State()
            paths = eng.summarise(b, [shared.ref_to(st, ng_val(SA, SV))], st)
            bad = None
            for n in range(0, 4):
                for sa in range(1 << n):
                    env = {SA: sa, SV: 0}
                    p = eval_paths(paths, env, n)
                    got = ev(p.ret, env, n)
                    if got != spec(n, sa):
                        bad = "active=%s: %s" % (bin(sa), got)
            ctx.ob(rule, name, bad is None, where=b.where(), expected="|active|" if name == "len" else "active empty", found=bad or "agrees")
        except (LookupError, NotBits) as e:
            ctx.cannot(rule, name, "summary over bitmap operations", None, str(e))
    # ---- new_single_nogood
    try:
        b = lib.one("nogoods::NoGood::new_single_nogood")
        nfun += 1
        bad = None
        for pos in (0, 2):
            for val in (True, False):
                paths = eng.summarise(b, [vint(pos), vbool(val)])
                for p in paths:
                    if p.end != "return":
                        continue
                    r = strip(p.ret)
                    ga = ev(symx.adt_get(r, "active"), {}, 3)
                    gv = ev(symx.adt_get(r, "value"), {}, 3)
                    if ga != (1 << pos) or gv != ((1 << pos) if val else 0):
                        bad = "(%d,%s) -> active %s value %s" % (pos, val, bin(ga), bin(gv))
        ctx.ob(rule, "new_single_nogood", bad is None, where=b.where(), expected="active={pos}, value={pos} iff val", found=bad or "agrees")
    except (LookupError, NotBits) as e:
        ctx.cannot(rule, "new_single_nogood", "summary over bitmap operations", None, str(e))
    # ---- from_term_vec closure table
    try:
        b = lib.one("nogoods::NoGood::from_term_vec")
        nfun += 1
        roles, defs = flow.closure_roles(b)
        fe = [r for r in roles.values() if r.adaptor == "for_each"]
        ok_chain = len(fe) == 1 and fe[0].receiver_chain()[0] == ("param", 1) and [s_[0] for s_ in fe[0].receiver_chain()[1]] == ["iter", "enumerate"]
        ctx.ob(rule, "from_term_vec.chain", ok_chain, where=b.where(), expected="term_vec.iter().enumerate().for_each(..)", found=[r.adaptor for r in roles.values()])
        if fe:
            cb = lib.body(fe[0].closure_def)
            for c in shared.CLASSES:
                st = symx.State()
                caps = flow.resolve_captures(lib, cb) or []
                cells = {}
                capvals = []
                for ce in caps:
                    nm = ce[2] if ce[0] == "field" else "whole"
                    if nm == "whole":
                        cells[nm] = shared.ref_to(st, ng_val(("sym", "ra"), ("sym", "rv")))
                    else:
                        cells[nm] = shared.ref_to(st, ("sym", "ra" if nm == "active" else "rv"))
                    capvals.append(cells[nm])
                env = eng.closure_env(st, cb, capvals)
                item = ("tuple", (vint(1), shared.ref_to(st, shared.term(c))))
                paths = [p for p in eng.summarise(cb, [env, item], st) if p.end == "return"]
                got = set()
                for p in paths:
                    e0 = {("sym", "ra"): 0, ("sym", "rv"): 0}
                    if "whole" in cells:
                        after = strip(symx.deref_val(eng, p.state, cells["whole"]))
                        ga, gv = ev(symx.adt_get(after, "active"), e0, 3), ev(symx.adt_get(after, "value"), e0, 3)
                    else:
                        ga = ev(symx.deref_val(eng, p.state, cells["active"]), e0, 3)
                        gv = ev(symx.deref_val(eng, p.state, cells["value"]), e0, 3)
                    got.add((ga, gv))
                want = {"B": (2, 0), "T": (2, 2), "U": (0, 0)}[c]
                ctx.ob(rule, "from_term_vec[%s]" % c, got == {want}, where=cb.where(), expected="(active,value) bits at idx = %s" % (want,), found=sorted(got))
    except (LookupError, NotBits) as e:
        ctx.cannot(rule, "from_term_vec", "closure table", None, str(e))
    # ---- update_term_vec closure table
    try:
        b = lib.one("nogoods::NoGood::update_term_vec")
        nfun += 1
        roles, defs = flow.closure_roles(b)
        mp = [r for r in roles.values() if r.adaptor == "map"]
        ok_chain = len(mp) == 1 and mp[0].receiver_chain()[0] == ("param", 2) and [s_[0] for s_ in mp[0].receiver_chain()[1]] == ["iter", "enumerate"]
        ret = defs.expr_local(0)
        ok_chain = ok_chain and ret[0] == "call" and flow.last(ret[2]) == "collect" and ret[3][0] == mp[0].call
        ctx.ob(rule, "update_term_vec.chain", ok_chain, where=b.where(), expected="term_vec.iter().enumerate().map(..).collect()", found=flow.show(ret)[:200])
        if mp:
            cb = lib.body(mp[0].closure_def)
            caps = [c_ for c_ in mp[0].call[3][mp[0].arg_index][2]]
            for active in (0, 1):
                for value in (0, 1):
                    if value and not active:
                        continue
                    for c in shared.CLASSES:
                        st = symx.State()
                        UPD = st.new_cell(("sym", "upd0"))
                        capvals = []
                        for ce in caps:
                            if ce == ("param", 1):
                                capvals.append(ng_val(vint(active << 1), vint(value << 1)))
                            elif ce == ("param", 3):
                                capvals.append(("ref", UPD, ()))
                            else:
                                capvals.append(("sym", "cap"))
                        # bitmaps as concrete ints: contains() is evaluated by a call hook
                        def hook(eng_, st_, frame, path, target, args, t):
                            if flow.last(target) == "contains" and "roaring" in target:
                                bm = strip(symx.deref_val(eng_, st_, args[0]))
                                if bm[0] == "int" and args[1][0] == "int":
                                    return [(st_, vbool(bool((bm[1] >> args[1][1]) & 1)))]
                            return NotImplemented
                        eng.call_hook = hook
                        env = eng.closure_env(st, cb, capvals)
                        item = ("tuple", (vint(1), shared.ref_to(st, shared.term(c))))
                        paths = [p for p in eng.summarise(cb, [env, item], st) if p.end == "return"]
                        eng.call_hook = None
                        got = set()
                        for p in paths:
                            upd = p.state.cells[UPD]
                            got.add((shared.cls_of_term(p.ret) or show(p.ret), upd == vbool(True)))
                        if active:
                            want = ("T" if value else "B", c == "U")
                        else:
                            want = (c, False)
                        ctx.ob(rule, "update_term_vec[active=%d,value=%d,%s]" % (active, value, c), got == {want}, where=cb.where(),
                               expected="(result class, update set) = %s" % (want,), found=sorted(map(str, got)))
        # *update = false at entry
        first = None
        for bb, i, s_ in b.statements():
            if s_["k"] == "assign" and s_["pl"]["l"] == 3 and any(pe["k"] == "deref" for pe in s_["pl"]["p"]):
                first = s_["rv"]["o"]["v"].get("bool") if s_["rv"]["k"] == "use" and s_["rv"]["o"]["k"] == "const" else None
                break
        ctx.ob(rule, "update_term_vec.reset", first is False, where=b.where(), expected="*update = false before the scan", found=first)
    except (LookupError, NotBits) as e:
        ctx.cannot(rule, "update_term_vec", "closure table", None, str(e))
    # ---- try_from_pair_iter: loop body summary
    try:
        b = lib.one("nogoods::NoGood::try_from_pair_iter")
        nfun += 1
        paths = eng.summarise(b)
        seen = set()
        for p in paths:
            ins_a = [e for e in p.effects if e.get("kind") == "call" and flow.last(e["resolved"]) == "insert" and symx.contains(e["args"][0], lambda n_: n_[0] == "field" and n_[2] == "active" or True)]
            if p.end == "return" and strip(p.ret)[0] == "adt" and strip(p.ret)[2] == "None":
                # conflict exit: !is_new && upd
                conds = {show(deep_strip(e))[:60]: v for e, v in p.cond}
                seen.add("conflict-none")
            elif p.end == "return":
                seen.add("end")
            elif p.end == "backedge":
                seen.add("continue")
        ctx.ob(rule, "try_from_pair_iter.cases", {"end", "continue", "conflict-none"} <= seen, where=b.where(), expected="end / continue / conflict exits", found=sorted(seen))
        # the conflict exit requires: position already present (insert returned false) and value changed
        for p in paths:
            if p.end == "return" and strip(p.ret)[0] == "adt" and strip(p.ret)[2] == "None" and any(flow.last(e["resolved"]) == "insert" for e in p.effects if e.get("kind") == "call"):
                calls = [e for e in p.effects if e.get("kind") == "call" and flow.last(e["resolved"]) in ("insert", "remove") and "roaring" in e["resolved"]]
                is_new = [e for e in calls if symx.contains(e["args"][0], lambda n_: n_[0] == "field" and n_[2] == "active" or (n_[0] == "adt" and False))]
                first_ins = calls[0] if calls else None
                second = calls[1] if len(calls) > 1 else None
                c1 = cond_val(p, lambda e: first_ins is not None and e == deep_strip(first_ins["result"]))
                c2 = cond_val(p, lambda e: second is not None and e == deep_strip(second["result"]))
                ok = first_ins is not None and second is not None and int_of(c1) == 0 and int_of(c2) == 1
                ctx.ob(rule, "try_from_pair_iter.conflict-iff-present-and-changed", ok, where=b.where(),
                       expected="None only if active.insert(idx) = false (already present) and value.insert/remove(idx) = true (value changed)",
                       found=p.describe()[:300])
        # converse: whenever a pair repeats a position with a changed value the scan must stop with None
        for p in paths:
            calls = [e for e in p.effects if e.get("kind") == "call" and flow.last(e["resolved"]) in ("insert", "remove") and "roaring" in e["resolved"]]
            if len(calls) >= 2:
                c1 = cond_val(p, lambda e: e == deep_strip(calls[0]["result"]))
                c2 = cond_val(p, lambda e: e == deep_strip(calls[1]["result"]))
                if int_of(c1) == 0 and int_of(c2) == 1:
                    isn = p.end == "return" and strip(p.ret)[0] == "adt" and strip(p.ret)[2] == "None"
                    ctx.ob(rule, "try_from_pair_iter.conflict-always-none", isn, where=b.where(),
                           expected="a repeated position with a changed value always yields None", found=p.describe()[:300])
        # result Some only if visited
        ok_visit = False
        for p in paths:
            if p.end == "return" and is_call(strip(p.ret), "bool::then_some"):
                ok_visit = True
        ctx.ob(rule, "try_from_pair_iter.none-if-empty", ok_visit, where=b.where(), expected="visit.then_some(result)", found=[show(p.ret)[:80] for p in paths if p.end == "return"])
    except (LookupError, NotBits) as e:
        ctx.cannot(rule, "try_from_pair_iter", "loop summary", None, str(e))
    ctx.floor(rule, "primitives", nfun, 10)


# ------------------------------------------------------------------ store rules
def T_subsume(ctx, lib):
    rule = "C18.T-subsume"
    ctx.rule(rule, "add_ng: a stored nogood is removed only by retain(|old| !new.is_violating(old)) (new is a subset of old, i.e. subsumes it); the new "
                   "nogood is left out only if it is empty, equal to a stored one (Equiv) or old.is_violating(new) for a stored old (Subsume); "
                   "mode None always stores; the bucket is len-1")
    try:
        b = lib.one("nogoods::NoGoodStore::add_ng")
    except LookupError as e:
        ctx.lost(rule, "add_ng", str(e))
        return
    clos = lib.closures_of(b, recursive=True)
    eng = ctx.engine([lib], no_inline={"adf_bdd::nogoods::NoGood::is_violating"})
    n_ret = n_any = 0
    for c in clos:
        parent = lib.body(c.parent)
        roles, _ = flow.closure_roles(parent)
        r = roles.get(c.path)
        if r is None:
            continue
        if r.adaptor == "retain":
            n_ret += 1
            st = symx.State()
            NEW = ("sym", "new")
            OLD = ("sym", "old")
            env = eng.closure_env(st, c, [NEW] * 4)
            paths = [p for p in eng.summarise(c, [env, shared.ref_to(st, OLD)], st) if p.end == "return"]
            ok = False
            found = [show(p.ret)[:160] for p in paths]
            if len(paths) == 1:
                ret = strip(paths[0].ret)
                if ret[0] == "app" and ret[1] == "Not":
                    x = strip(ret[2][0])
                    if is_call(x, "NoGood::is_violating"):
                        recv, arg = deep_strip(x[2][0]), deep_strip(x[2][1])
                        ok = symx.contains(recv, lambda n_: n_ == NEW) and not symx.contains(recv, lambda n_: n_ == OLD) and arg == OLD
            ctx.ob(rule, "retain-keeps-unless-new-subsumes-old", ok, where=c.where(), expected="retain(|old| !new.is_violating(old))", found=found)
        elif r.adaptor == "any":
            st = symx.State()
            NEW = ("sym", "new")
            OLD = ("sym", "old")
            env = eng.closure_env(st, c, [NEW] * 4)
            item_ty = c.locals[2]["ty"]
            # the inner any over a bucket: item = &NoGood
            if item_ty.get("k") == "ref" and item_ty["to"].get("k") == "adt" and item_ty["to"]["path"].endswith("NoGood"):
                n_any += 1
                paths = [p for p in eng.summarise(c, [env, shared.ref_to(st, OLD)], st) if p.end == "return"]
                ok = False
                if len(paths) == 1:
                    x = strip(paths[0].ret)
                    if is_call(x, "NoGood::is_violating"):
                        recv, arg = deep_strip(x[2][0]), deep_strip(x[2][1])
                        ok = recv == OLD and symx.contains(arg, lambda n_: n_ == NEW)
                ctx.ob(rule, "skip-only-if-stored-subsumes-new", ok, where=c.where(), expected="any(|old| old.is_violating(new))", found=[show(p.ret)[:160] for p in paths])
    # (no floor on retain closures: not removing subsumed supersets only keeps the store larger - the excluded set is the same)
    ctx.floor(rule, "subsumption-skip closures", n_any, 1)
    # structure of the decision in add_ng itself (modes): summarise with closures opaque
    eng2 = ctx.engine([lib], no_inline={"adf_bdd::nogoods::NoGood::is_violating", "adf_bdd::nogoods::NoGood::len"})
    st = symx.State()
    STORE = shared.ref_to(st, ("sym", "store"))
    NEWV = ("sym", "newng")
    paths = eng2.summarise(b, [STORE, NEWV], st)
    modes = {}
    for p in paths:
        if p.end != "return":
            continue
        pushes = [e for e in effects_named(p, "Vec::push")]
        mode = cond_val(p, lambda e: e[0] == "app" and e[1] == "discr" and symx.contains(e, lambda n_: n_[0] == "field" and n_[2] == "duplicates"))
        empty = cond_val(p, lambda e: e[0] == "app" and e[1] in ("Gt", "Eq", "Ne", "Lt", "Ge", "Le") and symx.contains(e, lambda n_: is_call(n_, "NoGood::len")))
        if mode is None:
            if not pushes:
                modes.setdefault("empty", []).append(p)
            continue
        modes.setdefault(int_of(mode), []).append((p, pushes))
    # the empty nogood (the statement-less ADF produces it) is ignored without touching the store: every path that computes the bucket len-1 or indexes the store
    # carries len > 0 in its path condition (canonical forms of `idx > 0`, `idx >= 1`, `idx != 0`, `!is_empty()`); `idx >= 0` on usize guards nothing
    n_g = 0
    for p in paths:
        uses = [e for e in p.effects if e.get("kind") in ("index", "index_mut") or (e.get("kind") == "call" and flow.last(e["resolved"]) in ("push", "contains", "index", "index_mut"))]
        if not uses and not any(symx.contains(deep_strip(e), lambda n_: n_[0] == "lin" or (n_[0] == "app" and n_[1] in ("Sub", "SubWithOverflow"))) for e, v in p.cond):
            continue
        n_g += 1
        guarded = False
        for e, v in p.cond:
            e = deep_strip(e)
            if e[0] == "app" and len(e[2]) == 2 and is_call(deep_strip(e[2][0]), "NoGood::len") and deep_strip(e[2][1]) == vint(0):
                t = int_of(v) == 1
                if (e[1] == "Gt" and t) or (e[1] == "Ne" and t) or (e[1] == "Eq" and not t) or (e[1] == "Le" and not t):
                    guarded = True
            if is_call(e, "NoGood::is_empty") and int_of(v) == 0:
                guarded = True
        ctx.ob(rule, "empty-nogood-ignored", guarded, where=b.where(), expected="store access only under len > 0", found=p.describe()[:200])
    ctx.floor(rule, "paths that access the store", n_g, 1)
    # DuplicateElemination: None=0, Equiv=1, Subsume=2
    for m, name in ((0, "None"), (1, "Equiv"), (2, "Subsume")):
        entries = modes.get(m, [])
        if not entries:
            ctx.cannot(rule, "mode-%s" % name, "a path for the mode", b.where(), sorted(map(str, modes)))
            continue
        for p, pushes in entries:
            if pushes:
                tgt = deep_strip(pushes[0]["args"][0])
                val = deep_strip(pushes[0]["args"][1])
                idx_ok = tgt[0] == "index" and symx.contains(tgt[2], lambda n_: is_call(n_, "NoGood::len"))
                lin_ok = False
                if idx_ok:
                    i = tgt[2]
                    lin_ok = i[0] == "lin" and i[1] == -1
                ctx.ob(rule, "mode-%s.bucket" % name, len(pushes) == 1 and val == NEWV and idx_ok and lin_ok, where=b.where(),
                       expected="store[len-1].push(new)", found="%s <- %s" % (show(tgt)[:120], show(val)[:60]))
        if m == 0:
            ctx.ob(rule, "mode-None.always-stores", all(pushes for p, pushes in entries), where=b.where(), expected="always push", found=len(entries))
        if m == 1:
            for p, pushes in entries:
                c = None
                for e, v in p.cond:
                    e = deep_strip(e)
                    neg = False
                    if e[0] == "app" and e[1] == "Not":
                        e, neg = deep_strip(e[2][0]), True
                    if e[0] == "app" and flow.last(e[1]) == "contains" and deep_strip(e[2][1]) == NEWV and symx.contains(e[2][0], lambda n_: n_[0] == "field" and n_[2] == "store"):
                        c = vint(int_of(v) ^ 1) if neg else v
                ctx.ob(rule, "mode-Equiv.skip-iff-contained", c is not None and (int_of(c) == 0) == bool(pushes), where=b.where(),
                       expected="push iff !store[idx].contains(&new)", found=p.describe()[:200])
        if m == 2:
            for p, pushes in entries:
                c = cond_val(p, lambda e: is_call(e, "Iterator::any"))
                ctx.ob(rule, "mode-Subsume.skip-iff-subsumed", c is not None and (int_of(c) == 0) == bool(pushes), where=b.where(),
                       expected="push iff no stored nogood subsumes the new one", found=p.describe()[:200])
                rets = [e for e in p.effects if e.get("kind") == "call" and flow.last(e["resolved"]) in ("for_each", "retain", "iter_mut")]
                if not pushes:
                    ctx.ob(rule, "mode-Subsume.no-removal-when-skipped", not [e for e in rets if flow.last(e["resolved"]) == "for_each"], where=b.where(),
                           expected="nothing removed when the new nogood is not stored", found=[flow.last(e["resolved"]) for e in rets])


def merge_loop_form(ctx, lib, rule, b):
    """the merge written as a loop over the buckets: `for (..) in self.store.iter().enumerate() { let Some(n) = try_from_pair_iter(..) else { continue }; if <conflict(n, acc)>
    { return None } acc.disjunction(&n) }`.  One round is run symbolically: the loop's `next` yields bucket 0, try_from_pair_iter yields the conclusion N, the accumulated
    assignment starts as the interpretation A; the round must end in `return None` only under a genuine conflict and otherwise at the back edge with acc = A | N."""
    loops = b.natural_loops()
    calls, d = flow.all_call_exprs(b)
    tfp = [bb for bb, t, ci, e in calls if e[0] == "call" and flow.last(e[2]) == "try_from_pair_iter"]
    if len(tfp) != 1:
        return False
    cands = [(len(bl), h) for h, bl in loops.items() if tfp[0] in bl]
    if not cands:
        return False
    head = min(cands)[1]
    blocks = loops[head]
    nexts = [t for bb, t, ci, e in calls if bb in blocks and e[0] == "call" and flow.last(e[2]) == "next" and "d:ForLoop" in (t.get("exp") or [])]
    if len(nexts) != 1:
        return False
    nt = nexts[0]
    eng = ctx.engine([lib], no_inline={"adf_bdd::nogoods::NoGood::conclude"})
    st = symx.State()
    A = ng_val(SA, SV)
    N = ng_val(OA, OV)

    def hook(eng_, st_, frame, path, target, args, t):
        if t is nt or (t.get("loc") == nt.get("loc") and flow.last(target) == "next" and "d:ForLoop" in (t.get("exp") or [])):
            return [(st_, mk_adt("std::option::Option", "Some", [("0", ("tuple", (vint(0), shared.ref_to(st_, ("sym", "bucket")))))]))]
        if flow.last(target) == "try_from_pair_iter":
            return [(st_, mk_adt("std::option::Option", "Some", [("0", N)]))]
        return NotImplemented
    eng.call_hook = hook
    try:
        paths = eng.summarise(b, [shared.ref_to(st, ("sym", "store")), shared.ref_to(st, A)], st)
    finally:
        eng.call_hook = None
    rl = None
    for l, nme in b.local_names().items():
        if nme == "result":
            rl = l
    # the round: paths that end at the loop's back edge, or return from inside the loop (not after the final scan behind the loop)
    round_paths = [p for p in paths if (p.end == "backedge" and p.end_bb == head)
                   or (p.end == "return" and not any(is_call(deep_strip(ce), "Iterator::any") for ce, _ in p.cond))]
    if rl is None or not round_paths:
        return False
    # the accumulated assignment at the head of the loop is the loop-carried `result` (initialised with a copy of the interpretation): its two bitmaps are A
    lvs = set()
    for p in round_paths:
        for ce, _ in p.cond:
            for n_ in symx.find_all(ce, lambda n_: n_[0] == "loopvar" and n_[1] == head and n_[2] == rl):
                lvs.add(n_)
        v_ = p.locals.get(rl)
        if v_ is not None:
            for n_ in symx.find_all(v_, lambda n_: n_[0] == "loopvar" and n_[1] == head and n_[2] == rl):
                lvs.add(n_)
    bad = None
    cnt = 0
    try:
        for n, sa, sv, oa, ov in all_models():
            e = {SA: sa, SV: sv, OA: oa, OV: ov}
            for lv in lvs:
                e[("field", lv, "active")] = sa
                e[("field", lv, "value")] = sv
            hit = []
            for p in round_paths:
                okp = True
                for ce, cv in p.cond:
                    try:
                        got = ev(ce, e, n)
                    except NotBits:
                        continue        # conditions that do not depend on the two assignments (bucket index against the length, log level)
                    g = int(got) if isinstance(got, bool) else got
                    if cv[0] == "int" and g != cv[1]:
                        okp = False
                        break
                if okp:
                    hit.append(p)
            conflict = any((sa >> i) & 1 and (oa >> i) & 1 and ((sv >> i) & 1) != ((ov >> i) & 1) for i in range(n))
            cnt += 1
            for p in hit:
                if p.end == "return":
                    r = strip(p.ret)
                    is_none = r[0] == "adt" and r[2] == "None"
                    if is_none and not conflict:
                        bad = "positions=%d acc=(%s,%s) conclusion=(%s,%s): reports a conflict although no jointly active position differs" % (n, bin(sa), bin(sv), bin(oa), bin(ov))
                else:
                    after = strip(p.locals.get(rl))
                    if after[0] == "ref":
                        after = strip(symx.deref_val(eng, p.state, after))
                    ga, gv = ev(symx.adt_get(after, "active"), e, n), ev(symx.adt_get(after, "value"), e, n)
                    if conflict:
                        bad = "conflicting conclusion merged: acc=(%s,%s) conclusion=(%s,%s)" % (bin(sa), bin(sv), bin(oa), bin(ov))
                    elif ga != (sa | oa) or gv != (sv | ov):
                        bad = "merge of acc=(%s,%s) with (%s,%s) gives (%s,%s)" % (bin(sa), bin(sv), bin(oa), bin(ov), bin(ga), bin(gv))
            if not hit:
                bad = "no path of the round applies to acc=(%s,%s) conclusion=(%s,%s)" % (bin(sa), bin(sv), bin(oa), bin(ov))
            if bad:
                break
    except NotBits as e_:
        ctx.cannot(rule, "merge-fold.table", "summary over bitmap operations (loop form)", b.where(), str(e_))
        return True
    ctx.ob(rule, "merge-conflict-only-if-values-differ", bad is None, where=b.where(), expected="loop form: return None => exists pos N_a & A_a & (N_v xor A_v); else acc |= N",
           found=bad or "agrees on %d models" % cnt)
    return True


def T_conflict(ctx, lib):
    rule = "C18.T-conflict"
    ctx.rule(rule, "conclusions: the merge fold answers None (conflict) for bucket conclusion N against the accumulated A only if "
                   "exists pos N_a and A_a and (N_v xor A_v); otherwise it merges by disjunction and continues (evaluated on all slice models)")
    try:
        b = lib.one("nogoods::NoGoodStore::conclusions")
    except LookupError as e:
        ctx.lost(rule, "conclusions", str(e))
        return None
    roles, defs = flow.closure_roles(b)
    tf = [r for r in roles.values() if r.adaptor in ("try_fold", "try_for_each")]
    if len(tf) != 1:
        if merge_loop_form(ctx, lib, rule, b):
            return b
        ctx.cannot(rule, "merge-fold", "one try_fold merging the bucket conclusions", b.where(), [r.adaptor for r in roles.values()])
        return b
    cb = lib.body(tf[0].closure_def)
    eng = ctx.engine([lib])
    st = symx.State()
    ACC = shared.ref_to(st, ng_val(SA, SV))     # accumulated
    N = ng_val(OA, OV)                           # bucket conclusion
    env = eng.closure_env(st, cb, [])
    paths = eng.summarise(cb, [env, ACC, N], st)
    bad = None
    cnt = 0
    try:
        for n, sa, sv, oa, ov in all_models():
            e = {SA: sa, SV: sv, OA: oa, OV: ov}
            p = eval_paths(paths, e, n)
            r = strip(p.ret)
            is_none = r[0] == "adt" and r[2] == "None"
            conflict = any((sa >> i) & 1 and (oa >> i) & 1 and ((sv >> i) & 1) != ((ov >> i) & 1) for i in range(n))
            cnt += 1
            if is_none and not conflict:
                bad = "positions=%d acc=(active %s, value %s) conclusion=(active %s, value %s): reports a conflict although no jointly active position differs" % (n, bin(sa), bin(sv), bin(oa), bin(ov))
                break
            if not is_none:
                after = strip(symx.deref_val(eng, p.state, ACC))
                ga, gv = ev(symx.adt_get(after, "active"), e, n), ev(symx.adt_get(after, "value"), e, n)
                if not conflict and (ga != (sa | oa) or gv != (sv | ov)):
                    bad = "merge of acc=(%s,%s) with (%s,%s) gives (%s,%s)" % (bin(sa), bin(sv), bin(oa), bin(ov), bin(ga), bin(gv))
                    break
    except NotBits as e_:
        ctx.cannot(rule, "merge-fold.table", "summary over bitmap operations", cb.where(), str(e_))
        return b
    ctx.ob(rule, "merge-conflict-only-if-values-differ", bad is None, where=cb.where(), expected="None => exists pos N_a & A_a & (N_v xor A_v); else acc |= N",
           found=bad or "agrees on %d models" % cnt)
    return b


def P_final(ctx, lib):
    rule = "C18.P-final"
    ctx.rule(rule, "conclusions returns Some(result) only after a scan over all buckets of admissible size (len <= |interpretation|) found no stored "
                   "nogood with elem.is_violating(result) or elem.is_violating(interpretation); result starts as a copy of the interpretation; bucket "
                   "conclusions come from try_from_pair_iter(bucket.filter_map(|ng| ng.conclude(interpretation)))")
    try:
        b = lib.one("nogoods::NoGoodStore::conclusions")
    except LookupError as e:
        ctx.lost(rule, "conclusions", str(e))
        return
    eng = ctx.engine([lib], no_inline={"adf_bdd::nogoods::NoGood::is_violating", "adf_bdd::nogoods::NoGood::conclude", "adf_bdd::nogoods::NoGood::len",
                                       "adf_bdd::nogoods::NoGood::try_from_pair_iter"})
    st = symx.State()
    paths = eng.summarise(b, None, st)
    some = [p for p in paths if p.end == "return" and strip(p.ret)[0] == "adt" and strip(p.ret)[2] == "Some"]
    ctx.ob(rule, "some-paths", len(some) >= 1, where=b.where(), expected="a path returning Some", found=len(some))
    for p in some:
        anyc = [(deep_strip(e), v) for e, v in p.cond if is_call(deep_strip(e), "Iterator::any")]
        ok = len(anyc) >= 1 and int_of(anyc[-1][1]) == 0
        ctx.ob(rule, "some-dominated-by-scan", ok, where=b.where(), expected="Some only if the final any(..) scan was false", found=p.describe()[:240])
    # closures of the scan
    clos = lib.closures_of(b, recursive=True)
    n_inner = 0
    eng2 = ctx.engine([lib], no_inline={"adf_bdd::nogoods::NoGood::is_violating", "adf_bdd::nogoods::NoGood::conclude", "adf_bdd::nogoods::NoGood::len"})
    roles_all = {}
    for c in [b] + clos:
        r, _ = flow.closure_roles(c)
        roles_all.update(r)
    for c in clos:
        r = roles_all.get(c.path)
        if r is None:
            continue
        item_ty = c.locals[2]["ty"] if len(c.locals) > 2 else {}
        is_ng_item = item_ty.get("k") == "ref" and item_ty["to"].get("k") == "adt" and item_ty["to"]["path"].endswith("NoGood")
        if r.adaptor == "any" and is_ng_item:
            n_inner += 1
            st = symx.State()
            ELEM, RES, INT = ("sym", "elem"), ("sym", "result"), ("sym", "interp")
            caps = flow.resolve_captures(lib, c) or []
            capvals = []
            for ce in caps:
                capvals.append(INT if flow.is_oparam(ce, 2, "NoGoodStore::conclusions") else RES)
            env = eng2.closure_env(st, c, capvals)
            paths = [p for p in eng2.summarise(c, [env, shared.ref_to(st, ELEM)], st) if p.end == "return"]
            # result true iff elem.is_violating(result) || elem.is_violating(interp)
            tested = set()
            ok = True
            for p in paths:
                for e, v in p.cond:
                    e = deep_strip(e)
                    if is_call(e, "NoGood::is_violating"):
                        if deep_strip(e[2][0]) != ELEM:
                            ok = False
                        tested.add(deep_strip(e[2][1]))
                r_ = strip(p.ret)
                if is_call(r_, "NoGood::is_violating"):
                    if deep_strip(r_[2][0]) != ELEM:
                        ok = False
                    tested.add(deep_strip(r_[2][1]))
            # true-paths: whenever one test is true the result must be true
            for p in paths:
                vals = [int_of(v) for e, v in p.cond if is_call(deep_strip(e), "NoGood::is_violating")]
                if 1 in vals and strip(p.ret) != vbool(True):
                    ok = False
            ctx.ob(rule, "scan-tests-result-and-interpretation", ok and tested == {RES, INT}, where=c.where(),
                   expected="elem.is_violating(result) || elem.is_violating(interpretation)", found=sorted(show(x) for x in tested))
        if r.adaptor == "filter_map" and is_ng_item:
            st = symx.State()
            ELEM, INT = ("sym", "elem"), ("sym", "interp")
            caps = flow.resolve_captures(lib, c) or []
            env = eng2.closure_env(st, c, [INT if flow.is_oparam(ce, 2, "NoGoodStore::conclusions") else ("sym", "other") for ce in caps])
            paths = [p for p in eng2.summarise(c, [env, shared.ref_to(st, ELEM)], st) if p.end == "return"]
            ok = len(paths) == 1 and is_call(strip(paths[0].ret), "NoGood::conclude") and deep_strip(strip(paths[0].ret)[2][0]) == ELEM and deep_strip(strip(paths[0].ret)[2][1]) == INT
            ctx.ob(rule, "bucket-conclusions-from-conclude", ok, where=c.where(), expected="ng.conclude(interpretation)", found=[show(p.ret)[:120] for p in paths])
    ctx.floor(rule, "scan closures", n_inner, 1)
    # result starts as clone of the interpretation
    d = flow.Defs(b)
    init_ok = False
    for bb, t, ci in b.calls():
        if flow.last(ir.callee_path(ci, False) or "") == "clone":
            e = d.expr_call(t, bb)
            if e[0] == "call" and e[3] and e[3][0] == ("param", 2):
                init_ok = True
    ctx.ob(rule, "result-starts-from-interpretation", init_ok, where=b.where(), expected="result = nogood.clone()", found=init_ok)


def closure_exits(ctx, lib):
    rule = "C18.P-closure"
    ctx.rule(rule, "conclusion_closure: Inconsistent exactly when conclusions returned None; NoUpdate only if the first conclusions changed nothing; "
                   "Update(result) after iterating until update_term_vec reports no change")
    try:
        b = lib.one("nogoods::NoGoodStore::conclusion_closure")
    except LookupError as e:
        ctx.lost(rule, "conclusion_closure", str(e))
        return
    eng = ctx.engine([lib], no_inline={"adf_bdd::nogoods::NoGoodStore::conclusions", "adf_bdd::nogoods::NoGood::update_term_vec",
                                       "adf_bdd::nogoods::NoGood::from_term_vec"})
    paths = eng.summarise(b)
    kinds = set()
    for p in paths:
        if p.end != "return":
            continue
        r = strip(p.ret)
        variant = r[2] if r[0] == "adt" else "?"
        kinds.add(variant)
        concl = [(deep_strip(e), v) for e, v in p.cond if deep_strip(e)[0] == "app" and deep_strip(e)[1] == "discr" and symx.contains(e, lambda n_: is_call(n_, "NoGoodStore::conclusions"))]
        if variant == "Inconsistent":
            ok = len(concl) >= 1 and int_of(concl[-1][1]) != 1
            ctx.ob(rule, "inconsistent-iff-none", ok, where=b.where(), expected="Inconsistent only after conclusions = None", found=p.describe()[:200])
        else:
            ok = all(int_of(v) == 1 for e, v in concl) and len(concl) >= 1
            ctx.ob(rule, "%s-after-some" % variant, ok, where=b.where(), expected="conclusions returned Some on this path", found=p.describe()[:200])
    ctx.ob(rule, "exits", {"Inconsistent", "NoUpdate", "Update"} <= kinds, where=b.where(), expected="Inconsistent / NoUpdate / Update", found=sorted(kinds))


def check(ctx):
    for cfg in configs(ctx.tier):
        ctx.cfg = cfg.name
        lib = ctx.load(cfg)
        T_prim(ctx, lib)
        T_subsume(ctx, lib)
        T_conflict(ctx, lib)
        P_final(ctx, lib)
        closure_exits(ctx, lib)
    if ctx.tier == "thorough":
        from rules import witness
        witness.check(ctx, ['W08', 'W09'])   # informational: what external crates cannot reach (scope of the who-may-write census)
