"""C06 - canonical diagram store."""
from mirlib import facts
from rules import deps, kernel, shared

EXPLANATION = """
Decided (the induction steps of 'the node table is a reduced, duplicate-free, ordered DAG after every operation'):
S.R-node (fresh nodes are appended only under lo != hi and a unique-table miss for exactly the node built from the
parameters; the returned handle is the index the node is stored at and is what the unique table registers; the
reduced and hit paths have no effects), S.W-store (who may write Bdd.nodes / Bdd.cache and with which operation, in
all three crates), C06.W-ctor (frozen table of Bdd::node call sites, each with the reason it keeps children below the
new node), C06.R-recv (recv appends verbatim and registers under the handle = index), C06.A-serde (nodes and cache
are serialised; only memo/bookkeeping fields are skipped), and - because 'same handle iff same function' fails as soon as an operation
returns the handle of another function - the kernel-build and kernel-restrict suites of rules/deps.py (C07.T-conn, C07.T-ite0,
C07.R-ite, C07.R-restrict, S.F-memo for ite_cache and restrict_cache, S.R-new)."""
NOT_DECIDED = "'same handle iff same function' for all operation sequences follows from these steps plus C07 on paper; biodivine's table is trusted to be ordered."
TECHNIQUE = "static analysis: path-sensitive MIR summaries (guards/effects of Bdd::node, recv), who-may-write and who-may-call census over resolved MIR places/callees"


def configs(tier):
    return facts.LIB_ALL if tier == "thorough" else facts.LIB_QUICK


def A_serde(ctx, lib):
    rule = "C06.A-serde"
    ctx.rule(rule, "Bdd.nodes and Bdd.cache are serialised (no serde(skip)), so an import restores the unique table")
    try:
        a = lib.adt("obdd::Bdd")
    except LookupError as e:
        ctx.lost(rule, "Bdd", str(e))
        return
    fields = {f["name"]: f for f in a["variants"][0]["fields"]}
    for f in ("nodes", "cache"):
        if f not in fields:
            ctx.lost(rule, "Bdd." + f, "field exists")
            continue
        skipped = any("skip" in x for x in fields[f]["attrs"])
        ctx.ob(rule, "Bdd.%s serialised" % f, not skipped, expected="no serde(skip)", found=fields[f]["attrs"])
    # the unique table goes through obdd::vectorize: the whole map is written (into_iter -> collect, nothing skipped, taken or filtered) and the whole vector is read back
    from mirlib import flow
    for fn, want in (("serialize", ("into_iter", "collect")), ("deserialize", None)):
        bs = [x for x in lib.all_bodies if x.kind != "closure" and x.short.endswith("obdd::vectorize::" + fn)]
        if len(bs) != 1:
            ctx.lost(rule, "vectorize::" + fn, "found %d" % len(bs))
            continue
        vb = bs[0]
        calls, d = flow.all_call_exprs(vb)
        if fn == "serialize":
            coll = [e for bb, t, ci, e in calls if e[0] == "call" and flow.last(e[2]) == "collect"]
            ok = False
            found = [flow.show(e)[:160] for e in coll]
            if len(coll) == 1:
                src, steps = flow.chain_of(coll[0])
                names = [s_[0] for s_ in steps]
                ok = src == ("param", 1) and names == ["into_iter", "collect"]
                found = "%s %s" % (flow.show(src), names)
            ctx.ob(rule, "vectorize.serialize-whole-map", ok, where=vb.where(), expected="target.into_iter().collect() - every entry", found=found)
        else:
            # T::from_iter(container), or its other spelling container.into_iter().collect()
            fi = [e for bb, t, ci, e in calls if e[0] == "call" and flow.last(e[2]) == "from_iter"]
            if not fi:
                fi = [e for bb, t, ci, e in calls if e[0] == "call" and flow.last(e[2]) == "collect" and [s_[0] for s_ in flow.chain_of(e)[1]] == ["into_iter", "collect"]]
            ok = len(fi) == 1 and not [e for bb, t, ci, e in calls if e[0] == "call" and flow.last(e[2]) in ("skip", "take", "filter", "step_by", "skip_while", "take_while", "truncate", "pop", "remove", "retain", "dedup")]
            ctx.ob(rule, "vectorize.deserialize-whole-vector", ok, where=vb.where(), expected="T::from_iter(container) - every entry", found=[flow.show(e)[:120] for e in fi])


def check(ctx):
    for cfg in configs(ctx.tier):
        ctx.cfg = cfg.name
        lib = ctx.load(cfg)
        frontend = "frontend" in lib.features
        deps.kernel_build(ctx, lib)      # S.R-node, S.R-new, S.W-store, C06.W-ctor + connectives / ITE / ite memo
        deps.kernel_restrict(ctx, lib)   # restrict creates nodes and is memoised
        if frontend:
            kernel.R_recv(ctx, lib, "C06.R-recv", "recv appends the received node verbatim and registers it in cache under Term(len before push)")
        A_serde(ctx, lib)
    # nodes is a public field: bin and server must not write it either
    others = {}
    ctx.cfg = "bin@default"
    others["bin"] = ctx.load(facts.Config("bin"))
    ctx.cfg = "server@default"
    others["server"] = ctx.load(facts.Config("server"))
    ctx.cfg = "bin+server"
    kernel.W_store(ctx, others, rule="S.W-store/ext")
    kernel.W_ctor_ext(ctx, others)
    if ctx.tier == "thorough":
        from rules import witness
        witness.check(ctx, ['W01', 'W06', 'W07', 'W13'])   # informational: what external crates cannot reach (scope of the who-may-write census)
