"""Kernel obligations on obdd.rs: connectives, ITE, restrict, node, memo tables, store writers,
recv (C06, C07, C11, C19; shared S.F-memo, S.R-node, S.W-store of DESIGN.md)."""
import itertools

from mirlib import flow, ir, symx
from mirlib.symx import INF, mk_adt, show, vbool, vint
from rules import shared
from rules.shared import TERM, VAR, BDDNODE, VAR_BOT, VAR_TOP

T0 = shared.term("B")
T1 = shared.term("T")


def fn(v):
    return flow.fname(v[1]) if v and v[0] == "app" else None


def strip(v):
    """drop reference wrappers / derefs (handles are Copy values)"""
    while isinstance(v, tuple) and v:
        if v[0] == "app" and v[1] == "&":
            v = v[2][0]
        elif v[0] == "deref":
            v = v[1]
        else:
            break
    return v


def deep_strip(v):
    v = strip(v)
    if not isinstance(v, tuple) or not v:
        return v
    t = v[0]
    if t == "app":
        return ("app", v[1], tuple(deep_strip(x) for x in v[2]))
    if t == "adt":
        return ("adt", v[1], v[2], tuple((k, deep_strip(x)) for k, x in v[3]))
    if t == "tuple":
        return ("tuple", tuple(deep_strip(x) for x in v[1]))
    if t in ("field", "downcast"):
        return (t, deep_strip(v[1]), v[2])
    if t == "index":
        return ("index", deep_strip(v[1]), deep_strip(v[2]))
    if t == "lin":
        return ("lin", v[1], tuple((deep_strip(a), c) for a, c in v[2]))
    return v


def unloop(v):
    """replace loop-carried placeholders by their value at loop entry (provenance view)"""
    if not isinstance(v, tuple) or not v:
        return v
    t = v[0]
    if t == "loopvar":
        return unloop(v[3])
    if t == "app":
        return ("app", v[1], tuple(unloop(x) for x in v[2]))
    if t == "adt":
        return ("adt", v[1], v[2], tuple((k, unloop(x)) for k, x in v[3]))
    if t == "tuple":
        return ("tuple", tuple(unloop(x) for x in v[1]))
    if t in ("field", "downcast"):
        return (t, unloop(v[1]), v[2])
    if t == "deref":
        return ("deref", unloop(v[1]))
    if t == "index":
        return ("index", unloop(v[1]), unloop(v[2]))
    if t == "lin":
        return symx.from_lin(v[1], {unloop(a): c for a, c in v[2]})
    if t == "closure":
        return ("closure", v[1], tuple(unloop(x) for x in v[2]))
    return v


def is_call(v, name):
    return isinstance(v, tuple) and v and v[0] == "app" and fn(v) == name


def effects_named(p, name):
    return [e for e in p.effects if e.get("kind") == "call" and flow.fname(e["resolved"]) == name]


def stores_of(p):
    """all stores on path p as (target value, stored value, effect): stores through symbolic pointers and writes
    through IndexMut::index_mut (element cells that were written)"""
    out = []
    for e in p.effects:
        k = e.get("kind")
        if k in ("store", "store_index"):
            out.append((e["args"][0], e["args"][-1], e))
        elif k == "index_mut" and e["cell"] in p.state.written:
            v = p.state.cells[e["cell"]]
            if v[0] == "app" and str(v[1]).startswith("upd:"):
                continue  # only borrowed mutably by a callee (versioned), not assigned
            out.append((("index", e["args"][0], e["args"][1]), v, e))
    return out


def cond_has(p, pred):
    return any(pred(deep_strip(e), v) for e, v in p.cond)


def cond_val(p, pred):
    """value assumed for the first condition expression matching pred, or None"""
    for e, v in p.cond:
        if pred(deep_strip(e)):
            return v
    return None


def int_of(v):
    return v[1] if v and v[0] == "int" and v[1] == v[2] else None


# ------------------------------------------------------------------ C07.T-conn
def bool_eval(v, env):
    """evaluate an ITE term over Boolean symbols; returns bool or raises KeyError/ValueError"""
    v = strip(v)
    if v == T0:
        return False
    if v == T1:
        return True
    if v in env:
        return env[v]
    if is_call(v, "Bdd::if_then_else"):
        a = v[2]
        i, t, e = a[-3], a[-2], a[-1]
        return bool_eval(t, env) if bool_eval(i, env) else bool_eval(e, env)
    for name, f in (("Bdd::not", lambda x: not x[0]), ("Bdd::and", lambda x: x[0] and x[1]),
                    ("Bdd::or", lambda x: x[0] or x[1]), ("Bdd::imp", lambda x: (not x[0]) or x[1]),
                    ("Bdd::iff", lambda x: x[0] == x[1]), ("Bdd::xor", lambda x: x[0] != x[1])):
        if is_call(v, name):
            ops = [bool_eval(x, env) for x in v[2][1:]]
            return f(ops)
    raise ValueError("not an ITE term: %s" % show(v))


CONNECTIVES = {
    "not": (1, lambda a: not a),
    "and": (2, lambda a, b: a and b),
    "or": (2, lambda a, b: a or b),
    "imp": (2, lambda a, b: (not a) or b),
    "iff": (2, lambda a, b: a == b),
    "xor": (2, lambda a, b: a != b),
}


def T_conn(ctx, lib):
    rule = "C07.T-conn"
    ctx.rule(rule, "truth-table domain: Bdd::{not,and,or,imp,iff,xor} summarised with handle parameters as Boolean "
                   "symbols and if_then_else as ITE have the tables of the connective they name (first operand = "
                   "antecedent for imp); variable(v) = node(v, BOT, TOP); constant(b): true->TOP, false->BOT")
    eng = ctx.engine([lib], no_inline={"adf_bdd::obdd::Bdd::if_then_else"})
    n = 0
    for name, (arity, spec) in CONNECTIVES.items():
        try:
            b = lib.one("obdd::Bdd::" + name)
        except LookupError as e:
            ctx.lost(rule, name, str(e))
            continue
        n += 1
        params = [shared.term_sym("x%d" % i) for i in range(arity)]
        st = symx.State()
        selfref = shared.ref_to(st, ("sym", "bdd"))
        paths = eng.summarise(b, [selfref] + params, st)
        if len(paths) != 1 or paths[0].end != "return":
            ctx.cannot(rule, name, "a single returning path", b.where(), [p.describe()[:200] for p in paths])
            continue
        ret = paths[0].ret
        rows = []
        ok = True
        why = None
        for vals in itertools.product([False, True], repeat=arity):
            env = dict(zip(params, vals))
            try:
                got = bool_eval(ret, env)
            except ValueError as e:
                ok, why = False, str(e)
                break
            want = spec(*vals)
            rows.append("%s->%s" % ("".join("1" if x else "0" for x in vals), int(got)))
            if got != want:
                ok = False
                why = "row %s: expected %s" % (vals, want)
        # every call made must be one of the store's own operations on the same store
        for e in paths[0].effects:
            if e.get("kind") == "call" and flow.fname(e["resolved"]) not in ("Bdd::if_then_else", "Bdd::not"):
                ok, why = False, "unexpected call %s" % flow.fname(e["resolved"])
        ctx.ob(rule, name, ok, where=b.where(), expected="truth table of " + name, found=why or " ".join(rows))
    # variable / constant
    try:
        b = lib.one("obdd::Bdd::variable")
        n += 1
        st = symx.State()
        v = shared.var_of(("sym", "v"))
        paths = eng.summarise(b, [shared.ref_to(st, ("sym", "bdd")), v], st)
        ok = len(paths) == 1 and is_call(paths[0].ret, "Bdd::node") and tuple(strip(x) for x in paths[0].ret[2][1:]) == (v, T0, T1)
        ctx.ob(rule, "variable", ok, where=b.where(), expected="node(v, Term(0), Term(1))",
               found=[show(p.ret) if p.ret else p.end for p in paths])
    except LookupError as e:
        ctx.lost(rule, "variable", str(e))
    try:
        b = lib.one("obdd::Bdd::constant")
        n += 1
        for bv, want in ((True, T1), (False, T0)):
            paths = eng.summarise(b, [vbool(bv)])
            ctx.ob(rule, "constant[%s]" % bv, [p.ret for p in paths] == [want], where=b.where(), expected=show(want),
                   found=[show(p.ret) if p.ret else p.end for p in paths])
    except LookupError as e:
        ctx.lost(rule, "constant", str(e))
    ctx.floor(rule, "functions", n, 8)


# ------------------------------------------------------------------ if_then_else
def _ite_body(lib):
    """if_then_else is private: located by role = the recursive function all connectives call"""
    cands = {}
    for name in CONNECTIVES:
        try:
            b = lib.one("obdd::Bdd::" + name)
        except LookupError:
            continue
        for _, t, ci in b.calls():
            p = ir.callee_path(ci)
            if p and p.startswith("adf_bdd::obdd::Bdd::") and not any(p.endswith("::" + c) for c in CONNECTIVES):
                cands[p] = cands.get(p, 0) + 1
    if not cands:
        return None
    best = max(cands, key=cands.get)
    return lib.body(best)


def _eq_cond_subst(p, params):
    """path condition equalities (value 1) as substitutions on Boolean symbols"""
    env_eq = []
    for e, v in p.cond:
        e = deep_strip(e)
        val = int_of(v) if isinstance(v, tuple) and v[0] == "int" else None
        if e[0] == "app" and e[1] == "Eq" and val == 1:
            env_eq.append((e[2][0], e[2][1]))
    return env_eq


def _handles_infeasible(p):
    """union-find over the handle equalities of the path condition; a disequality inside one class, or TOP and BOT in one class, makes the path infeasible"""
    parent = {}

    def find(x):
        parent.setdefault(x, x)
        while parent[x] != x:
            parent[x] = parent[parent[x]]
            x = parent[x]
        return x
    eq, ne = [], []
    for e, v in p.cond:
        e = deep_strip(e)
        val = int_of(v) if isinstance(v, tuple) and v[0] == "int" else None
        if e[0] == "app" and e[1] in ("Eq", "Ne") and val in (0, 1):
            a, b_ = strip(e[2][0]), strip(e[2][1])
            (eq if (val == 1) == (e[1] == "Eq") else ne).append((a, b_))
    for a, b_ in eq:
        parent[find(a)] = find(b_)
    consts = [x for x in list(parent) if x in (T0, T1, vint(0), vint(1))]
    zero = set(find(x) for x in consts if x in (T0, vint(0)))
    one = set(find(x) for x in consts if x in (T1, vint(1)))
    if zero & one:
        return True
    return any(find(a) == find(b_) for a, b_ in ne)


def ite_rules(ctx, lib):
    r0 = "C07.T-ite0"
    r1 = "C07.R-ite"
    ctx.rule(r0, "every non-recursive return r of if_then_else under path condition phi satisfies phi => (r == ITE(i,t,e)) "
                 "over Boolean symbols (x = TOP/BOT: constant; x = y: same symbol); the cache-hit return is S.F-memo")
    ctx.rule(r1, "the recursive return equals node(m, ITE(i|m=0,t|m=0,e|m=0), ITE(i|m=1,t|m=1,e|m=1)) with "
                 "m = Var(min(top(i),top(t),top(e))), cofactors = restrict(x, m, b), low child from the false cofactors")
    b = _ite_body(lib)
    if b is None:
        ctx.lost(r0, "if_then_else", "the function all connectives delegate to")
        return None
    ite_path = b.path
    eng = ctx.engine([lib], no_inline={ite_path, "adf_bdd::obdd::Bdd::restrict", "adf_bdd::obdd::Bdd::node"})
    st = symx.State()
    I, Tt, E = shared.term_sym("i"), shared.term_sym("t"), shared.term_sym("e")
    paths = eng.summarise(b, [shared.ref_to(st, ("sym", "bdd")), I, Tt, E], st)
    n0 = n1 = 0
    for p in paths:
        if p.end != "return":
            ctx.ob(r0, "path-ends", False, where=b.where(), expected="every path returns", found=p.describe()[:300])
            continue
        ret = strip(p.ret)
        key = " && ".join("%s=%s" % (show(deep_strip(e)), show(v)) for e, v in p.cond)
        if is_call(ret, "Bdd::node"):
            # recursive step
            n1 += 1
            a = [strip(x) for x in ret[2][1:]]
            m, lo, hi = a
            ok = True
            why = []
            # m = Var(min(top(i), top(t), top(e)))
            mv = m[3][0][1] if m[0] == "adt" and m[1] == VAR else None
            tops = set()
            if mv is not None and mv[0] == "app" and mv[1] == "min":
                for x in mv[2]:
                    x = deep_strip(x)
                    # nodes[h.0].var.0
                    hs = symx.find_all(x, lambda n: n in (I[3][0][1], Tt[3][0][1], E[3][0][1]))
                    fs = symx.find_all(x, lambda n: n[0] == "field" and n[2] == "var")
                    idx = symx.find_all(x, lambda n: n[0] == "index")
                    if len(hs) == 1 and fs and idx:
                        tops.add(hs[0])
                    else:
                        ok = False
                        why.append("min operand %s is not the top variable of an argument" % show(x))
            else:
                ok = False
                why.append("split variable is %s, not Var(min(..))" % show(m))
            if tops != {I[3][0][1], Tt[3][0][1], E[3][0][1]}:
                ok = False
                why.append("min ranges over %s, not over the top variables of i, t and e" % sorted(show(x) for x in tops))
            for child, bval, nm in ((lo, False, "low"), (hi, True, "high")):
                c = strip(child)
                if not is_call(c, flow.fname(ite_path)):
                    ok = False
                    why.append("%s child is not a recursive ITE: %s" % (nm, show(c)[:120]))
                    continue
                cargs = [strip(x) for x in c[2][1:]]
                for x, orig, onm in zip(cargs, (I, Tt, E), "ite"):
                    good = (is_call(x, "Bdd::restrict") and strip(x[2][1]) == orig and strip(x[2][2]) == m
                            and strip(x[2][3]) == vbool(bval))
                    if not good:
                        ok = False
                        why.append("%s child, operand %s: expected restrict(%s, m, %s), found %s" % (
                            nm, onm, onm, str(bval).lower(), show(x)[:160]))
            # the result must be stored in the memo under (i,t,e)
            ctx.ob(r1, "step", ok, where=b.where(), expected="node(Var(min tops), ITE(false cofactors), ITE(true cofactors))",
                   found="; ".join(why) or "matches")
            continue
        if ret[0] == "field" or ret[0] == "downcast" or contains_get(ret):
            # cache hit: checked by S.F-memo
            continue
        # validity of the shortcut under its path condition
        eqs = _eq_cond_subst(p, (I, Tt, E))
        if _handles_infeasible(p):
            # the path condition is contradictory on the level of handles (e.g. t == BOT && e == BOT after the t == e test failed): dead code, nothing to validate
            ctx.ob(r0, "shortcut[%s]" % key, True, where=b.where(), expected="phi => r == ITE(i,t,e)", found="infeasible path condition", nontrivial=False)
            continue
        n0 += 1
        ok, why = shortcut_valid(ret, (I, Tt, E), eqs)
        ctx.ob(r0, "shortcut[%s]" % key, ok, where=b.where(), expected="phi => r == ITE(i,t,e)", found=why)
    ctx.floor(r1, "recursive steps", n1, 1)
    ctx.floor(r0, "shortcuts", n0, 2)
    return b


def contains_get(v):
    return symx.contains(v, lambda n: n[0] == "app" and flow.fname(n[1]) in ("HashMap::get",))


def shortcut_valid(ret, params, eqs):
    """Boolean validity of ret == ITE(i,t,e) for all assignments consistent with the equalities"""
    syms = list(params)
    consts = {T0: False, T1: True, vint(0): False, vint(1): True}
    bad = None
    for vals in itertools.product([False, True], repeat=3):
        env = dict(zip(syms, vals))
        env.update(dict(zip([x[3][0][1] for x in syms], vals)))
        env.update(consts)
        consistent = True
        for a, b in eqs:
            a, b = strip(a), strip(b)
            if a not in env or b not in env:
                return False, "condition over unknown operand %s == %s" % (show(a), show(b))
            if env[a] != env[b]:
                consistent = False
        if not consistent:
            continue
        r = strip(ret)
        if r not in env:
            return False, "returns %s, which is not an operand or constant" % show(r)
        want = env[syms[1]] if env[syms[0]] else env[syms[2]]
        if env[r] != want:
            bad = "i=%d t=%d e=%d: returns %d, ITE is %d" % (vals[0], vals[1], vals[2], env[r], want)
            break
    if bad:
        return False, bad
    return True, "valid"


# ------------------------------------------------------------------ restrict
def R_restrict(ctx, lib):
    rule = "C07.R-restrict"
    ctx.rule(rule, "order-type domain on (top variable of the node vs the restricted variable) x constant-ness x value: "
                   "top>var or constant -> unchanged; top<var -> node(top, R(lo), R(hi)); top=var -> val ? (hi | R(hi)) : (lo | R(lo)); "
                   "with variablelist the shortcut 'var not in stored support -> unchanged' is accepted")
    try:
        b = lib.one("obdd::Bdd::restrict")
    except LookupError as e:
        ctx.lost(rule, "restrict", str(e))
        return
    eng = ctx.engine([lib], no_inline={b.path, "adf_bdd::obdd::Bdd::node"})
    VARK = 5
    tree = shared.term_sym("f")
    var = shared.var_of(vint(VARK))
    LO, HI = shared.term_sym("lo"), shared.term_sym("hi")
    n = 0
    for topname, topv in (("<", 3), ("=", 5), (">", 7), ("BOTconst", VAR_BOT), ("TOPconst", VAR_TOP)):
        for val in (False, True):
            node = mk_adt(BDDNODE, "BddNode", [("var", shared.var_of(vint(topv))), ("lo", LO), ("hi", HI)])

            def hook(eng_, st_, base, idx, node=node):
                if symx.contains(base, lambda n_: n_[0] == "field" and n_[2] == "nodes"):
                    return node
                return None
            eng.index_hook = hook
            st = symx.State()
            paths = eng.summarise(b, [shared.ref_to(st, ("sym", "bdd")), tree, var, vbool(val)], st)
            for p in paths:
                inst = "top%s,val=%s" % (topname, str(val).lower())
                if p.end != "return":
                    ctx.ob(rule, inst, False, where=b.where(), expected="returns", found=p.describe()[:300])
                    continue
                ret = strip(p.ret)
                if contains_get(ret):
                    continue  # memo hit: S.F-memo
                n += 1
                # variablelist shortcut
                dep = cond_val(p, lambda e: is_call(e, "HashSet::contains"))
                if dep is not None and int_of(dep) == 0:
                    e = [deep_strip(x) for x, v in p.cond if is_call(deep_strip(x), "HashSet::contains")][0]
                    keyok = (symx.contains(e[2][0], lambda n_: n_[0] == "field" and n_[2] == "var_deps")
                             and symx.contains(e[2][0], lambda n_: n_ == tree[3][0][1]) and strip(e[2][1]) == var)
                    ctx.ob(rule, inst + ",not-in-support", ret == tree and keyok, where=b.where(),
                           expected="unchanged, tested on var_deps[tree] and var", found=show(ret)[:200])
                    continue

                def R(x):
                    return lambda r: is_call(r, "Bdd::restrict") and [strip(a) for a in r[2][1:]] == [x, var, vbool(val)]
                if topname in (">", "BOTconst", "TOPconst"):
                    ok = ret == tree
                    exp = "unchanged"
                elif topname == "<":
                    ok = (is_call(ret, "Bdd::node") and strip(ret[2][1]) == shared.var_of(vint(topv))
                          and R(LO)(strip(ret[2][2])) and R(HI)(strip(ret[2][3])))
                    exp = "node(top, R(lo), R(hi))"
                else:
                    child = HI if val else LO
                    ok = ret == child or R(child)(ret)
                    exp = "%s or R(%s)" % (("hi", "hi") if val else ("lo", "lo"))
                ctx.ob(rule, inst, ok, where=b.where(), expected=exp, found=show(ret)[:300])
    eng.index_hook = None
    ctx.floor(rule, "miss paths", n, 10)


# ------------------------------------------------------------------ S.F-memo
def F_memo(ctx, lib, which=("restrict", "ite", "count")):
    rule = "S.F-memo"
    ctx.rule(rule, "memo tables: the key of every insert equals the key of the lookup at entry and is the tuple of all "
                   "non-self parameters, unmodified; the hit path returns the looked-up value without other effects on the "
                   "canonical state; on every inserting path the inserted value is the returned value")
    n_ins = 0
    targets = []
    if "restrict" in which:
        try:
            targets.append(("restrict_cache", lib.one("obdd::Bdd::restrict"), 3))
        except LookupError as e:
            ctx.lost(rule, "restrict", str(e))
    if "ite" in which:
        b = _ite_body(lib)
        if b is None:
            ctx.lost(rule, "if_then_else", "role: function the connectives call")
        else:
            targets.append(("ite_cache", b, 3))
    for field, b, nparams in targets:
        eng = ctx.engine([lib], no_inline={b.path, "adf_bdd::obdd::Bdd::node", "adf_bdd::obdd::Bdd::restrict"})
        st = symx.State()
        params = [("sym", "k%d" % i) for i in range(nparams)]
        paths = eng.summarise(b, [shared.ref_to(st, ("sym", "bdd"))] + params, st)
        key_t = ("tuple", tuple(params))
        saw_hit = False
        for p in paths:
            gets = [e for e in effects_named(p, "HashMap::get")
                    if symx.contains(e["args"][0], lambda n_: n_[0] == "field" and n_[2] == field)]
            inserts = [e for e in effects_named(p, "HashMap::insert")
                       if symx.contains(e["args"][0], lambda n_: n_[0] == "field" and n_[2] == field)]
            for g in gets:
                k = deep_strip(g["args"][1])
                ctx.ob(rule, "%s.get-key" % field, k == key_t, where=b.where(g["loc"]),
                       expected="(" + ", ".join(show(x) for x in params) + ")", found=show(k))
            ret = strip(p.ret) if p.ret is not None else None
            if ret is not None and contains_get(ret) and ret[0] in ("field", "downcast"):
                saw_hit = True
                others = [e for e in p.effects if e.get("kind") == "call" and flow.fname(e["resolved"]) not in ("HashMap::get",)]
                ctx.ob(rule, "%s.hit-pure" % field, not others and len(gets) == 1, where=b.where(),
                       expected="hit path: only the lookup", found=[flow.fname(e["resolved"]) for e in others])
                g = deep_strip(gets[0]["result"]) if gets else None
                ctx.ob(rule, "%s.hit-returns-lookup" % field, g is not None and symx.contains(deep_strip(ret), lambda n_: n_ == g),
                       where=b.where(), expected="the value found under the key", found=show(ret)[:200])
            for ins in inserts:
                n_ins += 1
                k = deep_strip(ins["args"][1])
                v = deep_strip(ins["args"][2])
                ctx.ob(rule, "%s.insert-key" % field, k == key_t, where=b.where(ins["loc"]),
                       expected="(" + ", ".join(show(x) for x in params) + ")", found=show(k))
                ctx.ob(rule, "%s.insert-value" % field, ret is not None and v == deep_strip(ret), where=b.where(ins["loc"]),
                       expected="inserted value == returned value", found="inserted %s, returned %s" % (show(v)[:150], show(ret)[:150] if ret else None))
                ctx.ob(rule, "%s.insert-after-miss" % field, len(gets) >= 1 and int_of(cond_val(p, lambda e: e[0] == "app" and e[1] == "discr" and contains_get(e)) or ("int", 9, 9)) != 1,
                       where=b.where(ins["loc"]), expected="insert only on a miss path", found="path: " + p.describe()[:200])
        ctx.ob(rule, "%s.has-hit-path" % field, saw_hit, where=b.where(), expected="a hit path returning the cached value", found=saw_hit)
    return n_ins


def is_plain_option_test(e, field):
    """e is discr(X) with X = the Option field itself (possibly through as_ref/as_mut/clone)"""
    if not (e[0] == "app" and e[1] == "discr"):
        return False
    x = deep_strip(e[2][0])
    while x[0] == "app" and flow.last(x[1]) in ("as_ref", "as_mut", "as_deref", "clone", "is_some") and x[2]:
        x = deep_strip(x[2][0])
    return x[0] == "field" and x[2] == field


# ------------------------------------------------------------------ S.R-node + C19.P-pair
def node_summary(ctx, lib):
    b = lib.one("obdd::Bdd::node")
    eng = ctx.engine([lib], no_inline={b.path})
    st = symx.State()
    V = shared.var_of(("sym", "v"))
    LO, HI = shared.term_sym("lo"), shared.term_sym("hi")
    paths = eng.summarise(b, [shared.ref_to(st, ("sym", "bdd")), V, LO, HI], st)
    return b, paths, (V, LO, HI)


def on_field(e, field, argi=0):
    return symx.contains(e["args"][argi], lambda n_: n_[0] == "field" and n_[2] == field)


def R_node(ctx, lib, frontend):
    rule = "S.R-node"
    ctx.rule(rule, "Bdd::node: every path reaching nodes.push carries lo != hi and cache.get(BddNode{var,lo,hi}) = None in "
                   "its path condition; the handle registered in cache and returned is Term(nodes.len()) evaluated before the "
                   "push; lo == hi returns lo without effects; a cache hit returns the cached handle without effects")
    try:
        b, paths, (V, LO, HI) = node_summary(ctx, lib)
    except LookupError as e:
        ctx.lost(rule, "node", str(e))
        return None
    node_v = mk_adt(BDDNODE, "BddNode", [("var", V), ("lo", LO), ("hi", HI)])
    n_push = 0
    kinds = set()
    for p in paths:
        if p.end != "return":
            # expect() on the count cache may diverge: not a path to the push
            if effects_named(p, "Vec::push") and any(on_field(e, "nodes") for e in effects_named(p, "Vec::push")):
                continue
            continue
        pushes = [e for e in effects_named(p, "Vec::push") if on_field(e, "nodes")]
        cache_ins = [e for e in effects_named(p, "HashMap::insert") if on_field(e, "cache")]
        cache_get = [e for e in effects_named(p, "HashMap::get") if on_field(e, "cache")]
        ret = strip(p.ret)
        eqv = cond_val(p, lambda e: e[0] == "app" and e[1] == "Eq" and set(e[2]) in ({LO, HI}, {LO[3][0][1], HI[3][0][1]}))
        getv = cond_val(p, lambda e: e[0] == "app" and e[1] == "discr" and symx.contains(e, lambda n_: n_[0] == "app" and flow.fname(n_[1]) == "HashMap::get" and symx.contains(n_, lambda m: m[0] == "field" and m[2] == "cache")))
        if pushes:
            n_push += 1
            kinds.add("fresh")
            ok = len(pushes) == 1 and deep_strip(pushes[0]["args"][1]) == node_v
            ctx.ob(rule, "fresh.push-node", ok, where=b.where(pushes[0]["loc"]), expected="exactly one push of BddNode{var,lo,hi}",
                   found=[show(deep_strip(e["args"][1])) for e in pushes])
            ctx.ob(rule, "fresh.guard-reduced", eqv is not None and int_of(eqv) == 0, where=b.where(),
                   expected="path condition contains lo != hi", found=p.describe()[:260])
            ctx.ob(rule, "fresh.guard-unique", getv is not None and int_of(getv) != 1 and len(cache_get) >= 1
                   and deep_strip(cache_get[0]["args"][1]) == node_v, where=b.where(),
                   expected="path condition contains cache.get(node) = None", found=p.describe()[:260])
            # handle = Term(len before push)
            lens = [e for e in effects_named(p, "Vec::len") if on_field(e, "nodes")]
            before = [e for e in lens if e["serial"] < pushes[0]["serial"]]
            handle = None
            if before:
                handle = mk_adt(TERM, "Term", [("0", before[-1]["result"])])
            okh = handle is not None and deep_strip(ret) == deep_strip(handle)
            # the len term must be about the un-pushed vector
            if okh:
                okh = not symx.contains(before[-1]["result"], lambda n_: n_[0] == "app" and str(n_[1]).startswith("upd:"))
            ctx.ob(rule, "fresh.returns-len-before-push", okh, where=b.where(), expected="returns Term(nodes.len()) taken before the push",
                   found=show(ret)[:200])
            okc = (len(cache_ins) == 1 and deep_strip(cache_ins[0]["args"][1]) == node_v and handle is not None
                   and deep_strip(cache_ins[0]["args"][2]) == deep_strip(handle))
            ctx.ob(rule, "fresh.cache-registers", okc, where=b.where(), expected="cache.insert(node, returned handle) exactly once",
                   found=[(show(deep_strip(e["args"][1])), show(deep_strip(e["args"][2]))) for e in cache_ins])
        elif eqv is not None and int_of(eqv) == 1:
            kinds.add("reduced")
            calls = [e for e in p.effects if e.get("kind") == "call"]
            ctx.ob(rule, "reduced.returns-lo", ret == LO and not calls, where=b.where(), expected="lo == hi: returns lo, no effects",
                   found="ret %s effects %s" % (show(ret), [flow.fname(e["resolved"]) for e in calls]))
        elif getv is not None and int_of(getv) == 1:
            kinds.add("hit")
            calls = [e for e in p.effects if e.get("kind") == "call" and flow.fname(e["resolved"]) != "HashMap::get"]
            g = deep_strip(cache_get[0]["result"]) if cache_get else None
            ok = not calls and g is not None and symx.contains(deep_strip(ret), lambda n_: n_ == g) and not cache_ins
            ctx.ob(rule, "hit.returns-cached", ok, where=b.where(), expected="cached handle, no effects",
                   found="ret %s effects %s" % (show(ret)[:120], [flow.fname(e["resolved"]) for e in calls]))
        else:
            ctx.ob(rule, "path-unclassified", False, where=b.where(), expected="reduced, hit or fresh path", found=p.describe()[:300],
                   kind="cannot-establish")
    ctx.ob(rule, "path-kinds", kinds == {"fresh", "reduced", "hit"}, where=b.where(), expected="fresh, hit and reduced paths exist",
           found=sorted(kinds))
    ctx.floor(rule, "fresh paths", n_push, 1)
    return b, paths, (V, LO, HI), node_v


def P_pair(ctx, lib, frontend):
    """C19.P-pair on the same summary"""
    rule = "C19.P-pair"
    ctx.rule(rule, "in Bdd::node the fresh-node path performs push(n) and then, iff a sender is set, exactly one send of the "
                   "same n with no return in between; no send on the hit or lo==hi paths")
    try:
        b, paths, (V, LO, HI) = node_summary(ctx, lib)
    except LookupError as e:
        ctx.lost(rule, "node", str(e))
        return
    node_v = mk_adt(BDDNODE, "BddNode", [("var", V), ("lo", LO), ("hi", HI)])
    n = 0
    if not frontend:
        sends = sum(len(effects_named(p, "Sender::send")) for p in paths)
        ctx.ob(rule, "no-frontend:no-send", sends == 0, where=b.where(), expected="no send without the frontend feature", found=sends)
        return
    for p in paths:
        pushes = [e for e in effects_named(p, "Vec::push") if on_field(e, "nodes")]
        sends = effects_named(p, "Sender::send")
        has_sender = cond_val(p, lambda e: is_plain_option_test(e, "sender"))
        if not pushes:
            ctx.ob(rule, "no-send-without-push", not sends, where=b.where(), expected="no send on hit / reduced paths",
                   found=p.describe()[:200])
            continue
        if p.end != "return":
            continue
        n += 1
        if has_sender is None:
            ctx.cannot(rule, "fresh.sender-test", "the fresh path tests whether a sender is set", b.where(), p.describe()[:300])
            continue
        if int_of(has_sender) == 1:
            ok = (len(sends) == 1 and deep_strip(sends[0]["args"][1]) == node_v and sends[0]["serial"] > pushes[0]["serial"]
                  and symx.contains(sends[0]["args"][0], lambda n_: n_[0] == "field" and n_[2] == "sender"))
            ctx.ob(rule, "fresh.sender-set", ok, where=b.where(), expected="exactly one send(node) after the push",
                   found=[show(deep_strip(e["args"][1])) for e in sends])
        else:
            ctx.ob(rule, "fresh.no-sender", not sends, where=b.where(), expected="no send", found=len(sends))
    ctx.floor(rule, "fresh paths", n, 2)


# ------------------------------------------------------------------ recv
def R_recv(ctx, lib, rule, text):
    ctx.rule(rule, text)
    try:
        b = lib.one("obdd::frontend::<impl obdd::Bdd>::recv")
    except LookupError as e:
        ctx.lost(rule, "recv", str(e))
        return
    eng = ctx.engine([lib], no_inline={b.path})
    st = symx.State()
    H = shared.term_sym("h")
    paths = eng.summarise(b, [shared.ref_to(st, ("sym", "bdd")), H], st)
    n = 0
    kinds = set()
    for p in paths:
        pushes = [e for e in effects_named(p, "Vec::push") if on_field(e, "nodes")]
        recvs = effects_named(p, "Receiver::try_recv") + effects_named(p, "Receiver::recv") + effects_named(p, "Receiver::recv_timeout")
        sends = effects_named(p, "Sender::send")
        ins = [e for e in effects_named(p, "HashMap::insert") if on_field(e, "cache")]
        ret = p.ret
        if not recvs:
            # no message consumed
            ctx.ob(rule, "noconsume.no-push", not pushes and not sends and not ins, where=b.where(), expected="no effects without a message",
                   found=p.describe()[:200])
            if p.end == "return" and ret == vbool(True):
                kinds.add("present")
                c = cond_val(p, lambda e: e[0] == "app" and e[1] in ("Lt", "Gt", "Le", "Ge") and symx.contains(e, lambda n_: n_ == H[3][0][1]))
                lt = [deep_strip(e) for e, v in p.cond if deep_strip(e)[0] == "app" and deep_strip(e)[1] in ("Lt", "Gt", "Le", "Ge")]
                ok = False
                if lt:
                    e = lt[0]
                    a, bb_ = e[2]
                    is_len = lambda x: is_call(x, "Vec::len") and symx.contains(x, lambda n_: n_[0] == "field" and n_[2] == "nodes")
                    v = int_of(c)
                    if e[1] == "Lt" and a == H[3][0][1] and is_len(bb_) and v == 1:
                        ok = True
                    if e[1] == "Gt" and is_len(a) and bb_ == H[3][0][1] and v == 1:
                        ok = True
                    if e[1] == "Ge" and a == H[3][0][1] and is_len(bb_) and v == 0:
                        ok = True
                    if e[1] == "Le" and is_len(a) and bb_ == H[3][0][1] and v == 0:
                        ok = True
                ctx.ob(rule, "present.true-iff-below-len", ok, where=b.where(), expected="true without consuming only if h < nodes.len()",
                       found=p.describe()[:200])
            elif p.end == "return" and ret == vbool(False):
                kinds.add("absent")
                c = cond_val(p, lambda e: is_plain_option_test(e, "receiver"))
                ctx.ob(rule, "absent.false-only-without-receiver", c is not None and int_of(c) != 1, where=b.where(),
                       expected="false without consuming only if no receiver is set", found=p.describe()[:200])
            else:
                ctx.ob(rule, "noconsume.result", False, where=b.where(), expected="true/false", found=p.describe()[:200])
            continue
        n += 1
        if len(recvs) != 1:
            ctx.ob(rule, "one-message-per-round", False, where=b.where(), expected="one try_recv per loop round", found=len(recvs))
            continue
        msg_ok = cond_val(p, lambda e: e[0] == "app" and e[1] == "discr" and is_call(e[2][0], flow.fname(recvs[0]["resolved"])))
        if int_of(msg_ok) == 0:  # Ok(node)
            msg = ("field", ("downcast", deep_strip(recvs[0]["result"]), "Ok"), "0")
            kinds.add("message")
            ok = len(pushes) == 1 and deep_strip(pushes[0]["args"][1]) == msg
            ctx.ob(rule, "message.push-verbatim", ok, where=b.where(), expected="exactly one push of the received node",
                   found=[show(deep_strip(e["args"][1]))[:120] for e in pushes])
            lens = [e for e in effects_named(p, "Vec::len") if on_field(e, "nodes") and pushes and e["serial"] < pushes[0]["serial"]
                    and e["serial"] > recvs[0]["serial"]]
            handle = mk_adt(TERM, "Term", [("0", lens[-1]["result"])]) if lens else None
            okc = len(ins) == 1 and handle is not None and deep_strip(ins[0]["args"][1]) == msg and deep_strip(ins[0]["args"][2]) == deep_strip(handle)
            ctx.ob(rule, "message.cache-registers", okc, where=b.where(), expected="cache.insert(received node, Term(len before push))",
                   found=[(show(deep_strip(e["args"][1]))[:100], show(deep_strip(e["args"][2]))[:100]) for e in ins])
            has_sender = cond_val(p, lambda e: is_plain_option_test(e, "sender"))
            if has_sender is None:
                ctx.cannot(rule, "message.sender-test", "the message path tests whether a sender is set", b.where(), p.describe()[:200])
            elif int_of(has_sender) == 1:
                oks = len(sends) == 1 and deep_strip(sends[0]["args"][1]) == msg and pushes and sends[0]["serial"] > pushes[0]["serial"]
                ctx.ob(rule, "message.forward", bool(oks), where=b.where(), expected="one forward of the received node after the push",
                       found=[show(deep_strip(e["args"][1]))[:100] for e in sends])
            else:
                ctx.ob(rule, "message.no-forward-without-sender", not sends, where=b.where(), expected="no send", found=len(sends))
            # result
            eq = cond_val(p, lambda e: e[0] == "app" and e[1] == "Eq" and symx.contains(e, lambda n_: n_ == H or n_ == H[3][0][1]))
            if p.end == "return":
                okr = ret == vbool(True) and int_of(eq) == 1 and handle is not None and any(
                    deep_strip(e)[0] == "app" and deep_strip(e)[1] == "Eq" and set(deep_strip(e)[2]) in ({deep_strip(handle), H}, {deep_strip(handle)[3][0][1], H[3][0][1]})
                    for e, v in p.cond)
                ctx.ob(rule, "message.true-iff-appended-is-requested", okr, where=b.where(),
                       expected="returns true only if the handle just appended equals the requested handle", found=p.describe()[:260])
            elif p.end == "backedge":
                ctx.ob(rule, "message.continue-otherwise", int_of(eq) == 0, where=b.where(), expected="continue polling iff appended != requested",
                       found=p.describe()[:200])
        else:
            kinds.add("empty")
            ok = p.end == "return" and ret == vbool(False) and not pushes and not sends and not ins
            ctx.ob(rule, "empty.false", ok, where=b.where(), expected="channel empty/disconnected: false, nothing appended",
                   found=p.describe()[:200])
    ctx.ob(rule, "path-kinds", kinds == {"present", "absent", "message", "empty"}, where=b.where(),
           expected="present / absent / message / empty paths", found=sorted(kinds))
    ctx.floor(rule, "consuming paths", n, 3)


# ------------------------------------------------------------------ S.W-store / C06.W-ctor
MUTATORS = {"push", "insert", "remove", "truncate", "clear", "swap", "sort", "sort_unstable", "retain", "pop", "append",
            "extend", "drain", "dedup", "swap_remove", "resize", "index_mut", "iter_mut", "as_mut_slice", "get_mut",
            "last_mut", "first_mut", "split_off", "reverse", "fill", "set_len", "entry", "extend_from_slice",
            "deref_mut", "as_mut", "borrow_mut", "sort_by", "sort_by_key", "rotate_left", "rotate_right", "take"}


def field_uses(crate, adt_suffix, field):
    """all MIR places projecting `.field` out of a value of the ADT (by field name + owner type)."""
    res = []
    for b in crate.all_bodies:
        for bodyx in [b] + b.promoted:
            for bb, blk in enumerate(bodyx.blocks):
                items = [(s, "stmt") for s in blk["stmts"]] + [(blk["term"], "term")]
                for it, kind in items:
                    for role, pl in places_in(it):
                        tys = place_types(bodyx, pl)
                        for i, pe in enumerate(pl["p"]):
                            if pe["k"] == "field" and pe.get("name") == field and tys[i] is not None and tys[i].endswith(adt_suffix):
                                res.append((bodyx, bb, it, role, pl, i))
    return res


def places_in(it):
    k = it["k"]
    out = []
    if k == "assign":
        out.append(("write", it["pl"]))
        rv = it["rv"]
        out.extend(rv_places(rv))
    elif k == "call":
        out.append(("write", it["dest"]))
        for a in it["args"]:
            if a["k"] in ("copy", "move"):
                out.append((a["k"], a["pl"]))
        if it["f"]["k"] in ("copy", "move"):
            out.append(("copy", it["f"]["pl"]))
    elif k == "drop":
        out.append(("drop", it["pl"]))
    elif k == "switch":
        if it["d"]["k"] in ("copy", "move"):
            out.append(("copy", it["d"]["pl"]))
    elif k == "setdiscr":
        out.append(("write", it["pl"]))
    return out


def rv_places(rv):
    k = rv["k"]
    out = []
    if k == "use":
        o = rv["o"]
        if o["k"] in ("copy", "move"):
            out.append((o["k"], o["pl"]))
    elif k == "ref":
        out.append(("refmut" if rv["mut"] else "ref", rv["pl"]))
    elif k == "rawptr":
        out.append(("refmut", rv["pl"]))
    elif k in ("binop",):
        for o in (rv["l"], rv["r"]):
            if o["k"] in ("copy", "move"):
                out.append((o["k"], o["pl"]))
    elif k in ("unop", "cast", "repeat"):
        o = rv["o"]
        if o["k"] in ("copy", "move"):
            out.append((o["k"], o["pl"]))
    elif k == "discriminant":
        out.append(("copy", rv["pl"]))
    elif k == "aggregate":
        for o in rv["ops"]:
            if o["k"] in ("copy", "move"):
                out.append((o["k"], o["pl"]))
    return out


def place_types(body, pl):
    """type path (adt path or None) of the base before each projection element"""
    res = []
    ty = body.locals[pl["l"]]["ty"]
    for pe in pl["p"]:
        t = ty
        while t is not None and t.get("k") in ("ref", "ptr"):
            t = t["to"]
        res.append(t.get("path") if t is not None and t.get("k") == "adt" else None)
        # advance type: we do not track field types here; use None afterwards unless deref
        if pe["k"] == "deref":
            if ty is not None and ty.get("k") in ("ref", "ptr"):
                ty = ty["to"]
            elif ty is not None and ty.get("k") == "adt" and ty["path"].endswith(("Box", "boxed::Box")):
                ty = ty["args"][0] if ty.get("args") else None
            else:
                ty = None
        elif pe["k"] == "field":
            ty = field_type(body.crate, t, pe) if t is not None else None
        elif pe["k"] == "downcast":
            pass
        else:
            ty = elem_type(ty)
    return res


def elem_type(ty):
    if ty is None:
        return None
    if ty.get("k") in ("slice", "array"):
        return ty["elem"]
    return None


def field_type(crate, t, pe):
    if t is None:
        return None
    if t.get("k") == "tuple":
        try:
            return t["elems"][pe["i"]]
        except (IndexError, KeyError):
            return None
    if t.get("k") == "adt":
        a = getattr(crate, "adts_all", crate.adts).get(t["path"])
        if a:
            for v in a["variants"]:
                for f in v["fields"]:
                    if f["name"] == pe.get("name"):
                        return f["ty"]
    return None


def W_store(ctx, crates, rule="S.W-store"):
    """crates: dict name -> Crate (lib, bin, server as available)"""
    ctx.rule(rule, "writers of Bdd.nodes: Bdd::new, Bdd::node, Bdd::recv (+ serde Deserialize); the only mutating operation "
                   "applied to the field is Vec::push; moves out of an owned Bdd are allowed. Writers of Bdd.cache: node, recv, serde")
    allowed_nodes = {"Bdd::new": "constructs the two constant nodes", "Bdd::node": "appends a fresh reduced unique node",
                     "Bdd::recv": "appends a received node verbatim"}
    allowed_cache = {"Bdd::new": "empty table", "Bdd::node": "registers the fresh node", "Bdd::recv": "registers the received node"}
    n = 0
    for cname, crate in crates.items():
        for field, allowed in (("nodes", allowed_nodes), ("cache", allowed_cache)):
            for (body, bb, it, role, pl, i) in field_uses(crate, "obdd::Bdd", field):
                n += 1
                fnb = crate.enclosing_fn(body if body.promoted_of is None else body.promoted_of)
                owner = fnb.qual if fnb else "?"
                is_serde = "_serde" in body.path or "serde::" in (body.impl_trait or "")
                last_proj = (i == len(pl["p"]) - 1)
                writes = False
                how = role
                if role == "write":
                    writes = True
                    how = "assignment" if last_proj else "assignment into element"
                elif role == "refmut":
                    writes = True
                    how = "mutable borrow"
                elif role == "move" and last_proj:
                    # move out of an owned value: allowed only if the base is an owned local (not behind a reference)
                    behind_ref = any(pe["k"] == "deref" for pe in pl["p"][:i])
                    writes = behind_ref
                    how = "move out through a reference"
                elif role == "drop":
                    writes = False
                if not writes:
                    continue
                if is_serde:
                    continue
                # constructor aggregate assignments do not show up as field writes; a mutable borrow must feed Vec::push / HashMap::insert
                okfn = owner in allowed
                use_ok = True
                use = None
                if role == "refmut":
                    use = mut_borrow_use(body, bb, it)
                    want = "push" if field == "nodes" else "insert"
                    use_ok = use == want
                ctx.ob(rule, "%s:%s.%s:%s" % (cname, owner, field, how), okfn and use_ok, where=body.where(it.get("loc")),
                       expected="writer in {%s} using only %s" % (", ".join(sorted(allowed)), "Vec::push" if field == "nodes" else "HashMap::insert"),
                       found="%s in %s%s" % (how, owner, (" feeding " + str(use)) if use else ""),
                       kind="unreviewed" if not okfn else "refuted")
    ctx.floor(rule, "uses of Bdd.nodes/cache examined", n, 10 if "lib" in crates else 3)


def mut_borrow_use(body, bb, stmt):
    """the method a `&mut place` temp is passed to (same block or following straight-line blocks)"""
    if stmt["k"] != "assign":
        return None
    l = stmt["pl"]["l"]
    seen = set()
    cur = bb
    alias = {l}
    while cur is not None and cur not in seen:
        seen.add(cur)
        blk = body.blocks[cur]
        for s in blk["stmts"]:
            if s["k"] == "assign" and s["rv"]["k"] in ("use", "ref"):
                src = s["rv"].get("o", {}).get("pl") if s["rv"]["k"] == "use" else s["rv"]["pl"]
                if src and src["l"] in alias:
                    alias.add(s["pl"]["l"])
        t = blk["term"]
        if t["k"] == "call":
            for a in t["args"]:
                if a["k"] in ("move", "copy") and a["pl"]["l"] in alias:
                    ci = ir.callee_of(t)
                    return flow.last(ir.callee_path(ci, False)) if ci else "<indirect>"
            cur = t["t"]
        elif t["k"] in ("goto", "falseedge", "falseunwind", "drop", "assert"):
            cur = t["t"]
        else:
            cur = None
    return None


NODE_CALLERS = {
    "Bdd::variable": "children are the constants",
    "Bdd::restrict": "children are cofactors of the children of a node with the same variable (C07.R-restrict)",
    "Bdd::if_then_else": "children are ITEs of cofactors w.r.t. the minimal top variable (C07.R-ite)",
    "From<Vec<BddNode>>::from": "replay of an exported canonical table in order (C14.F-replay)",
    "Adf::from_biodivine_vector": "replay of biodivine's ordered table bottom-up (C09.A-wire)",
}


def W_ctor(ctx, crates):
    rule = "C06.W-ctor"
    ctx.rule(rule, "frozen table of the call sites of Bdd::node with the reason each keeps children strictly below the new "
                   "node: " + "; ".join("%s (%s)" % kv for kv in NODE_CALLERS.items()) + "; any other caller is unreviewed")
    found = set()
    for cname, crate in crates.items():
        for b in crate.all_bodies:
            for bb, t, ci in b.calls():
                p = ir.callee_path(ci)
                if p == "adf_bdd::obdd::Bdd::node":
                    fnb = crate.enclosing_fn(b)
                    owner = fnb.path
                    short = None
                    ite = _ite_body(crate) if cname == "lib" else None
                    for k in NODE_CALLERS:
                        if k == "From<Vec<BddNode>>::from":
                            if "obdd::Bdd as std::convert::From<std::vec::Vec<datatypes::bdd::BddNode>>>::from" in owner:
                                short = k
                        elif k == "Bdd::if_then_else":
                            if ite is not None and owner == ite.path:
                                short = k
                        elif flow.sg(owner).endswith(k):
                            short = k
                    found.add(short or owner)
                    ctx.ob(rule, "%s:%s" % (cname, short or flow.fname(owner)), short is not None, where=b.where(t.get("loc")),
                           expected="one of the reviewed callers", found=owner, kind="unreviewed")
    for k in NODE_CALLERS:
        ctx.ob(rule, "present:" + k, k in found, expected="reviewed caller exists", found=sorted(map(str, found)), kind="anchor-lost")


def W_ctor_ext(ctx, crates):
    rule = "C06.W-ctor/ext"
    ctx.rule(rule, "no call of Bdd::node outside the library")
    n = 0
    for cname, crate in crates.items():
        for b in crate.all_bodies:
            for bb, t, ci in b.calls():
                n += 1
                if ir.callee_path(ci) == "adf_bdd::obdd::Bdd::node":
                    ctx.ob(rule, "%s:%s" % (cname, b.qual), False, where=b.where(t.get("loc")), expected="no caller of Bdd::node in bin/server",
                           found=b.path, kind="unreviewed")
    ctx.ob(rule, "census", n > 100, expected="call sites examined", found=n, nontrivial=False, kind="floor")


def R_new(ctx, lib, rule="C06.R-new"):
    ctx.rule(rule, "Bdd::new: nodes = [BddNode{Var::BOT, BOT, BOT}, BddNode{Var::TOP, TOP, TOP}] in this order (handle 0 = false, handle 1 = true), empty unique table and "
                   "memo tables, two empty supports; the constant nodes are never sent")
    try:
        b = lib.one("obdd::Bdd::new")
    except LookupError as e:
        ctx.lost(rule, "Bdd::new", str(e))
        return
    eng = ctx.engine([lib])
    paths = [p for p in eng.summarise(b, []) if p.end == "return"]
    ctx.ob(rule, "paths", len(paths) >= 1, where=b.where(), expected="returns", found=len(paths))
    bot = mk_adt(BDDNODE, "BddNode", [("var", shared.var_of(vint(VAR_BOT))), ("lo", T0), ("hi", T0)])
    top = mk_adt(BDDNODE, "BddNode", [("var", shared.var_of(vint(VAR_TOP))), ("lo", T1), ("hi", T1)])
    for p in paths:
        r = strip(p.ret)
        if not (r[0] == "adt" and r[1].endswith("obdd::Bdd")):
            ctx.cannot(rule, "shape", "a Bdd aggregate", b.where(), show(r)[:200])
            continue
        nodes = symx.adt_get(r, "nodes")
        arrs = symx.find_all(nodes, lambda n_: n_[0] == "app" and n_[1] == "array")
        ok = len(arrs) == 1 and tuple(deep_strip(x) for x in arrs[0][2]) == (bot, top)
        ctx.ob(rule, "constant-nodes", ok, where=b.where(), expected="[bot_node, top_node]", found=[show(deep_strip(x)) for x in arrs[0][2]] if arrs else show(nodes)[:200])
        cache = strip(symx.adt_get(r, "cache"))
        ctx.ob(rule, "empty-unique-table", is_call(cache, "HashMap::new"), where=b.where(), expected="cache: HashMap::new()", found=show(cache)[:100])
        for memo in ("ite_cache", "restrict_cache"):
            mv = strip(symx.adt_get(r, memo))
            ctx.ob(rule, "empty-" + memo, is_call(mv, "HashMap::new"), where=b.where(), expected="HashMap::new()", found=show(mv)[:100])
        vd = symx.adt_get(r, "var_deps")
        if vd is not None:
            a2 = symx.find_all(vd, lambda n_: n_[0] == "app" and n_[1] == "array")
            ok2 = len(a2) == 1 and len(a2[0][2]) == 2 and all(is_call(deep_strip(x), "HashSet::new") for x in a2[0][2])
            ctx.ob(rule, "empty-supports", ok2, where=b.where(), expected="var_deps: [{}, {}]", found=show(vd)[:160])
        for ch in ("sender", "receiver"):
            cv = symx.adt_get(r, ch)
            if cv is not None:
                ctx.ob(rule, "no-" + ch, strip(cv)[0] == "adt" and strip(cv)[2] == "None", where=b.where(), expected="None", found=show(cv)[:60])
    sends = [1 for p in paths for e in effects_named(p, "Sender::send")]
    ctx.ob(rule, "constants-not-sent", not sends, where=b.where(), expected="no send in Bdd::new", found=len(sends))
