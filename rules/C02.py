"""C02 - complete models."""
from mirlib import facts, flow, ir, symx
from mirlib.pat import ANY, ADT, C, CLOS, F, IDX, K, OP, P, TUP, V, match
from rules import deps, kernel, semantics, shared

EXPLANATION = """
Decided: S.T-term (is_truth_value, is_true, compare_inf, cmp_information and the biodivine counterparts), S.F-full for
Adf::complete (native fold closure table) and for var_list_from_term / var_list (biodivine restriction lists),
C02.F-check (the filter predicate is a conjunction over all positions - `all` over `enumerate`, no other exit - of
compare_inf(v[i], FULL(ac[i], v)) where the same i selects the candidate value and the acceptance condition, and the
restriction is built from the candidate itself), C02.F-seed (candidates are the three-valued refinements of the grounded
interpretation of the same object; with C20.T-digits the first candidate is that interpretation itself),
S.X-exhaust on the candidate chains (nothing short-circuits the enumeration).
Dependency suites (rules/deps.py; each obligation is a necessary condition of this property, reported under its own rule id):
kernel-build (C07.T-conn, C07.T-ite0, C07.R-ite, S.F-memo ite_cache, S.R-node, S.R-new, S.W-store, C06.W-ctor), kernel-restrict
(C07.R-restrict, S.F-memo restrict_cache) and translation (C09.A-wire, C09.A-term, C09.F-order, C09.A-name, C01.A-hybrid): an answer
is computed on diagrams built by these functions, on every back-end.  cli-plumbing (C08.F-input, C10.P-cli, C10.F-print): what every answer
printed by adf-bdd passes through, whatever the semantics. iterator-three (the C20 obligations of ThreeValuedInterpretationsIterator, whose refinements are the candidates)."""
NOT_DECIDED = "That no complete model lies outside the refinements of the grounded interpretation (a theorem about ADFs, not about code); duplicate-freeness beyond C20."
TECHNIQUE = "static analysis: expression reconstruction over MIR (index/provenance agreement), finite-domain closure tables, exhaustive-consumption rule"


def configs(tier):
    return facts.LIB_ALL if tier == "thorough" else facts.LIB_QUICK


def F_check(ctx, lib):
    rule = "C02.F-check"
    ctx.rule(rule, "native: complete = ThreeValued(grounded).filter(|v| v.iter().enumerate().all(|(i, x)| x.compare_inf(&FULL-fold(ac[i], v)))) with ac a copy of "
                   "self.ac; biodivine: filter(|v| self.ac.iter().enumerate().all(|(i, ac)| v[i].cmp_information(&ac.restrict(&var_list_from_term(v)))))")
    # ---- native
    try:
        b = lib.one("adf::Adf::complete")
        d = flow.Defs(b)
        ret = d.expr_local(0)
        env = match(ret, C("filter", C("ThreeValuedInterpretationsIterator::new", C("Adf::grounded", P(1))), CLOS("flt")))
        ctx.ob(rule, "native.chain", env is not None, where=b.where(), expected="ThreeValuedInterpretationsIterator::new(&self.grounded()).filter(..)", found=flow.show(ret)[:220])
        if env:
            fb = lib.body(env["flt"])
            fret = flow.closure_ret(lib, fb)
            e2 = match(fret, C("all", C("enumerate", C("iter", P(2))), CLOS("all")))
            ctx.ob(rule, "native.filter-is-all-over-candidate", e2 is not None, where=fb.where(), expected="candidate.iter().enumerate().all(..)", found=flow.show(fret)[:220])
            if e2:
                ab = lib.body(e2["all"])
                aret = flow.closure_ret(lib, ab)
                pat = C("Term::compare_inf", F(P(2), "1"),
                        C("fold", C("enumerate", C("iter", OP("complete::{closure#0}", 2))), IDX(F(OP("Adf::complete", 1), "ac"), F(P(2), "0")), CLOS("fold")))
                e3 = match(aret, pat)
                ctx.ob(rule, "native.position-check", e3 is not None, where=ab.where(),
                       expected="x.compare_inf(&candidate.iter().enumerate().fold(ac[i], FULL)) with (i, x) the same enumerate item and ac = self.ac.clone()",
                       found=flow.show(aret)[:320])
                # single exit of the all-closure: no early return other than the comparison
                rets = [bb for bb, t in ab.terminators() if t["k"] == "return"]
                ctx.ob(rule, "native.all-closure-single-return", len(rets) == 1, where=ab.where(), expected="one return", found=len(rets))
    except LookupError as e:
        ctx.lost(rule, "adf::Adf::complete", str(e))
    # ---- biodivine
    try:
        b = lib.one("adfbiodivine::Adf::complete")
        d = flow.Defs(b)
        ret = d.expr_local(0)
        env = match(ret, C("filter", C("from_bdd", C("Adf::grounded_internal", P(1), F(P(1), "ac"))), CLOS("flt")))
        ctx.ob(rule, "bio.chain", env is not None, where=b.where(), expected="ThreeValued::from_bdd(&self.grounded_internal(&self.ac)).filter(..)", found=flow.show(ret)[:220])
        if env:
            # from_bdd must be the three-valued one
            fb_call = ret[3][0]
            ctx.ob(rule, "bio.three-valued-candidates", "ThreeValuedInterpretationsIterator" in fb_call[1], where=b.where(), expected="ThreeValuedInterpretationsIterator::from_bdd", found=fb_call[1])
            fb = lib.body(env["flt"])
            fret = flow.closure_ret(lib, fb)
            e2 = match(fret, C("all", C("enumerate", C("iter", F(OP("Adf::complete", 1), "ac"))), CLOS("all")))
            ctx.ob(rule, "bio.filter-is-all-over-ac", e2 is not None, where=fb.where(), expected="self.ac.iter().enumerate().all(..)", found=flow.show(fret)[:220])
            if e2:
                ab = lib.body(e2["all"])
                aret = flow.closure_ret(lib, ab)
                pat = C("Term::cmp_information", IDX(OP("complete::{closure#0}", 2), F(P(2), "0")),
                        C("restrict", F(P(2), "1"), C("Adf::var_list_from_term", OP("Adf::complete", 1), OP("complete::{closure#0}", 2))))
                e3 = match(aret, pat)
                ctx.ob(rule, "bio.position-check", e3 is not None, where=ab.where(),
                       expected="candidate[i].cmp_information(&ac_i.restrict(&var_list_from_term(candidate))) with (i, ac_i) the same enumerate item",
                       found=flow.show(aret)[:320])
    except LookupError as e:
        ctx.lost(rule, "adfbiodivine::Adf::complete", str(e))
    # from_bdd helpers: map every entry through From<&Bdd>
    for ty in ("ThreeValuedInterpretationsIterator", "TwoValuedInterpretationsIterator"):
        bs = [x for x in lib.all_bodies if x.kind != "closure" and x.path.endswith("::from_bdd") and ty in x.path]
        if len(bs) != 1:
            ctx.lost(rule, ty + "::from_bdd", "one from_bdd")
            continue
        fb = bs[0]
        d = flow.Defs(fb)
        ret = d.expr_local(0)
        e = match(ret, C(ty + "::new", C("collect", C("map", C("iter", P(1)), CLOS("m")))))
        ok = e is not None
        if ok:
            mb = lib.body(e["m"])
            tg = [ci.get("impl", {}).get("args") for _, t, ci in mb.calls()]
            ok = len(tg) == 1 and tg[0] and ir.ty_str(tg[0][1]).endswith("Term")
        ctx.ob(rule, ty + "::from_bdd", ok, where=fb.where(), expected="Self::new(&bdd.iter().map(Into::<Term>::into).collect())", found=flow.show(ret)[:200])


def check(ctx):
    for cfg in configs(ctx.tier):
        ctx.cfg = cfg.name
        lib = ctx.load(cfg)
        n = shared.S_T_term(ctx, lib, which={"is_truth_value", "is_true", "compare_inf", "cmp_information", "bio_is_truth_value", "from_bio"})
        ctx.floor("S.T-term", "functions", n, 6)
        rule = "S.F-full"
        ctx.rule(rule, "restriction idiom FULL at the complete-model sites (native fold closure of Adf::complete; biodivine var_list_from_term)")
        k, seen = semantics.F_restrict_native(ctx, lib, rule, only={"Adf::complete", "Adf::grounded_internal"})
        ctx.floor(rule, "native restriction sites", k, 2)
        kb = semantics.bio_list_tables(ctx, lib, rule, which=("var_list", "var_list_from_term"))
        ctx.floor(rule, "biodivine list constructions", kb, 2)
        F_check(ctx, lib)
        rule = "S.X-exhaust"
        ctx.rule(rule, "candidate sources flow only through non-short-circuiting adaptors / exhaustive consumers")
        nx = semantics.X_exhaust(ctx, lib, rule, ("ThreeValuedInterpretationsIterator::new", "from_bdd"), only_fns={"Adf::complete"})
        ctx.floor(rule, "complete chains", nx, 2)
        deps.semantics_base(ctx, lib)
        deps.iterator(ctx, lib, "three")    # complete enumerates the refinements of grounded through the three-valued iterator
    deps.cli_plumbing(ctx)
