"""Dependency suites: rule families on which the answers of several properties rest.

A property's check includes a suite only when every obligation of the suite is a necessary condition of that property:
a refuted obligation means that for some input the property's own observable is wrong (e.g. a wrongly keyed ITE memo makes
the native diagram of some acceptance condition denote another function, hence the grounded interpretation of some ADF
is wrong - C01 - and two functions share a handle - C06).  The obligations keep their rule ids (S.*, C07.*, C09.*, C13.*), so
a defect is reported with the same key under every property it breaks.

Results are memoised per (suite, configuration) inside one process (C12 evaluates many rule modules in one run)."""
from rules import framework, kernel

_CACHE = {}


def _run(ctx, name, cfgname, fn):
    key = (name, cfgname, ctx.tier)
    if key not in _CACHE:
        sub = framework.Context(ctx.prop, ctx.tier, ctx.seed)
        sub.crates = ctx.crates
        sub.configs_used = ctx.configs_used
        sub.stats = ctx.stats
        sub.cfg = cfgname
        fn(sub)
        _CACHE[key] = (list(sub.obligations), dict(sub.rule_texts))
    obs, texts = _CACHE[key]
    for o in obs:
        ctx.obligations.append(o)
        if ctx.verbose and not o.ok:
            print("  [%s] %s %s" % (o.kind.upper(), o.rule, o.key))
    for k, v in texts.items():
        ctx.rule_texts.setdefault(k, v)


def kernel_build(ctx, lib):
    """construction of diagrams: connectives, ITE (shortcuts, Shannon step, memo), node creation, store discipline"""
    def fn(c):
        kernel.T_conn(c, lib)
        kernel.ite_rules(c, lib)
        n = kernel.F_memo(c, lib, which=("ite",))
        c.floor("S.F-memo", "ite_cache inserts", n, 1)
        kernel.R_node(c, lib, "frontend" in lib.features)
        kernel.R_new(c, lib)
        kernel.W_store(c, {"lib": lib})
        kernel.W_ctor(c, {"lib": lib})
    _run(ctx, "kernel_build", ctx.cfg, fn)


NODE_FUNCTION_KEYS = ("fresh.push-node", "fresh.returns-len-before-push", "fresh.cache-registers", "hit.returns-cached", "reduced.returns-lo",
                      "path-unclassified", "node")


def node_function(ctx, lib):
    """the obligations of S.R-node that the *function* denoted by the returned handle depends on (not the reduction / uniqueness guards,
    whose loss leaves every function intact and only breaks canonicity - C06)"""
    def fn(c):
        kernel.R_node(c, lib, "frontend" in lib.features)
        c.obligations = [o for o in c.obligations if o.rule != "S.R-node" or o.key in NODE_FUNCTION_KEYS or o.kind == "anchor-lost"]
        c.obligations = [o for o in c.obligations if o.rule == "S.R-node"]
    _run(ctx, "node_function", ctx.cfg, fn)


def kernel_restrict(ctx, lib):
    """restriction (cofactor) and its memo"""
    def fn(c):
        kernel.R_restrict(c, lib)
        n = kernel.F_memo(c, lib, which=("restrict",))
        c.floor("S.F-memo", "restrict_cache inserts examined (vacuity guard)", n, 1)
    _run(ctx, "kernel_restrict", ctx.cfg, fn)


def translation(ctx, lib):
    """formula -> biodivine expression, biodivine diagram -> native store (wire format), variable order and naming"""
    from rules import C01, C09

    def fn(c):
        C09.A_wire_writer(c)
        c.cfg = ctx.cfg
        C09.A_wire_reader(c, lib)
        C09.A_term(c, lib)
        C09.F_order(c, lib)
        C09.A_name(c, lib)
        C01.A_hybrid(c, lib)
    _run(ctx, "translation", ctx.cfg, fn)


def cubes(ctx, lib):
    """Bdd::interpretations: the path cubes the counting-guided search branches on"""
    from rules import C13

    def fn(c):
        C13.R_cubes(c, lib)
    _run(ctx, "cubes", ctx.cfg, fn)


def nogood_primitives(ctx, lib):
    """the nogood store as the learner uses it (default Equiv mode): primitive tables, conflict test, final scan, closure exits, add_ng (incl. the empty nogood).
    A spurious conflict prunes a consistent branch of the search (models are lost), an unsound conclusion forces a wrong value."""
    from rules import C18

    def fn(c):
        C18.T_prim(c, lib)
        C18.T_subsume(c, lib)
        C18.T_conflict(c, lib)
        C18.P_final(c, lib)
        C18.closure_exits(c, lib)
    _run(ctx, "nogood_primitives", ctx.cfg, fn)


def iterator(ctx, lib, which):
    """which = 'two' (candidates of the stable enumeration) or 'three' (candidates of the complete enumeration): the C20 obligations of that iterator only"""
    from rules import C20

    def fn(c):
        C20.F_frozen_new(c, lib)
        if which == "three":
            C20.three_next(c, lib)
            C20.three_decrement(c, lib)
        else:
            C20.two_next(c, lib)
        other = "two" if which == "three" else "three"
        c.obligations = [o for o in c.obligations if not str(o.key).startswith(other + ".") and not (which == "two" and o.rule == "C20.T-digits")]
    _run(ctx, "iterator-" + which, ctx.cfg, fn)


def stability_check(ctx, lib):
    """Adf::stability_check as the acceptance test of the counting-guided and the nogood search: the C03.F-check obligations of that function (reduct built from the
    candidate itself, grounded_internal of the reduct, comparison at every position)"""
    from rules import C03

    def fn(c):
        C03.F_check(c, lib)
        c.obligations = [o for o in c.obligations if str(o.key).startswith("stability_check")]
    _run(ctx, "stability_check", ctx.cfg, fn)


def semantics_base(ctx, lib):
    """everything an answer computed from a parsed ADF on any back-end rests on"""
    kernel_build(ctx, lib)
    kernel_restrict(ctx, lib)
    translation(ctx, lib)


def library_semantics(ctx, lib_cfgs, modules=("C01", "C02", "C03", "C04", "C05")):
    """the complete rule suites of the library-level semantics properties, evaluated under the given lib configurations: an interface
    property (CLI, web service) that promises 'exactly the interpretations the definitions prescribe' rests on all of them"""
    import importlib
    from mirlib import facts
    for name in modules:
        key = ("module", name, tuple(c.name for c in lib_cfgs), ctx.tier)
        if key not in _CACHE:
            mod = importlib.import_module("rules." + name)
            sub = framework.Context(name, ctx.tier, ctx.seed)
            sub.crates = ctx.crates
            sub.configs_used = ctx.configs_used
            sub.stats = ctx.stats
            saved = mod.configs
            try:
                mod.configs = lambda tier, c=lib_cfgs: c
                try:
                    mod.check(sub)
                except Exception as e:  # noqa
                    sub.ob("engine", "%s:exception" % name, False, expected="rule suite of %s runs" % name, found="%s: %s" % (type(e).__name__, e), kind="engine")
            finally:
                mod.configs = saved
            _CACHE[key] = (list(sub.obligations), dict(sub.rule_texts))
        obs, texts = _CACHE[key]
        seen = set((o.rule, o.key, o.config) for o in ctx.obligations)
        for o in obs:
            if (o.rule, o.key, o.config) in seen:
                continue
            ctx.obligations.append(o)
        for k, v in texts.items():
            ctx.rule_texts.setdefault(k, v)


def cli_plumbing(ctx):
    """what every answer printed by the CLI passes through, whatever the semantics: the text read is the text parsed (C08.F-input), no variable sort after an ADF
    was constructed (C10.P-cli: the labels would be permuted against the values), T/F/u and the statement's own name at every position (C10.F-print).  The
    per-flag rules of C15 are not included: a defect in the --stm arm does not break the grounded interpretation."""
    from mirlib import facts
    from rules import C08, C10

    def fn(c):
        c.cfg = "bin@default"
        bin_ = c.load(facts.Config("bin"))
        C10.P_cli(c, bin_)
        C08.F_input(c, bin_, "bin", 3)
        c.cfg = "lib@default"
        C10.F_print(c, c.load(facts.Config("lib")))
    saved = ctx.cfg
    _run(ctx, "cli_plumbing", "bin@default", fn)
    ctx.cfg = saved
