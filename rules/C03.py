"""C03 - enumerate-and-check stable semantics."""
from mirlib import facts, flow, ir, symx
from mirlib.pat import ANY, ADT, C, CLOS, F, IDX, K, OP, P, TUP, V, match
from rules import deps, kernel, semantics, shared
from rules.kernel import deep_strip, strip, is_call

EXPLANATION = """
Decided: S.T-term; S.F-reduct for the five native and two biodivine reduct constructions (only false statements are
substituted, under their own index; the pre-filter of stable_with_prefilter is FULL); C03.F-check (the acceptance test
compares, position by position over the whole vector, the candidate with grounded_internal(reduct) of the same candidate
through compare_inf / cmp_information; the vector handed to grounded_internal is the one the reduct loop wrote;
stability_check's indexed loop uses the same index on both sides and answers false exactly on a mismatch);
C03.F-cand (candidates are the two-valued completions of the grounded interpretation, or biodivine sat_valuations mapped
value(var) -> TOP/BOT iterating self.vars in order); C03.A-rewrite (stable_representation and stm_rewriting build
AND_i (ac_i <-> x_i) with x_i the variable named ordering.name(Var(i)) for the same i); C03.T-sentinel (the placeholder
pair emitted by the pre-filter is class-unequal at position 0, hence dropped); S.X-exhaust on all candidate chains.
Dependency suites (rules/deps.py; each obligation is a necessary condition of this property, reported under its own rule id):
kernel-build (C07.T-conn, C07.T-ite0, C07.R-ite, S.F-memo ite_cache, S.R-node, S.R-new, S.W-store, C06.W-ctor), kernel-restrict
(C07.R-restrict, S.F-memo restrict_cache) and translation (C09.A-wire, C09.A-term, C09.F-order, C09.A-name, C01.A-hybrid): an answer
is computed on diagrams built by these functions, on every back-end.  cli-plumbing (C08.F-input, C10.P-cli, C10.F-print): what every answer
printed by adf-bdd passes through, whatever the semantics. iterator-two (the C20 obligations of TwoValuedInterpretationsIterator, whose completions are the candidates)."""
NOT_DECIDED = "Equality with the definitional set for all ADFs; biodivine's sat_valuations/eval_expression are trusted."
TECHNIQUE = "static analysis: finite-domain closure tables (reduct idiom), expression reconstruction with index/provenance agreement, exhaustive-consumption rule"

COMPARE = ("Term::compare_inf", "Term::cmp_information")


def configs(tier):
    return facts.LIB_ALL if tier == "thorough" else facts.LIB_QUICK


def zip_all_check(ctx, lib, rule, key, body, left_pat, right_pred, cmp_name):
    """closure/fn `body` returns left.iter().zip(right.iter()).all(|(a, b)| a.cmp(b))"""
    ret = flow.closure_ret(lib, body) if body.kind == "closure" else flow.Defs(body).expr_local(0)
    env = match(ret, C("all", C("zip", C("iter", V("L")), C("iter", V("R"))), CLOS("cmp")))
    ok = env is not None
    why = flow.show(ret)[:300]
    if ok:
        ok = match(env["L"], left_pat) is not None and right_pred(env["R"])
        if ok:
            cb = lib.body(env["cmp"])
            cret = flow.closure_ret(lib, cb)
            ok = match(cret, C(cmp_name, F(P(2), "0"), F(P(2), "1"))) is not None
            rets = [bb for bb, t in cb.terminators() if t["k"] == "return"]
            ok = ok and len(rets) == 1
            if not ok:
                why = "comparison closure: " + flow.show(cret)[:200]
    ctx.ob(rule, key, ok, where=body.where(), expected="candidate.iter().zip(grounded_of_reduct.iter()).all(|(a, b)| a.%s(b))" % cmp_name.split("::")[-1], found=why)
    return env


def reduct_vector_link(ctx, lib, rule, key, body):
    """in `body`: the vector passed to grounded_internal is the local the reduct for-loop iterates mutably (a copy of self.ac)"""
    calls, d = flow.all_call_exprs(body)
    gi = [(bb, t, e) for bb, t, ci, e in calls if e[0] == "call" and flow.sg(e[1]).endswith("adf::Adf::grounded_internal")
          and flow.sg(ir.callee_path(ci) or "").endswith("adf::Adf::grounded_internal")]
    if len(gi) != 1:
        ctx.cannot(rule, key + ".grounded-call", "one grounded_internal call on the reduct", body.where(), len(gi))
        return None
    arg = gi[0][2][3][1]
    # the for loop over iter_mut
    loops = [(bb, t, e) for bb, t, ci, e in calls if e[0] == "call" and flow.last(e[2]) == "next" and "d:ForLoop" in (t.get("exp") or [])]
    srcs = []
    for bb, t, e in loops:
        src, steps = flow.chain_of(e)
        if [s_[0] for s_ in steps][:1] == ["iter_mut"]:
            srcs.append(src)
    caps = flow.resolve_captures(lib, body) or [] if body.kind == "closure" else []
    a2 = flow.subst_upvars(arg, caps)
    ok = len(srcs) == 1 and srcs[0] == arg
    is_ac_copy = match(a2, C("clone", F(ANY, "ac"))) is not None
    ctx.ob(rule, key + ".reduct-vector", ok and is_ac_copy, where=body.where(gi[0][1].get("loc")),
           expected="grounded_internal(&interpr) with interpr = self.ac.clone() rewritten by the reduct loop", found="arg %s; loop over %s" % (flow.show(a2)[:120], [flow.show(x)[:80] for x in srcs]))
    return gi[0][2]


def F_check(ctx, lib):
    rule = "C03.F-check"
    ctx.rule(rule, "every stable variant keeps a candidate iff, position by position over the whole vector, it has the same information value as "
                   "grounded_internal(reduct(candidate)); the reduct vector is the one rewritten by the REDUCT loop for that candidate")
    # ---- Adf::stable / stable_with_prefilter: map -> filter -> map
    for name in ("stable", "stable_with_prefilter"):
        try:
            b = lib.one("adf::Adf::" + name)
        except LookupError as e:
            ctx.lost(rule, name, str(e))
            continue
        d = flow.Defs(b)
        ret = d.expr_local(0)
        env = match(ret, C("map", C("filter", C("map", C("TwoValuedInterpretationsIterator::new", C("Adf::grounded", P(1))), CLOS("m1")), CLOS("flt")), CLOS("m2")))
        ctx.ob(rule, name + ".chain", env is not None, where=b.where(), expected="TwoValued(grounded).map(check).filter(same information).map(candidate)", found=flow.show(ret)[:260])
        if not env:
            continue
        m1 = lib.body(env["m1"])
        gi = reduct_vector_link(ctx, lib, rule, name, m1)
        # m1 returns (candidate, grounded_check)
        eng = ctx.engine([lib], no_inline={"adf_bdd::adf::Adf::grounded_internal", semantics.RESTRICT})
        m1ret = flow.closure_ret(lib, m1)
        if name == "stable":
            ok = match(m1ret, TUP(P(2), C("Adf::grounded_internal", ANY, ANY))) is not None
            ctx.ob(rule, name + ".pair", ok, where=m1.where(), expected="(candidate, grounded_internal(reduct))", found=flow.show(m1ret)[:200])
        else:
            # two exits: checked pair, or the sentinel
            sentinel_rule(ctx, lib, m1)
        flt = lib.body(env["flt"])
        zip_all_check(ctx, lib, rule, name + ".filter", flt, F(P(2), "0"), lambda r: match(r, F(P(2), "1")) is not None, "Term::compare_inf")
        m2 = lib.body(env["m2"])
        ctx.ob(rule, name + ".yields-candidate", match(flow.closure_ret(lib, m2), F(P(2), "0")) is not None, where=m2.where(), expected="|(int, _)| int",
               found=flow.show(flow.closure_ret(lib, m2))[:120])
    # ---- Adf::stable_bdd_representation
    try:
        b = lib.one("adf::Adf::stable_bdd_representation")
        d = flow.Defs(b)
        ret = d.expr_local(0)
        env = match(ret, C("collect", C("filter", C("into_iter", C("Adf::stable_model_candidates", P(2))), CLOS("flt"))))
        ctx.ob(rule, "stable_bdd_representation.chain", env is not None, where=b.where(), expected="biodivine.stable_model_candidates().into_iter().filter(..).collect()", found=flow.show(ret)[:260])
        if env:
            flt = lib.body(env["flt"])
            reduct_vector_link(ctx, lib, rule, "stable_bdd_representation", flt)
            zip_all_check(ctx, lib, rule, "stable_bdd_representation.filter", flt, P(2),
                          lambda r: r[0] == "call" and flow.sg(r[1]).endswith("adf::Adf::grounded_internal"), "Term::compare_inf")
    except LookupError as e:
        ctx.lost(rule, "stable_bdd_representation", str(e))
    # ---- Adf::stability_check (indexed loop)
    try:
        b = lib.one("adf::Adf::stability_check")
        reduct_vector_link(ctx, lib, rule, "stability_check", b)
        eng = ctx.engine([lib], no_inline={"adf_bdd::adf::Adf::grounded_internal", semantics.RESTRICT, "adf_bdd::datatypes::bdd::Term::compare_inf"})
        paths = eng.summarise(b)
        loops = b.natural_loops()
        seen = set()
        for p in paths:
            cmp_ = [(deep_strip(kernel.unloop(e)), v) for e, v in p.cond if is_call(deep_strip(e), "Term::compare_inf")]
            if p.end == "return" and strip(p.ret) == symx.vbool(False):
                seen.add("false")
                ok = len(cmp_) == 1 and kernel.int_of(cmp_[0][1]) == 0
                if ok:
                    e = cmp_[0][0]
                    a, b_ = deep_strip(e[2][0]), deep_strip(e[2][1])
                    # a = item.1 of enumerate over grounded_internal result, b = interpretation[item.0]
                    item = a[1] if a[0] == "field" and a[2] == "1" else None
                    ok = (item is not None and symx.contains(item, lambda n: n[0] == "app" and flow.last(n[1]) == "grounded_internal")
                          and b_[0] == "index" and b_[2] == ("field", item, "0") and symx.contains(b_[1], lambda n: n == ("sym", "*arg2") or n == ("sym", "arg2")))
                ctx.ob(rule, "stability_check.false-iff-mismatch", ok, where=b.where(), expected="false exactly when grd[i].compare_inf(&interpretation[i]) fails, same i", found=p.describe()[:300])
            elif p.end == "return" and strip(p.ret) == symx.vbool(True):
                seen.add("true")
                ok = not [1 for e, v in cmp_ if kernel.int_of(v) == 0]
                nxt = kernel.cond_val(p, lambda e: e[0] == "app" and e[1] == "discr" and symx.contains(e, lambda n: n[0] == "app" and flow.last(n[1]) == "next"))
                ctx.ob(rule, "stability_check.true-only-after-all", ok and kernel.int_of(nxt) == 0, where=b.where(), expected="true only when the loop is exhausted without mismatch", found=p.describe()[:240])
        # every position is compared: a round of the comparison loop (item fetched, back edge taken) carries the comparison of that item - a guard that skips
        # the comparison for some positions (e.g. only the accepted statements) lets non-models through
        for p in paths:
            nxt_ = kernel.cond_val(p, lambda e: e[0] == "app" and e[1] == "discr" and symx.contains(e, lambda n: n[0] == "app" and flow.last(n[1]) == "next")
                                   and symx.contains(e, lambda n: n[0] == "app" and flow.last(str(n[1])) == "grounded_internal"))
            if p.end == "backedge" and nxt_ is not None and kernel.int_of(nxt_) == 1:
                cmpv = [kernel.int_of(v) for e, v in p.cond if is_call(deep_strip(e), "Term::compare_inf")]
                ctx.ob(rule, "stability_check.every-position-compared", cmpv == [1], where=b.where(), expected="each round evaluates grd[i].compare_inf(&interpretation[i])", found=p.describe()[:240])
        for p in paths:
            cmp_ = [kernel.int_of(v) for e, v in p.cond if is_call(deep_strip(e), "Term::compare_inf")]
            if 0 in cmp_:
                ctx.ob(rule, "stability_check.mismatch-always-false", p.end == "return" and strip(p.ret) == symx.vbool(False), where=b.where(),
                       expected="every path on which a position differs returns false", found=p.describe()[:260])
        if not seen:
            # the iterator spelling of the same comparison: grd.iter().zip(interpretation.iter()).all(|(g, i)| g.compare_inf(i)) (either operand order; compare_inf is symmetric)
            ret = flow.Defs(b).expr_local(0)
            env = match(ret, C("all", C("zip", C("iter", V("L")), C("iter", V("R"))), CLOS("cmp")))
            okz = False
            # third spelling: grd.iter().enumerate().all(|(idx, g)| g.compare_inf(&interpretation[idx])) - the indexed comparison as a closure
            env_e = match(ret, C("all", C("enumerate", C("iter", V("L"))), CLOS("cmp"))) if env is None else None
            if env_e is not None:
                is_grd = bool(flow.find(env_e["L"], lambda n_: n_[0] == "call" and flow.sg(n_[1]).endswith("adf::Adf::grounded_internal")))
                cb = lib.body(env_e["cmp"])
                cret = flow.subst_upvars(flow.closure_ret(lib, cb), flow.resolve_captures(lib, cb) or [])
                item_v, item_i = F(P(2), "1"), F(P(2), "0")
                other = IDX(OP(flow.sg(b.path).split("::", 1)[-1], 2), item_i)
                cmp_ok = match(cret, C("Term::compare_inf", item_v, other)) is not None or match(cret, C("Term::compare_inf", other, item_v)) is not None
                okz = is_grd and cmp_ok and len([1 for bb_, t_ in cb.terminators() if t_["k"] == "return"]) == 1
            if env is not None:
                is_grd = lambda r: bool(flow.find(r, lambda n_: n_[0] == "call" and flow.sg(n_[1]).endswith("adf::Adf::grounded_internal")))
                is_int = lambda r: match(r, P(2)) is not None
                sides = (is_grd(env["L"]) and is_int(env["R"])) or (is_int(env["L"]) and is_grd(env["R"]))
                cb = lib.body(env["cmp"])
                cret = flow.closure_ret(lib, cb)
                cmp_ok = match(cret, C("Term::compare_inf", F(P(2), "0"), F(P(2), "1"))) is not None or match(cret, C("Term::compare_inf", F(P(2), "1"), F(P(2), "0"))) is not None
                okz = sides and cmp_ok and len([1 for bb_, t_ in cb.terminators() if t_["k"] == "return"]) == 1
            ctx.ob(rule, "stability_check.false-iff-mismatch", okz, where=b.where(), expected="grounded_internal(reduct).iter().zip(interpretation.iter()).all(|(g, i)| g.compare_inf(i)), or the indexed loop",
                   found=flow.show(ret)[:260])
        else:
            ctx.ob(rule, "stability_check.exits", seen == {"true", "false"}, where=b.where(), expected="true and false exits", found=sorted(seen))
    except LookupError as e:
        ctx.lost(rule, "stability_check", str(e))
    # ---- biodivine stable / stable_bdd_representation
    for name in ("stable", "stable_bdd_representation"):
        try:
            b = lib.one("adfbiodivine::Adf::" + name)
        except LookupError as e:
            ctx.lost(rule, "bio." + name, str(e))
            continue
        d = flow.Defs(b)
        ret = d.expr_local(0)
        if name == "stable":
            env = match(ret, C("filter", C("from_bdd", C("Adf::grounded_internal", P(1), F(P(1), "ac"))), CLOS("flt")))
            okty = env is not None and "TwoValuedInterpretationsIterator" in ret[3][0][1]
            ctx.ob(rule, "bio.stable.chain", okty, where=b.where(), expected="TwoValued::from_bdd(&self.grounded_internal(&self.ac)).filter(..)", found=flow.show(ret)[:240])
        else:
            env = match(ret, C("collect", C("filter", C("into_iter", C("Adf::stable_model_candidates", P(1))), CLOS("flt"))))
            ctx.ob(rule, "bio.stable_bdd_representation.chain", env is not None, where=b.where(), expected="self.stable_model_candidates().into_iter().filter(..).collect()", found=flow.show(ret)[:240])
        if not env:
            continue
        flt = lib.body(env["flt"])

        def right(r, flt=flt):
            # grounded_internal(self, collect(map(iter(self.ac), |ac| ac.restrict(&reduction_list))))
            e = match(r, C("Adf::grounded_internal", ANY, C("collect", C("map", C("iter", F(ANY, "ac")), CLOS("rm")))))
            if e is None:
                return False
            rm = lib.body(e["rm"])
            rret = flow.closure_ret(lib, rm)
            e2 = match(rret, C("restrict", P(2), C("collect", C("filter_map", C("enumerate", C("iter", F(ANY, "vars"))), CLOS("red", [OP(flow.sg(flt.path).split("::", 1)[-1], 2)])))))
            if e2 is None:
                # the reduction list as filter(..).map(..) (its table: S.F-reduct)
                e2 = match(rret, C("restrict", P(2), C("collect", C("map", C("filter", C("enumerate", C("iter", F(ANY, "vars"))), CLOS("redf", [OP(flow.sg(flt.path).split("::", 1)[-1], 2)])), CLOS("redm")))))
            return e2 is not None
        zip_all_check(ctx, lib, rule, "bio.%s.filter" % name, flt, P(2), right, "Term::cmp_information")


def sentinel_rule(ctx, lib, m1):
    rule = "C03.T-sentinel"
    ctx.rule(rule, "stable_with_prefilter: a candidate failing the pre-filter (FULL two-valued-model test over all positions) is replaced by a pair that "
                   "is class-unequal at position 0 (dropped by the following filter); a passing candidate is paired with grounded_internal(reduct)")
    eng = ctx.engine([lib], no_inline={"adf_bdd::adf::Adf::grounded_internal", semantics.RESTRICT})
    st = symx.State()
    env = eng.closure_env(st, m1, [("sym", "self")])
    CAND = ("sym", "cand")
    paths = eng.summarise(m1, [env, CAND], st)
    seen = set()
    for p in paths:
        if p.end != "return":
            continue
        r = strip(p.ret)
        allc = [(deep_strip(e), v) for e, v in p.cond if is_call(deep_strip(e), "Iterator::all")]
        if len(allc) != 1:
            ctx.cannot(rule, "prefilter-test", "one `all` test of the pre-filter", m1.where(), p.describe()[:200])
            continue
        passed = kernel.int_of(allc[0][1]) == 1
        if passed:
            seen.add("pass")
            ok = r[0] == "tuple" and strip(r[1][0]) == CAND and is_call(strip(r[1][1]), "Adf::grounded_internal")
            ctx.ob(rule, "pass.pair", ok, where=m1.where(), expected="(candidate, grounded_internal(reduct))", found=symx.show(r)[:200])
        else:
            seen.add("fail")
            ok = False
            if r[0] == "tuple" and len(r[1]) == 2:
                a, b_ = deep_strip(r[1][0]), deep_strip(r[1][1])
                ta = symx.find_all(a, lambda n: n[0] == "adt" and n[1] == shared.TERM)
                tb = symx.find_all(b_, lambda n: n[0] == "adt" and n[1] == shared.TERM)
                if len(ta) == 1 and len(tb) == 1:
                    ca, cb = shared.cls_of_term(ta[0]), shared.cls_of_term(tb[0])
                    ok = ca is not None and cb is not None and ca != cb
            ctx.ob(rule, "fail.sentinel-unequal", ok, where=m1.where(), expected="single-element vectors of different class", found=symx.show(r)[:200])
        # the pre-filter ranges over the candidate
        a = allc[0][0]
        ok2 = symx.contains(a[2][0], lambda n: n == CAND) and symx.contains(a[2][0], lambda n: n[0] == "app" and flow.last(n[1]) == "enumerate")
        ctx.ob(rule, "prefilter-over-candidate", ok2, where=m1.where(), expected="candidate.iter().enumerate().all(..)", found=symx.show(a)[:200])
    ctx.ob(rule, "cases", seen == {"pass", "fail"}, where=m1.where(), expected="pass and fail branches", found=sorted(seen))
    # the all-closure of the pre-filter: compare_inf(it, FULL-fold(self.ac[i], candidate)) same i
    for c in lib.closures_of(m1):
        parent_roles, _ = flow.closure_roles(m1)
        r = parent_roles.get(c.path)
        if r is None or r.adaptor != "all":
            continue
        aret = flow.closure_ret(lib, c)
        pat = C("Term::compare_inf", F(P(2), "1"), C("fold", C("enumerate", C("iter", OP(flow.sg(m1.path).split("::", 1)[-1], 2))),
                                                     IDX(F(OP("Adf::stable_with_prefilter", 1), "ac"), F(P(2), "0")), CLOS("fold")))
        ctx.ob(rule, "prefilter-position-check", match(aret, pat) is not None, where=c.where(),
               expected="it.compare_inf(&candidate.iter().enumerate().fold(self.ac[i], FULL)), (i, it) the same item", found=flow.show(aret)[:300])


def F_cand(ctx, lib):
    rule = "C03.F-cand"
    ctx.rule(rule, "stable_model_candidates maps every sat valuation of the rewriting to self.vars.iter().map(|var| if valuation.value(*var) {TOP} else {BOT}); "
                   "the rewriting is self.rewrite if present else stable_representation()")
    try:
        b = lib.one("adfbiodivine::Adf::stable_model_candidates")
    except LookupError as e:
        ctx.lost(rule, "stable_model_candidates", str(e))
        return
    d = flow.Defs(b)
    ret = d.expr_local(0)
    env = match(ret, C("collect", C("map", C("sat_valuations", V("sr")), CLOS("outer"))))
    ctx.ob(rule, "chain", env is not None, where=b.where(), expected="sr.sat_valuations().map(..).collect()", found=flow.show(ret)[:240])
    if env:
        ob = lib.body(env["outer"])
        oret = flow.closure_ret(lib, ob)
        e2 = match(oret, C("collect", C("map", C("iter", F(OP("Adf::stable_model_candidates", 1), "vars")), CLOS("inner", [P(2)]))))
        ctx.ob(rule, "per-valuation", e2 is not None, where=ob.where(), expected="self.vars.iter().map(..).collect() in variable order", found=flow.show(oret)[:240])
        if e2:
            ib = lib.body(e2["inner"])
            eng = ctx.engine([lib])
            got = {}
            for val in (True, False):
                st = symx.State()
                VAL = ("sym", "valuation")
                VAR = ("sym", "var")

                def hook(eng_, st_, frame, path, target, args, t, val=val):
                    if flow.last(target) == "value" and "biodivine" in target:
                        a0 = strip(symx.deref_val(eng_, st_, args[0])) if args[0][0] == "ref" else strip(args[0])
                        if symx.contains(a0, lambda n: n == VAL) and strip(args[1]) == VAR:
                            return [(st_, symx.vbool(val))]
                        return [(st_, ("sym", "wrong-operands"))]
                    return NotImplemented
                eng.call_hook = hook
                env_ = eng.closure_env(st, ib, [VAL])
                paths = eng.summarise(ib, [env_, shared.ref_to(st, VAR)], st)
                eng.call_hook = None
                got[val] = set(shared.cls_of_term(p.ret) if p.end == "return" else p.end for p in paths)
            ctx.ob(rule, "value-table", got == {True: {"T"}, False: {"B"}}, where=ib.where(), expected="valuation.value(var): true->TOP, false->BOT", found=str(got))
    # which rewriting is used
    eng = ctx.engine([lib], no_inline={"adf_bdd::adfbiodivine::Adf::stable_representation"})
    calls = [flow.sg(ir.callee_path(ci) or "") for _, t, ci in b.calls()]
    import json as _json
    reads_rewrite = any(c.endswith("has_stm_rewriting") for c in calls) or '"name": "rewrite"' in _json.dumps(b.blocks)
    ctx.ob(rule, "fallback-rewriting", any(c.endswith("Adf::stable_representation") for c in calls) and reads_rewrite,
           where=b.where(), expected="uses self.rewrite when present, otherwise stable_representation()", found=[c.split("::")[-1] for c in calls][:8])


def A_rewrite(ctx, lib):
    rule = "C03.A-rewrite"
    ctx.rule(rule, "stable_representation = fold over self.ac.iter().enumerate() of acc AND (ac_i <-> the biodivine variable of position i, named by the tree's naming scheme: shared.bio_naming), starting from true; "
                   "stm_rewriting = fold over formula_order().iter().enumerate() of And(acc, Iff(Variable(name(Var(*new_order))), ac_at(insert_order).to_boolean_expr())), "
                   "starting from Const(true), stored in self.rewrite")
    try:
        b = lib.one("adfbiodivine::Adf::stable_representation")
        d = flow.Defs(b)
        ret = d.expr_local(0)
        env = match(ret, C("fold", C("enumerate", C("iter", F(P(1), "ac"))), C("eval_expression", F(P(1), "varset"), ADT("Const", _0=K(True))), CLOS("f")))
        ctx.ob(rule, "stable_representation.fold", env is not None, where=b.where(), expected="self.ac.iter().enumerate().fold(true, ..)", found=flow.show(ret)[:260])
        if env:
            fb = lib.body(env["f"])
            fret = flow.closure_ret(lib, fb)
            names, scheme, info = shared.position_name_pats(lib, F(P(3), "0"))
            ok = False
            for nm in names:
                var_i = C("eval_expression", F(ANY, "varset"), ADT("Variable", _0=nm))
                pat1 = C("and", P(2), C("iff", F(P(3), "1"), var_i))
                pat2 = C("and", P(2), C("iff", var_i, F(P(3), "1")))
                ok = ok or match(fret, pat1) is not None or match(fret, pat2) is not None
            ctx.ob(rule, "stable_representation.step", ok, where=fb.where(), expected="acc.and(&ac_i.iff(&var(name(Var(i))))) with (i, ac_i) the same item", found=flow.show(fret)[:340])
    except LookupError as e:
        ctx.lost(rule, "stable_representation", str(e))
    try:
        b = lib.one("adfbiodivine::Adf::stm_rewriting")
        roles, d = flow.closure_roles(b)
        folds = [r for r in roles.values() if r.adaptor == "fold"]
        ok = len(folds) == 1
        if ok:
            r = folds[0]
            e = match(r.call, C("fold", C("enumerate", C("iter", C("AdfParser::formula_order", P(2)))), ADT("Const", _0=K(True)), CLOS("f")))
            ctx.ob(rule, "stm_rewriting.fold", e is not None, where=b.where(), expected="parser.formula_order().iter().enumerate().fold(Const(true), ..)", found=flow.show(r.call)[:260])
            if e:
                fb = lib.body(e["f"])
                fret = flow.closure_ret(lib, fb)
                names, scheme, info = shared.position_name_pats(lib, F(P(3), "1"))
                form = C("Formula::to_boolean_expr", C("expect", C("AdfParser::ac_at", OP("Adf::stm_rewriting", 2), F(P(3), "0")), ANY), exact=False)
                okm = False
                for nm in names:
                    var_i = ADT("Variable", _0=nm)
                    pat1 = ADT("And", _0=C("Box::new", P(2)), _1=C("Box::new", ADT("Iff", _0=C("Box::new", var_i), _1=C("Box::new", form))))
                    pat2 = ADT("And", _0=C("Box::new", P(2)), _1=C("Box::new", ADT("Iff", _0=C("Box::new", form), _1=C("Box::new", var_i))))
                    okm = okm or match(fret, pat1) is not None or match(fret, pat2) is not None
                ctx.ob(rule, "stm_rewriting.step", okm, where=fb.where(),
                       expected="And(acc, Iff(Variable(name(Var(*new_order))), ac_at(insert_order).to_boolean_expr())) with (insert_order, new_order) the same item", found=flow.show(fret)[:400])
            # stored into self.rewrite as eval_expression(&expr)
            stored = False
            for bb, i, s_ in b.statements():
                if s_["k"] == "assign" and any(pe["k"] == "field" and pe.get("name") == "rewrite" for pe in s_["pl"]["p"]):
                    ex = d.expr_rvalue(s_["rv"])
                    stored = match(ex, ADT("Some", _0=C("eval_expression", F(P(1), "varset"), V("x")))) is not None and match(ex[3][0][1][3][1], C("fold", ANY, ANY, ANY)) is not None
            ctx.ob(rule, "stm_rewriting.stored", stored, where=b.where(), expected="self.rewrite = Some(self.varset.eval_expression(&expr))", found=stored)
        else:
            ctx.cannot(rule, "stm_rewriting.fold", "one fold", b.where(), [r.adaptor for r in roles.values()])
    except LookupError as e:
        ctx.lost(rule, "stm_rewriting", str(e))


def check(ctx):
    for cfg in configs(ctx.tier):
        ctx.cfg = cfg.name
        lib = ctx.load(cfg)
        n = shared.S_T_term(ctx, lib, which={"is_truth_value", "is_true", "compare_inf", "cmp_information", "bio_is_truth_value", "from_bio"})
        ctx.floor("S.T-term", "functions", n, 6)
        rule = "S.F-reduct"
        ctx.rule(rule, "restriction idiom REDUCT at the reduct sites: class(entry i) B -> restrict(acc, Var(i), false); T, U -> acc (native: stable, "
                       "stable_bdd_representation, stability_check, second half of stable_with_prefilter; biodivine: the two reduction_list closures); "
                       "FULL for the pre-filter and for grounded_internal, which every check calls")
        # (Adf::stability_check is not part of this property: it is the acceptance test of the counting-guided and the nogood search, C04 / C05)
        k, seen = semantics.F_restrict_native(ctx, lib, rule, only={"Adf::stable", "Adf::stable_bdd_representation",
                                                                     "Adf::stable_with_prefilter", "Adf::grounded_internal"})
        ctx.floor(rule, "native restriction sites", k, 5)
        kb = semantics.bio_list_tables(ctx, lib, rule, which=("var_list", "reduction"))
        ctx.floor(rule, "biodivine list constructions", kb, 3)
        n0 = len(ctx.obligations)
        F_check(ctx, lib)
        ctx.obligations[n0:] = [o for o in ctx.obligations[n0:] if not str(o.key).startswith("stability_check")]
        F_cand(ctx, lib)
        A_rewrite(ctx, lib)
        rule = "S.X-exhaust"
        ctx.rule(rule, "candidate sources flow only through non-short-circuiting adaptors / exhaustive consumers")
        nx = semantics.X_exhaust(ctx, lib, rule, ("TwoValuedInterpretationsIterator::new", "from_bdd", "Adf::stable_model_candidates", "::sat_valuations"),
                                 only_fns={"Adf::stable", "Adf::stable_with_prefilter", "Adf::stable_bdd_representation", "Adf::stable_model_candidates"})
        ctx.floor(rule, "stable chains", nx, 6)
        deps.semantics_base(ctx, lib)
        deps.iterator(ctx, lib, "two")      # stable / stable_with_prefilter enumerate the completions of grounded through the two-valued iterator
    deps.cli_plumbing(ctx)
