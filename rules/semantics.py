"""Shared obligations of the semantics properties C01-C05: S.F-full / S.F-reduct, S.X-exhaust,
C01.P-progress and helpers."""
from mirlib import flow, ir, symx
from mirlib.symx import mk_adt, show, vbool, vint
from rules import kernel, shared
from rules.kernel import deep_strip, strip, is_call, effects_named, cond_val, int_of, unloop

RESTRICT = "adf_bdd::obdd::Bdd::restrict"

# fn (qual) -> {consumer kind -> idiom}: inferred from the code, confirmed by reading (Appendix A.1)
NATIVE_SITES = {
    "Adf::grounded_internal": {"store": ("FULL", "one step of the consequence operator substitutes every decided statement")},
    "Adf::apply_interpretation": {"returned": ("FULL", "applies an interpretation to acceptance conditions")},
    "Adf::complete": {"compare": ("FULL", "fixpoint check of a candidate: ac restricted by the whole candidate")},
    "Adf::stable": {"store": ("REDUCT", "reduct: only the false statements are substituted")},
    "Adf::stable_bdd_representation": {"store": ("REDUCT", "reduct")},
    "Adf::stability_check": {"store": ("REDUCT", "reduct")},
    "Adf::stable_with_prefilter": {"compare": ("FULL", "pre-filter = two-valued-model test, a necessary condition of stability"),
                                   "store": ("REDUCT", "reduct")},
}
DECIDE_ONE = {"Adf::two_val_model_counts_logic": "concludes the opposite value of the single chosen statement"}

FULL = {"B": ("restrict", False), "T": ("restrict", True), "U": ("acc",)}
REDUCT = {"B": ("restrict", False), "T": ("acc",), "U": ("acc",)}


def consumer_of(parent, call_expr, pdefs):
    """how the result of `call_expr` (a call in parent) is consumed"""
    kinds = set()
    for bb, t, ci in parent.calls():
        if pdefs.expr_call(t, bb) != call_expr:
            continue
        dest = t["dest"]
        if dest["l"] == 0 and not dest["p"]:
            kinds.add("returned")
            continue
        L = dest["l"]
        # follow copies
        aliases = {L}
        changed = True
        while changed:
            changed = False
            for _, _, s in parent.statements():
                if s["k"] == "assign" and s["rv"]["k"] in ("use", "ref"):
                    src = s["rv"]["o"].get("pl") if s["rv"]["k"] == "use" and s["rv"]["o"]["k"] in ("copy", "move") else (s["rv"].get("pl") if s["rv"]["k"] == "ref" else None)
                    if src and src["l"] in aliases and not s["pl"]["p"] and s["pl"]["l"] not in aliases:
                        aliases.add(s["pl"]["l"])
                        changed = True
        for _, _, s in parent.statements():
            if s["k"] == "assign" and s["rv"]["k"] == "use" and s["rv"]["o"]["k"] in ("copy", "move") and s["rv"]["o"]["pl"]["l"] in aliases:
                if any(pe["k"] == "deref" for pe in s["pl"]["p"]):
                    kinds.add("store")
                elif s["pl"]["l"] == 0:
                    kinds.add("returned")
        for _, t2, ci2 in parent.calls():
            for a in t2["args"]:
                if a["k"] in ("copy", "move") and a["pl"]["l"] in aliases:
                    p = ir.callee_path(ci2) or ""
                    if p.endswith("Term::compare_inf") or p.endswith("Term::cmp_information"):
                        kinds.add("compare")
    return kinds


def fold_table(ctx, lib, cb):
    """term-class table of a fold closure |acc, (i, term)| ...; returns ({cls: outcome}, problems)"""
    eng = ctx.engine([lib], no_inline={RESTRICT})
    tab = {}
    problems = []
    ACC = shared.term_sym("acc")
    I = ("sym", "i")
    for c in shared.CLASSES:
        st = symx.State()
        caps = flow.resolve_captures(lib, cb) or []
        env = eng.closure_env(st, cb, [("sym", "cap%d" % k) for k in range(len(caps))])
        item = ("tuple", (I, shared.ref_to(st, shared.term(c))))
        paths = eng.summarise(cb, [env, ACC, item], st)
        outs = set()
        for p in paths:
            if p.end != "return":
                problems.append("path ends with %s" % p.end)
                continue
            r = strip(p.ret)
            if r == ACC:
                outs.add(("acc",))
            elif is_call(r, "Bdd::restrict"):
                a = [strip(x) for x in r[2][1:]]
                if a[0] != ACC:
                    problems.append("restricts %s instead of the accumulator" % show(a[0]))
                if a[1] != shared.var_of(I):
                    problems.append("restricts variable %s instead of Var(index of the tested entry)" % show(a[1]))
                if a[2][0] != "bool":
                    problems.append("value %s is not decided by the class" % show(a[2]))
                    outs.add(("restrict", show(a[2])))
                else:
                    outs.add(("restrict", a[2][1]))
                calls = [e for e in p.effects if e.get("kind") == "call" and flow.fname(e["resolved"]) == "Bdd::restrict"]
                if len(calls) != 1:
                    problems.append("%d restrict calls on one path" % len(calls))
            else:
                outs.add(("other", show(r)[:80]))
        tab[c] = outs
    return tab, problems


def loop_fold_table(ctx, lib, b, bb_site, t_site):
    """term-class table of one round of the innermost `for` loop of `b` that contains the restrict call at bb_site; None if the site is not inside such a loop.
    The round is run symbolically: the loop's `next` is answered with Some((i, &term of class c)) and the path is followed to the loop's back edge."""
    loops = b.natural_loops()
    cands = [(len(blocks), head) for head, blocks in loops.items() if bb_site in blocks]
    if not cands:
        return None
    head = min(cands)[1]
    blocks = loops[head]
    calls, d = flow.all_call_exprs(b)
    nexts = [(bb, t, e) for bb, t, ci, e in calls if bb in blocks and e[0] == "call" and flow.last(e[2]) == "next" and "d:ForLoop" in (t.get("exp") or [])]
    # the `next` of this loop: the one not contained in a smaller loop nested inside
    inner_blocks = set()
    for h2, bl2 in loops.items():
        if h2 != head and bl2 < blocks:
            inner_blocks |= bl2
    nexts = [x for x in nexts if x[0] not in inner_blocks]
    if len(nexts) != 1:
        return None
    nbb, nt, ne = nexts[0]
    src, steps = flow.chain_of(ne[3][0]) if ne[3] else (None, [])
    chain_names = [s_[0] for s_ in steps]
    if src is None:
        return None
    eng = ctx.engine([lib], no_inline={RESTRICT})
    tab, problems = {}, []
    I = ("sym", "i")
    for c in shared.CLASSES:
        st = symx.State()

        def hook(eng_, st_, frame, path, target, args, t, c=c):
            if t is nt or (t.get("loc") == nt.get("loc") and flow.last(target) == "next" and "d:ForLoop" in (t.get("exp") or [])):
                return [(st_, symx.mk_adt("std::option::Option", "Some", [("0", ("tuple", (I, shared.ref_to(st_, shared.term(c)))))]))]
            return NotImplemented
        eng.call_hook = hook
        try:
            paths = [p for p in eng.summarise(b, None, st) if p.end == "backedge" and p.end_bb == head]
        finally:
            eng.call_hook = None
        outs = set()
        if not paths:
            problems.append("no round of the loop reaches its back edge for class %s" % c)
        acc0 = None
        for p in paths:
            rcalls = [e for e in p.effects if e.get("kind") == "call" and flow.fname(e["resolved"]) == "Bdd::restrict"]
            if len(rcalls) > 1:
                problems.append("%d restrict calls in one round" % len(rcalls))
            if rcalls:
                a = [strip(x) for x in rcalls[0]["args"][1:]]
                acc0 = a[0]
                if a[1] != shared.var_of(I):
                    problems.append("restricts variable %s instead of Var(index of the tested entry)" % show(a[1]))
                if a[2][0] != "bool":
                    problems.append("value %s is not decided by the class" % show(a[2]))
                    outs.add(("restrict", show(a[2])))
                else:
                    outs.add(("restrict", a[2][1]))
                # the result becomes the accumulator: some local holds it at the back edge, and the restricted handle is the value that local had at the loop head
                res = strip(rcalls[0]["result"])
                holders = [l for l, v in p.locals.items() if strip(v) == res]
                if not holders:
                    problems.append("the result of restrict is not kept as the accumulator")
                elif not (a[0][0] == "loopvar" and a[0][1] == head and a[0][2] in holders):
                    problems.append("restricts %s instead of the accumulator" % show(a[0]))
            else:
                outs.add(("acc",))
        tab[c] = outs
    return tab, problems, src, chain_names


def idiom_of(tab):
    if all(len(v) == 1 for v in tab.values()):
        flat = {k: next(iter(v)) for k, v in tab.items()}
        if flat == FULL:
            return "FULL"
        if flat == REDUCT:
            return "REDUCT"
    return None


def F_restrict_native(ctx, lib, rule, only=None):
    """only: optional set of fn quals to attribute to the calling property"""
    n = 0
    seen = set()
    # helpers: local non-closure functions outside obdd.rs that call Bdd::restrict themselves (an extracted fold step); a fold closure that calls such a helper is
    # a restriction site like one that calls restrict directly (the table engine inlines the helper)
    helpers = set()
    for hb in lib.all_bodies:
        if hb.kind != "closure" and not (hb.file or "").endswith("obdd.rs") and any(ir.callee_path(ci) == RESTRICT for _, _, ci in hb.calls()) \
                and hb.qual not in NATIVE_SITES and hb.qual not in DECIDE_ONE:   # an anchored site written as a loop is a site, not a helper of its callers
            helpers.add(hb.path)
    sites = []
    for b in lib.all_bodies:
        if (b.file or "").endswith("obdd.rs"):
            continue
        for bb, t, ci in b.calls():
            if ir.callee_path(ci) == RESTRICT or (b.kind == "closure" and ir.callee_path(ci) in helpers):
                sites.append((b, bb, t, ci))
    for b, bb, t, ci in sites:
        if True:
            q = b.qual
            if only is not None and q not in only:
                continue
            if b.kind != "closure" and b.path in helpers and q not in DECIDE_ONE and q not in NATIVE_SITES:
                continue   # the helper itself: examined through the closure(s) that call it
            n += 1
            where = b.where(t.get("loc"))
            if q in DECIDE_ONE:
                seen.add((q, "decide-one"))
                check_decide_one(ctx, lib, rule, b, bb, t)
                continue
            if b.kind != "closure":
                # the fold written as a loop: `let mut acc = x; for (i, term) in interp.iter().enumerate() { if .. { acc = restrict(acc, Var(i), v) } }`
                lt = loop_fold_table(ctx, lib, b, bb, t)
                if lt is None:
                    ctx.ob(rule, "%s:restrict-outside-closure" % q, False, where=where, expected="a recognised restriction idiom", found="direct call", kind="unreviewed")
                    continue
                tab, problems, src, chain_names = lt
                idiom = idiom_of(tab)
                roles_q = NATIVE_SITES.get(q, {})
                wants = sorted(set(v[0] for v in roles_q.values()))
                key = "%s/%s" % (q, "loop")
                seen.add((q, ("loop",)))
                ctx.ob(rule, key + ".chain", chain_names in (["iter", "enumerate"], ["iter", "enumerate", "into_iter"]), where=where,
                       expected="for (i, term) in x.iter().enumerate(): index = position of the tested entry", found=chain_names)
                self_fields = flow.find(src, lambda n_: n_[0] == "field" and n_[1] == ("param", 1))
                has_param = flow.find(src, lambda n_: n_[0] == "param" and n_[1] >= 2) or flow.find(src, lambda n_: n_[0] == "phi")
                ctx.ob(rule, key + ".source", not self_fields and bool(has_param), where=where, expected="the interpretation/candidate handed to the enclosing function",
                       found=flow.show(src)[:160])
                ctx.ob(rule, key + ".operands", not problems, where=where, expected="acc = restrict(acc, Var(i), value decided by class(entry i))", found=problems[:3])
                if wants:
                    ctx.ob(rule, key + ".idiom", idiom in wants, where=where, expected=" or ".join(wants), found="%s %s" % (idiom, {k: sorted(map(str, v)) for k, v in tab.items()}))
                else:
                    ctx.ob(rule, key + ".idiom", idiom is not None, where=where, expected="FULL or REDUCT table (new site)",
                           found="%s %s" % (idiom, {k: sorted(map(str, v)) for k, v in tab.items()}), kind="unreviewed",
                           note="new restriction site accepted as recognised idiom" if idiom else None)
                continue
            parent = lib.body(b.parent)
            roles, pdefs = flow.closure_roles(parent)
            r = roles.get(b.path)
            if r is None or r.adaptor != "fold":
                ctx.ob(rule, "%s:not-a-fold" % q, False, where=where, expected="fold over interpretation.iter().enumerate()", found=r.adaptor if r else None, kind="unreviewed")
                continue
            src, steps = r.receiver_chain()
            names = [s_[0] for s_ in steps]
            ok_chain = names == ["iter", "enumerate"]
            kinds = consumer_of(parent, r.call, pdefs)
            tab, problems = fold_table(ctx, lib, b)
            idiom = idiom_of(tab)
            key = "%s/%s" % (q, "+".join(sorted(kinds)) or "?")
            seen.add((q, tuple(sorted(kinds))))
            ctx.ob(rule, key + ".chain", ok_chain, where=where, expected="x.iter().enumerate().fold(..): index = position of the tested entry", found=names)
            # the enumerated vector must be an interpretation handed in (parameter / candidate), not a field of self
            caps_src = flow.subst_upvars(src, flow.resolve_captures(lib, b) or []) if b.kind == "closure" else src
            if parent.kind == "closure":
                caps_src = flow.subst_upvars(src, flow.resolve_captures(lib, parent) or [])
            self_fields = flow.find(caps_src, lambda n_: n_[0] == "field" and (n_[1] == ("param", 1) and parent.kind != "closure" or (n_[1][0] == "oparam" and n_[1][2] == 1 and "{closure" not in n_[1][1])))
            bad_src = self_fields
            has_param = (flow.find(caps_src, lambda n_: n_[0] == "param" and (n_[1] >= 2 or parent.kind == "closure"))
                         or flow.find(caps_src, lambda n_: n_[0] == "oparam" and (n_[2] >= 2 or "{closure" in n_[1]))
                         or flow.find(caps_src, lambda n_: n_[0] == "phi"))
            ctx.ob(rule, key + ".source", not bad_src and bool(has_param), where=where, expected="the interpretation/candidate handed to the enclosing function or closure",
                   found=flow.show(caps_src)[:160])
            ctx.ob(rule, key + ".operands", not problems, where=where, expected="restrict(acc, Var(i), value decided by class(entry i))", found=problems[:3])
            want = None
            if q in NATIVE_SITES:
                for k in kinds:
                    if k in NATIVE_SITES[q]:
                        want = NATIVE_SITES[q][k][0]
            if want is not None:
                ctx.ob(rule, key + ".idiom", idiom == want, where=where, expected="%s = %s" % (want, FULL if want == "FULL" else REDUCT),
                       found="%s %s" % (idiom, {k: sorted(map(str, v)) for k, v in tab.items()}))
            else:
                # a new site: accepted iff its table is exactly one of the recognised idioms
                ctx.ob(rule, key + ".idiom", idiom is not None, where=where, expected="FULL or REDUCT table (new site)",
                       found="%s %s" % (idiom, {k: sorted(map(str, v)) for k, v in tab.items()}), kind="unreviewed",
                       note="new restriction site accepted as recognised idiom" if idiom else None)
    return n, seen


def subst_upvars(e, caps):
    return flow.subst_upvars(e, caps)


def check_decide_one(ctx, lib, rule, b, bb, t):
    """two_val_model_counts_logic: interpr.iter().map(|tree| restrict(*tree, Var(idx), !check_models))"""
    q = b.qual
    where = b.where(t.get("loc"))
    parent = lib.body(b.parent) if b.kind == "closure" else None
    if parent is None:
        ctx.ob(rule, q + "/decide-one.closure", False, where=where, expected="map closure over the interpretation", found="direct call", kind="unreviewed")
        return
    roles, pdefs = flow.closure_roles(parent)
    r = roles.get(b.path)
    ok = r is not None and r.adaptor == "map" and r.receiver_chain()[0] == ("param", 2) and [s_[0] for s_ in r.receiver_chain()[1]] == ["iter"]
    ctx.ob(rule, q + "/decide-one.chain", ok, where=where, expected="interpr.iter().map(..)", found=flow.show(r.receiver)[:120] if r else None)
    d = flow.Defs(b)
    e = d.expr_call(t, bb)
    caps = flow.resolve_captures(lib, b) or []
    e = subst_upvars(e, caps)
    # restrict(self.bdd, *tree, Var(idx), !check_models)
    args = e[3]
    tree_ok = args[1] == ("param", 2)  # the map closure's own item
    var = args[2]
    val = args[3]
    # idx and check_models come from the same selection (min_by result / paths(ac).more_models())
    var_ok = var[0] == "adt" and var[1].endswith("Var")
    idx_e = var[3][0][1] if var_ok else None
    sel_ok = idx_e is not None and bool(flow.find(idx_e, lambda n_: n_[0] == "call" and flow.last(n_[2]) == "min_by"))
    neg_ok = val[0] == "unop" and val[1] == "Not" and bool(flow.find(val[2], lambda n_: n_[0] == "call" and flow.last(n_[2]) == "more_models"))
    ctx.ob(rule, q + "/decide-one.operands", tree_ok and sel_ok and neg_ok, where=where,
           expected="restrict(*tree, Var(chosen idx), !check_models) for every entry", found=flow.show(e)[:260])


# ------------------------------------------------------------------ biodivine restriction lists
def bio_list_tables(ctx, lib, rule, which=("var_list", "var_list_from_term", "reduction")):
    """var_list / var_list_from_term (FULL) and the reduction_list closures (REDUCT)"""
    eng = ctx.engine([lib], intrinsics=shared.BIO_INTRINSICS)
    n = 0

    def table_for(cb, interp_marker, kind):
        """run closure cb on item (i, &var_i) with interpretation[i] of class c"""
        res = {}
        I = ("sym", "i")
        VARI = ("sym", "var_i")
        for c in shared.CLASSES:
            st = symx.State()
            caps = flow.resolve_captures(lib, cb) or []
            capvals = [("sym", "cap:%s" % flow.show(ce)) for ce in caps]
            elem = shared.bio(c) if kind == "bio" else shared.term(c)

            def hook(e_, s_, base, idx, elem=elem):
                if idx == I:
                    return elem
                return None
            eng.index_hook = hook
            env = eng.closure_env(st, cb, capvals)
            item = ("tuple", (I, shared.ref_to(st, VARI)))
            first_ty = cb.locals[2]["ty"]
            arg = shared.ref_to(st, item) if first_ty.get("k") == "ref" else item
            paths = eng.summarise(cb, [env, arg], st)
            eng.index_hook = None
            res[c] = set((strip(p.ret) if p.end == "return" else ("end", p.end)) for p in paths)
        return res, I, VARI

    for fname_, kind in (("adfbiodivine::Adf::var_list", "bio"), ("adfbiodivine::Adf::var_list_from_term", "term")):
        if fname_.split("::")[-1] not in which:
            continue
        try:
            b = lib.one(fname_)
        except LookupError as e:
            ctx.lost(rule, fname_.split("::")[-1], str(e))
            continue
        n += 1
        roles, defs = flow.closure_roles(b)
        ret = defs.expr_local(0)
        src, steps = flow.chain_of(ret)
        names = [s_[0] for s_ in steps]
        okc = src[0] == "field" and src[2] == "vars" and names == ["iter", "enumerate", "filter", "map", "collect"]
        q = b.qual
        ctx.ob(rule, q + ".chain", okc, where=b.where(), expected="self.vars.iter().enumerate().filter(..).map(..).collect()", found="%s %s" % (flow.show(src), names))
        if not okc:
            continue
        fcl = lib.body(steps[2][1][0][1])
        mcl = lib.body(steps[3][1][0][1])
        ft, I, VARI = table_for(fcl, None, kind)
        mt, I, VARI = table_for(mcl, None, kind)
        for c in shared.CLASSES:
            ctx.ob(rule, "%s.filter[%s]" % (q, c), ft[c] == {vbool(c in "BT")}, where=fcl.where(), expected="keep iff interpretation[i] is decided",
                   found=sorted(show(x) for x in ft[c]))
            if c in "BT":
                want = ("tuple", (VARI, vbool(c == "T")))
                ctx.ob(rule, "%s.map[%s]" % (q, c), mt[c] == {want}, where=mcl.where(), expected="(vars[i], interpretation[i].is_true())",
                       found=sorted(show(x) for x in mt[c]))
    # reduction lists
    for fname_ in ("adfbiodivine::Adf::stable", "adfbiodivine::Adf::stable_bdd_representation"):
        if "reduction" not in which:
            continue
        try:
            b = lib.one(fname_)
        except LookupError as e:
            ctx.lost(rule, fname_.split("::")[-1], str(e))
            continue
        q = b.qual
        found = False
        for c_ in lib.closures_of(b, recursive=True):
            parent = lib.body(c_.parent)
            roles, pdefs = flow.closure_roles(parent)
            r = roles.get(c_.path)
            if r is None or r.adaptor != "filter_map":
                continue
            src, steps = r.receiver_chain()
            if not (src[0] == "field" and src[2] == "vars"):
                src2 = subst_upvars(src, flow.resolve_captures(lib, parent) or [])
                if not (src2[0] == "field" and src2[2] == "vars"):
                    continue
            found = True
            n += 1
            ok_chain = [s_[0] for s_ in steps] == ["iter", "enumerate"]
            ctx.ob(rule, q + ".reduction-chain", ok_chain, where=c_.where(), expected="self.vars.iter().enumerate().filter_map(..)", found=[s_[0] for s_ in steps])
            tab, I, VARI = table_for(c_, None, "term")
            for c in shared.CLASSES:
                got = tab[c]
                if c == "B":
                    want_ok = len(got) == 1 and all(x[0] == "adt" and x[2] == "Some" and strip(x[3][0][1]) == ("tuple", (VARI, vbool(False))) for x in got)
                    exp = "Some((vars[i], false))"
                else:
                    want_ok = len(got) == 1 and all(x[0] == "adt" and x[2] == "None" for x in got)
                    exp = "None"
                ctx.ob(rule, "%s.reduction[%s]" % (q, c), want_ok, where=c_.where(), expected=exp, found=sorted(show(x) for x in got))
            # the list is what the acceptance conditions are restricted by, and grounded_internal runs on the result
        if not found:
            # the same list as filter(..).map(..): keep exactly the false statements, pair each with `false`
            for c_ in lib.closures_of(b, recursive=True):
                parent = lib.body(c_.parent)
                roles, pdefs = flow.closure_roles(parent)
                r = roles.get(c_.path)
                if r is None or r.adaptor != "map":
                    continue
                src, steps = r.receiver_chain()
                if not (src[0] == "field" and src[2] == "vars"):
                    src2 = subst_upvars(src, flow.resolve_captures(lib, parent) or [])
                    if not (src2[0] == "field" and src2[2] == "vars"):
                        continue
                if [s_[0] for s_ in steps] != ["iter", "enumerate", "filter"] or not steps[2][1] or steps[2][1][0][0] != "closure":
                    continue
                found = True
                n += 1
                fcl = lib.body(steps[2][1][0][1])
                ft, I, VARI = table_for(fcl, None, "term")
                mt, I, VARI = table_for(c_, None, "term")
                for c in shared.CLASSES:
                    keep = ft[c] == {vbool(True)}
                    drop = ft[c] == {vbool(False)}
                    if c == "B":
                        want_ok = keep and mt[c] == {("tuple", (VARI, vbool(False)))}
                        exp = "kept and mapped to (vars[i], false)"
                    else:
                        want_ok = drop
                        exp = "filtered out"
                    ctx.ob(rule, "%s.reduction[%s]" % (q, c), want_ok, where=c_.where(), expected=exp, found="filter %s, map %s" % (sorted(show(x) for x in ft[c]), sorted(show(x) for x in mt[c])))
        if not found:
            ctx.cannot(rule, q + ".reduction-closure", "a filter_map over self.vars building the reduction list", b.where(), None)
    return n


# ------------------------------------------------------------------ S.X-exhaust
CANDIDATE_SOURCES = (
    "obdd::Bdd::interpretations", "TwoValuedInterpretationsIterator::new", "ThreeValuedInterpretationsIterator::new",
    "TwoValuedInterpretationsIterator>::from_bdd", "ThreeValuedInterpretationsIterator>::from_bdd",
    "adfbiodivine::Adf::stable_model_candidates", "::sat_valuations", "Adf::two_val_model_counts", "Adf::two_val_model_counts_logic",
)
PUBLIC_SEMANTICS = (
    "adf::Adf::stable", "adf::Adf::complete", "adf::Adf::stable_with_prefilter", "adf::Adf::stable_bdd_representation",
    "adf::Adf::stable_count_optimisation_heu_a", "adf::Adf::stable_count_optimisation_heu_b", "adf::Adf::stable_nogood",
    "adfbiodivine::Adf::stable", "adfbiodivine::Adf::complete", "adfbiodivine::Adf::stable_bdd_representation",
)


def is_source_call(e, sources):
    if e[0] != "call":
        return False
    p = flow.sg(e[1])
    tp = flow.sg(e[2])
    for s_ in sources:
        s2 = flow.sg(s_)
        if p.endswith(s2) or tp.endswith(s2):
            return True
    # from_bdd is an inherent method in an impl block of another module: match by last segment + type
    if flow.last(e[2]) == "from_bdd":
        return True
    return False


def X_exhaust(ctx, crate, rule, sources, key_prefix="", receivers=False, only_fns=None):
    """every iterator chain rooted at a candidate source uses non-short-circuiting adaptors and an exhaustive consumer;
    `for` loops over a source exit only when the source is exhausted. Returns number of chains examined."""
    n = 0
    for b in crate.all_bodies:
        if only_fns is not None and b.qual not in only_fns:
            continue
        calls, d = flow.all_call_exprs(b)
        exprs = [e for _, _, _, e in calls]
        ret = d.expr_local(0)
        tops = []
        # maximal chains: call exprs that are not the receiver of another chain step
        recv_of = set()
        for e in exprs + [ret]:
            if e[0] == "call" and e[3]:
                recv_of.add(e[3][0])
        for (bb, t, ci, e) in calls:
            src, steps = flow.chain_of(e)
            if not steps:
                continue
            rooted = is_source_call(src, sources) or (receivers and src[0] == "call" and flow.last(src[2]) in ("iter", "into_iter", "try_iter") and "crossbeam_channel" in src[1])
            if receivers and src[0] == "param" and steps and "Receiver" in str(b.locals[src[1]]["ty"].get("path", "")) + str(b.locals[src[1]]["ty"].get("to", {}).get("path", "")):
                rooted = True
            if receivers and not rooted and flow.find(src, lambda n_: n_[0] == "call" and flow.last(n_[2]) in ("unbounded", "bounded")) and src[0] == "field" and src[2] == "1":
                rooted = True
            if not rooted:
                continue
            n += 1
            names = [s_[0] for s_ in steps]
            bad = [nm for nm in names if nm in flow.SHORT_CIRCUIT and nm != "next"]
            # try_for_each / try_fold whose closure can never produce the breaking value are exhaustive
            for s_ in steps:
                if s_[0] in ("try_for_each", "try_fold") and s_[0] in bad:
                    cl = [a for a in s_[1] if a[0] == "closure"]
                    if cl and never_breaks(ctx, crate, cl[0][1]):
                        bad.remove(s_[0])
            unknown = [nm for nm in names if nm not in flow.SHORT_CIRCUIT and nm not in flow.NON_SHORT_ADAPTORS and nm not in flow.EXHAUSTIVE_CONSUMERS]
            key = "%s%s:%s<-%s" % (key_prefix, b.qual, names[-1], flow.last(src[2]) if src[0] == "call" else flow.show(src))
            if "next" in names:
                # only allowed as the desugaring of a for loop; checked below
                exp = t.get("exp") or []
                if not any(x == "d:ForLoop" for x in exp):
                    bad.append("next (outside a for loop)")
            ctx.ob(rule, key, not bad and not unknown, where=b.where(t.get("loc")),
                   expected="non-short-circuiting adaptors and an exhaustive consumer", found="short-circuit: %s unknown: %s in %s" % (bad, unknown, names))
        # for loops over sources
        loops = b.natural_loops()
        for (bb, t, ci, e) in calls:
            if e[0] != "call" or flow.last(e[2]) != "next":
                continue
            exp = t.get("exp") or []
            if "d:ForLoop" not in exp:
                continue
            src, steps = flow.chain_of(e)
            rooted = is_source_call(src, sources)
            if receivers and not rooted and flow.find(src, lambda n_: n_[0] == "call" and flow.last(n_[2]) in ("unbounded", "bounded")) and src[0] == "field" and src[2] == "1":
                rooted = True
            if not rooted:
                continue
            head = None
            for h, blocks in loops.items():
                if bb in blocks and (head is None or len(blocks) < len(loops[head])):
                    head = h
            if head is None:
                continue
            blocks = loops[head]
            exits = []
            for x in blocks:
                for s_ in b.succs(x):
                    if s_ not in blocks:
                        exits.append((x, s_))
            # the only exit: the None arm of the switch after next()
            nxt = t["t"]
            good = [x for x in exits if x[0] == nxt or (b.blocks[x[0]]["term"]["k"] == "falseedge" and x[0] in b.succs(nxt))]
            other = [x for x in exits if x not in good]
            returns = [x for x in blocks if b.blocks[x]["term"]["k"] == "return"]
            key = "%s%s:for<-%s" % (key_prefix, b.qual, flow.last(src[2]) if src[0] == "call" else flow.show(src))
            ctx.ob(rule, key + ".exits", not other and not returns, where=b.where(t.get("loc")),
                   expected="the loop is left only when the source is exhausted", found="extra exits from blocks %s" % sorted(set(x[0] for x in other)))
    return n


def never_breaks(ctx, crate, closure_def):
    cb = crate.body(closure_def)
    if cb is None:
        return False
    try:
        eng = ctx.engine([crate], max_paths=2000)
        paths = eng.summarise(cb)
    except (symx.Unsupported, symx.PathLimit):
        return False
    rets = [strip(p.ret) for p in paths if p.end == "return"]
    return bool(rets) and all(r[0] == "adt" and r[2] in ("Ok", "Continue", "Some") for r in rets)


def X_args(ctx, crate, rule, sources, only_fns=None, key_prefix=""):
    """source results handed to another call as a (non-receiver) argument: only exhaustive sinks are allowed"""
    n = 0
    for b in crate.all_bodies:
        if only_fns is not None and b.qual not in only_fns:
            continue
        calls, d = flow.all_call_exprs(b)
        for (bb, t, ci, e) in calls:
            if e[0] != "call":
                continue
            for i, a in enumerate(e[3]):
                if i == 0:
                    continue
                if is_source_call(a, sources):
                    n += 1
                    nm = flow.last(e[2])
                    ctx.ob(rule, "%s%s:%s(<-%s)" % (key_prefix, b.qual, nm, flow.last(a[2])), nm in ("append", "extend", "extend_from_slice"),
                           where=b.where(t.get("loc")), expected="append/extend of the complete result", found=nm)
    return n


# ------------------------------------------------------------------ C01.P-progress
def P_progress(ctx, lib, rule):
    ctx.rule(rule, "both grounded_internal loops have exactly one non-unwind exit; native: a counter is incremented exactly when a condition "
                   "became a truth value in this round (tested after the assignment) and the exit tests 'counter unchanged since round start'; "
                   "biodivine: a flag is reset at round start, set exactly under is_truth_value after the restriction, and the exit tests its negation")
    n = 0
    for fname_, kind in (("adf::Adf::grounded_internal", "native"), ("adfbiodivine::Adf::grounded_internal", "bio")):
        try:
            b = lib.one(fname_)
        except LookupError as e:
            ctx.lost(rule, fname_, str(e))
            continue
        n += 1
        loops = b.natural_loops()
        acc_loop = None
        if len(loops) == 3:
            # the restriction fold written as a third, innermost loop (over the entries of the interpretation): outer > conditions > entries
            by = sorted(loops, key=lambda h: len(loops[h]))
            if loops[by[0]] < loops[by[1]] < loops[by[2]]:
                acc_loop = by[0]
                loops = {by[1]: loops[by[1]], by[2]: loops[by[2]]}
        if len(loops) != 2:
            ctx.cannot(rule, kind + ".loops", "an outer fixpoint loop and an inner loop over the conditions", b.where(), sorted(loops))
            continue
        outer = max(loops, key=lambda h: len(loops[h]))
        inner = min(loops, key=lambda h: len(loops[h]))
        ctx.ob(rule, kind + ".nesting", loops[inner] < loops[outer], where=b.where(), expected="inner loop nested in the fixpoint loop", found=(outer, inner))
        def _debug_assert_exit(s_):
            # the failing arm of a debug_assert!: a diverging panic call expanded from the macro (compiled out of the shipped binary)
            tt = b.blocks[s_]["term"]
            return tt["k"] == "call" and tt.get("t") is None and any(str(x_).startswith("m:debug_assert") for x_ in (tt.get("exp") or []))
        exits = [(x, s_) for x in loops[outer] for s_ in b.succs(x) if s_ not in loops[outer]
                 and not (b.blocks[s_]["term"]["k"] == "unreachable" and not b.blocks[s_]["stmts"]) and not _debug_assert_exit(s_)]
        ctx.ob(rule, kind + ".single-exit", len(set(exits)) == 1, where=b.where(), expected="exactly one exit of the fixpoint loop", found=sorted(set(exits)))
        eng = ctx.engine([lib], no_inline={RESTRICT}, intrinsics=shared.BIO_INTRINSICS)
        paths = eng.summarise(b)
        rets = [p for p in paths if p.end == "return"]
        conts = [p for p in paths if p.end == "backedge" and p.end_bb == outer]
        steps = [p for p in paths if p.end == "backedge" and p.end_bb == inner]
        if kind == "native":
            # find the counter: the local compared at the exit
            X = None
            for p in rets:
                for e, v in p.cond:
                    if e[0] == "app" and e[1] == "Eq" and all(x[0] == "loopvar" for x in e[2]):
                        X = e[2][0][2]
            if X is None:
                ctx.cannot(rule, "native.exit-test", "exit guarded by Eq(counter now, counter at round start)", b.where(), [p.describe()[:200] for p in rets])
                continue
            XI, XO = ("loopvar", inner, X), ("loopvar", outer, X)

            def is_lv(v, head):
                return v[0] == "loopvar" and v[1] == head and v[2] == X
            for p in rets + conts:
                g = [(e, v) for e, v in p.cond if e[0] == "app" and e[1] == "Eq" and len(e[2]) == 2 and any(is_lv(x, inner) for x in e[2]) and any(is_lv(x, outer) for x in e[2])]
                want = 1 if p.end == "return" else 0
                ctx.ob(rule, "native.exit-iff-unchanged[%s]" % p.end, len(g) == 1 and int_of(g[0][1]) == want, where=b.where(),
                       expected="leave iff counter == counter at round start", found=p.describe()[:240])
                # the snapshot must have been taken at round start: value compared is the outer loop variable itself
            # round-start snapshot: the outer loopvar's init chain ends in the count of decided entries of the input
            for p in steps:
                final = p.locals.get(X)
                tv = [(deep_strip(e), v) for e, v in p.cond if deep_strip(e)[0] == "app" and deep_strip(e)[1] == "Le"]
                base = ("loopvar", inner, X, None)
                # final value relative to the inner loop variable
                if final[0] == "loopvar" and final[1] == inner and final[2] == X:
                    delta = 0
                elif final[0] == "lin" and len(final[2]) == 1 and final[2][0][0][0] == "loopvar" and final[2][0][0][1] == inner and final[2][0][1] == 1:
                    delta = final[1]
                else:
                    delta = None
                # class of the newly assigned condition: tested through is_truth_value on the fold result
                tested = None
                for e, v in tv:
                    if (symx.contains(e, lambda n_: n_[0] == "app" and flow.last(n_[1]) == "fold")
                            or (acc_loop is not None and symx.contains(e, lambda n_: n_[0] == "loopvar" and n_[1] == acc_loop))) and e[2][1] == vint(1):
                        tested = int_of(v)
                if tested is None:
                    ctx.cannot(rule, "native.step-test", "is_truth_value of the freshly assigned condition", b.where(), p.describe()[:240])
                    continue
                ctx.ob(rule, "native.step[%s]" % ("decided" if tested else "undecided"), delta == (1 if tested else 0), where=b.where(),
                       expected="counter %s" % ("+1" if tested else "unchanged"), found="delta %s" % delta)
            ctx.floor(rule, "native step paths", len(steps), 2)
            # initial counter = number of decided entries of the input (count over filter(is_truth_value))
            d = flow.Defs(b)
        else:
            F = None
            for p in rets:
                for e, v in p.cond:
                    if e[0] == "loopvar" and e[1] == inner:
                        F = e[2]
            if F is None:
                ctx.cannot(rule, "bio.exit-test", "exit guarded by the progress flag", b.where(), [p.describe()[:200] for p in rets])
                continue
            for p in rets + conts:
                g = [(e, v) for e, v in p.cond if e[0] == "loopvar" and e[1] == inner and e[2] == F]
                want = 0 if p.end == "return" else 1
                ctx.ob(rule, "bio.exit-iff-flag-clear[%s]" % p.end, len(g) == 1 and int_of(g[0][1]) == want, where=b.where(),
                       expected="leave iff no condition became a truth value in this round", found=p.describe()[:240])
            # reset at round start: the init of the inner loopvar is `false`
            inits = set()
            for p in paths:
                for e, v in p.cond:
                    if e[0] == "loopvar" and e[1] == inner and e[2] == F:
                        inits.add(e[3])
            ctx.ob(rule, "bio.flag-reset-each-round", inits == {vbool(False)}, where=b.where(), expected="flag = false at the start of every round", found=sorted(show(x) for x in inits))
            for p in steps:
                final = p.locals.get(F)
                # is_truth_value of the restricted condition
                st_ = p.state
                tv = [int_of(v) for e, v in p.cond if is_call(deep_strip(e), "_impl_util::is_true") or is_call(deep_strip(e), "_impl_util::is_false")]
                decided = 1 in tv
                # the tested object must be the result of the restriction (stored through the item pointer)
                tested_on_restrict = any(symx.contains(e, lambda n_: n_[0] == "app" and flow.last(n_[1]) == "restrict") for e, v in p.cond
                                         if is_call(deep_strip(e), "_impl_util::is_true") or is_call(deep_strip(e), "_impl_util::is_false"))
                ctx.ob(rule, "bio.step-tests-restricted", tested_on_restrict, where=b.where(), expected="is_truth_value evaluated on the restricted condition", found=p.describe()[:240])
                if decided:
                    ctx.ob(rule, "bio.step[decided]", final == vbool(True), where=b.where(), expected="flag set", found=show(final))
                else:
                    ctx.ob(rule, "bio.step[undecided]", final[0] == "loopvar", where=b.where(), expected="flag unchanged", found=show(final))
            ctx.floor(rule, "bio step paths", len(steps), 2)
    ctx.floor(rule, "loops", n, 2)
