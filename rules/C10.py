"""C10 - independence of presentation."""
from mirlib import facts, flow, ir, symx
from mirlib.pat import ANY, ADT, C, CLOS, F, IDX, K, OP, P, TUP, V, match
from rules import kernel, shared
from rules.kernel import deep_strip, strip, is_call, effects_named, unloop, int_of

EXPLANATION = """
Decided (the label/index plumbing the metamorphic claim needs): C10.P-reindex (in varsort_lexi and varsort_alphanum every
path from the sort of namelist to the return passes regenerate_indizes, which writes dict[namelist[i]] = i for the
enumerate index i over the whole list), C10.Y-lexi (varsort_lexi resolves to <[String]>::sort_unstable / sort with the
natural, byte-wise Ord of String and no comparator; varsort_alphanum sorts the same list with natural_lexical_cmp),
C10.F-print (PrintableInterpretation::fmt writes for position i the prefix {TOP->"T(", BOT->"F(", U->"u("} followed by
ordering.name(Var(i)) for the same i, for every position; VarContainer::name reads names[var]), C09.F-order (file order
-> variable index at construction time), C10.P-cli (in every CLI arm the sort calls come after a successful parse and
there is no path from an ADF construction to a sort call), C08.F-label (a new label gets the next position), C09.A-name and
C03.A-rewrite (the two other places where the permutation between fact order and variable order is applied: the biodivine
variable naming and the parse-time stable rewriting, which must pair variable formula_order[k] with the k-th condition)."""
NOT_DECIDED = "The metamorphic claim itself (answer sets invariant under fact order, variable order, renaming) quantifies over results of the whole solver and is out of reach; only the plumbing is decided."
TECHNIQUE = "static analysis: must-pass-through on the sort functions, resolved-callee typing, finite-domain closure table with source literals, CFG reachability between CLI call sites"


def configs(tier):
    return facts.LIB_ALL if tier == "thorough" else [facts.Config("lib")]


def P_reindex(ctx, lib):
    rule = "C10.P-reindex"
    ctx.rule(rule, "varsort_*: sort(namelist) then regenerate_indizes() on every path; regenerate_indizes: namelist.iter().enumerate().for_each(|(i, elem)| dict.insert(elem.clone(), i))")
    ry = "C10.Y-lexi"
    ctx.rule(ry, "varsort_lexi sorts namelist with <[String]>::sort_unstable or sort (natural byte-wise Ord, no comparator); varsort_alphanum with string_sort_unstable(natural_lexical_cmp)")
    for name in ("varsort_lexi", "varsort_alphanum"):
        try:
            b = lib.one("parser::AdfParser::" + name)
        except LookupError as e:
            ctx.lost(rule, name, str(e))
            continue
        sort_blocks = b.call_blocks(lambda p, t: flow.last(p) in ("sort", "sort_unstable", "sort_by", "sort_unstable_by", "sort_by_key", "sort_unstable_by_key",
                                                                    "string_sort", "string_sort_unstable", "string_sort_natural", "string_sort_unstable_natural",
                                                                    "string_sort_lexical", "string_sort_unstable_lexical", "string_sort_natural_lexical"))
        regen = set(b.call_blocks(lambda p, t: flow.sg(p).endswith("AdfParser::regenerate_indizes")))
        ctx.ob(rule, name + ".one-sort", len(sort_blocks) == 1, where=b.where(), expected="one sort of namelist", found=len(sort_blocks))
        if len(sort_blocks) != 1:
            continue
        sb = sort_blocks[0]
        t = b.blocks[sb]["term"]
        reach = b.reach_avoiding([t["t"]], regen)
        rets = [x for x in reach if b.blocks[x]["term"]["k"] == "return"]
        ctx.ob(rule, name + ".reindex-after-sort", bool(regen) and not rets, where=b.where(t.get("loc")), expected="regenerate_indizes() on every path from the sort to the return", found="return reachable without re-indexing" if rets else "ok")
        d = flow.Defs(b)
        e = d.expr_call(t, sb)
        tgt_ok = e[0] == "call" and bool(flow.find(e[3][0], lambda n_: n_ == ("field", ("param", 1), "namelist")))
        ctx.ob(rule, name + ".sorts-namelist", tgt_ok, where=b.where(t.get("loc")), expected="the sorted vector is self.namelist", found=flow.show(e)[:160])
        ci = ir.callee_of(t)
        p = ir.callee_path(ci, False)
        if name == "varsort_lexi":
            elem = [ir.ty_str(a) for a in ci.get("args", [])]
            ok = flow.last(p) in ("sort", "sort_unstable") and "slice" in p and elem[:1] == ["std::string::String"]
            ctx.ob(ry, "varsort_lexi", ok, where=b.where(t.get("loc")), expected="<[String]>::sort_unstable / sort", found="%s %s" % (p, elem))
        else:
            cmp_ = e[3][1] if len(e[3]) > 1 else None
            ok = "lexical_sort" in p and cmp_ is not None and cmp_[0] == "fnitem" and flow.last(cmp_[1]) == "natural_lexical_cmp"
            ctx.ob(ry, "varsort_alphanum", ok, where=b.where(t.get("loc")), expected="string_sort_unstable(natural_lexical_cmp)", found=flow.show(e)[:200])
    try:
        b = lib.one("parser::AdfParser::regenerate_indizes")
        roles, d = flow.closure_roles(b)
        fe = [r for r in roles.values() if r.adaptor == "for_each"]
        if not fe:
            # `for (i, elem) in namelist.read().iter().enumerate() { dict.insert(elem.clone(), i) }`: the same step written as a loop
            calls, dd = flow.all_call_exprs(b)
            ins = [e for bb, t, ci, e in calls if e[0] == "call" and flow.last(e[2]) == "insert" and "HashMap" in e[1]]
            okl = False
            why = [flow.show(e)[:200] for e in ins]
            if len(ins) == 1:
                tgt, k, v = ins[0][3][0], ins[0][3][1], ins[0][3][2]
                items = flow.find(k, lambda n_: n_[0] == "call" and flow.last(n_[2]) == "next")
                src_ok = bool(flow.find(k, lambda n_: n_[0] == "call" and flow.last(n_[2]) == "enumerate")) and bool(flow.find(k, lambda n_: n_[0] == "field" and n_[2] == "namelist"))
                # key = clone of item.1, value = item.0 of the same enumerate item
                def comp(x):
                    y = x
                    while y[0] == "call" and flow.last(y[2]) in ("clone", "to_string", "to_owned", "into") and y[3]:
                        y = y[3][0]
                    while y[0] in ("deref", "ref", "copy", "move") and len(y) > 1 and isinstance(y[1], tuple):
                        y = y[1]
                    return y
                kk, vv = comp(k), comp(v)
                okl = (kk[0] == "field" and kk[2] == "1" and vv[0] == "field" and vv[2] == "0" and kk[1] == vv[1] and src_ok
                       and bool(flow.find(tgt, lambda n_: n_[0] == "field" and n_[2] == "dict")))
                # the loop must not be left early: its only exit is the exhausted iterator
                loops = b.natural_loops()
                okl = okl and len(loops) == 1
            ctx.ob(rule, "regenerate.iterates-namelist", okl, where=b.where(), expected="for every (i, elem) of namelist.iter().enumerate(): dict.insert(elem.clone(), i)", found=why)
        else:
            ok = len(fe) == 1 and match(fe[0].receiver, C("enumerate", C("iter", C("expect", C("read", F(P(1), "namelist")), ANY)))) is not None
            ctx.ob(rule, "regenerate.iterates-namelist", ok, where=b.where(), expected="self.namelist.read().iter().enumerate().for_each(..)", found=[flow.show(r.receiver)[:120] for r in roles.values()])
        if fe:
            cb = lib.body(fe[0].closure_def)
            eng = ctx.engine([lib])
            st = symx.State()
            env = eng.closure_env(st, cb, [("sym", "self")])
            I, ELEM = ("sym", "i"), ("sym", "elem")
            paths = [p for p in eng.summarise(cb, [env, ("tuple", (I, shared.ref_to(st, ELEM)))], st) if p.end == "return"]
            ok = len(paths) == 1
            why = None
            if ok:
                ins = effects_named(paths[0], "HashMap::insert")
                ok = len(ins) == 1
                if ok:
                    k, v = deep_strip(ins[0]["args"][1]), deep_strip(ins[0]["args"][2])
                    ok = k == ELEM and v == I and symx.contains(ins[0]["args"][0], lambda n: n[0] == "field" and n[2] == "dict")
                    why = "insert(%s, %s)" % (symx.show(k), symx.show(v))
            ctx.ob(rule, "regenerate.step", ok, where=cb.where(), expected="dict.insert(elem.clone(), i)", found=why or [p.describe()[:160] for p in paths])
    except LookupError as e:
        ctx.lost(rule, "regenerate_indizes", str(e))


def F_print(ctx, lib):
    rule = "C10.F-print"
    ctx.rule(rule, 'PrintableInterpretation::fmt: interpretation.iter().enumerate().for_each(|(pos, term)| write prefix {TOP: "T(", BOT: "F(", U: "u("} then '
                   '"{}) " with ordering.name(Var(pos))); VarContainer::name(var) = names.read().get(var.value()).cloned()')
    try:
        b = lib.trait_impl_fn("fmt::Display", "PrintableInterpretation", name="fmt")
    except LookupError as e:
        ctx.lost(rule, "PrintableInterpretation::fmt", str(e))
        return
    roles, d = flow.closure_roles(b)
    fe = [r for r in roles.values() if r.adaptor == "for_each"]
    ok = len(fe) == 1 and match(fe[0].receiver, C("enumerate", C("iter", F(P(1), "interpretation")))) is not None
    loop_form = False
    if not fe:
        # the same iteration written as `for (pos, term) in self.interpretation.iter().enumerate() { .. }`: one loop whose only exit is the exhausted iterator
        calls, dd = flow.all_call_exprs(b)
        nexts = [e for bb, t, ci, e in calls if e[0] == "call" and flow.last(e[2]) == "next" and "d:ForLoop" in (t.get("exp") or [])]
        loops = b.natural_loops()
        exits = set()
        for head, blocks in loops.items():
            for bb in blocks:
                for s_ in b.succs(bb):
                    if s_ not in blocks and not (b.blocks[s_]["term"]["k"] == "unreachable" and not b.blocks[s_]["stmts"]):
                        exits.add((bb, s_))
        ok = (len(nexts) == 1 and len(loops) == 1 and len(exits) == 1 and
              match(nexts[0][3][0], C("into_iter", C("enumerate", C("iter", F(P(1), "interpretation"))))) is not None)
        loop_form = ok
    ctx.ob(rule, "iterates-all-positions", ok, where=b.where(), expected="self.interpretation.iter().enumerate().for_each(..) or the same for loop", found=[flow.show(r.receiver)[:120] for r in roles.values()])
    if not fe and not loop_form:
        return
    cb = lib.body(fe[0].closure_def) if fe else b
    eng = ctx.engine([lib], no_inline={"adf_bdd::datatypes::adf::VarContainer::name"})
    table = {}
    for c in shared.CLASSES:
        if loop_form:
            # one round of the loop: the iterator's `next` is answered with Some((pos, &term of class c)); the round ends at the back edge
            st = symx.State()
            POS = ("sym", "pos")

            def hook(eng_, st_, frame, path, target, args, t, c=c):
                if flow.last(target) == "next" and "d:ForLoop" in (t.get("exp") or []):
                    return [(st_, symx.mk_adt("std::option::Option", "Some", [("0", ("tuple", (POS, shared.ref_to(st_, shared.term(c)))))]))]
                return NotImplemented
            eng.call_hook = hook
            try:
                paths = [p for p in eng.summarise(b, [shared.ref_to(st, ("sym", "self")), shared.ref_to(st, ("sym", "fmt"))], st) if p.end == "backedge"]
            finally:
                eng.call_hook = None
            outs = set()
            for p in paths:
                writes = [e for e in p.effects if e.get("kind") == "call" and flow.last(e["resolved"]) in ("write_fmt", "write_str")]
                lits = tuple(shared.source_literal(e["loc"]) if e.get("loc") else None for e in writes)
                named = [e for e in p.effects if e.get("kind") == "call" and flow.fname(e["resolved"]) == "VarContainer::name"]
                name_ok = len(named) == 1 and deep_strip(named[0]["args"][1]) == shared.var_of(POS) and symx.contains(named[0]["args"][0], lambda n: n[0] == "field" and n[2] == "ordering")
                printed_ok = len(writes) == 2 and bool(named) and symx.contains(writes[1]["args"][1], lambda n: n == deep_strip(named[0]["result"]) or (n[0] == "app" and flow.fname(n[1]) == "VarContainer::name"))
                outs.add((lits, name_ok, printed_ok))
            table[c] = outs
            continue
        st = symx.State()
        caps = flow.resolve_captures(lib, cb) or []
        capvals = []
        for ce in caps:
            if flow.is_oparam(ce, 2):
                capvals.append(("sym", "fmt"))
            elif ce[0] == "field" and flow.is_oparam(ce[1], 1):
                capvals.append(("field", ("sym", "self"), ce[2]))
            else:
                capvals.append(("sym", "self"))
        env = eng.closure_env(st, cb, capvals)
        POS = ("sym", "pos")
        paths = [p for p in eng.summarise(cb, [env, ("tuple", (POS, shared.ref_to(st, shared.term(c))))], st) if p.end == "return"]
        outs = set()
        for p in paths:
            writes = [e for e in p.effects if e.get("kind") == "call" and flow.last(e["resolved"]) in ("write_fmt", "write_str")]
            lits = tuple(shared.source_literal(e["loc"]) if e.get("loc") else None for e in writes)
            named = [e for e in p.effects if e.get("kind") == "call" and flow.fname(e["resolved"]) == "VarContainer::name"]
            name_ok = len(named) == 1 and deep_strip(named[0]["args"][1]) == shared.var_of(POS) and symx.contains(named[0]["args"][0], lambda n: n[0] == "field" and n[2] == "ordering")
            # the name is what the second write prints
            printed_ok = len(writes) == 2 and bool(named) and symx.contains(writes[1]["args"][1], lambda n: n == deep_strip(named[0]["result"]) or (n[0] == "app" and flow.fname(n[1]) == "VarContainer::name"))
            outs.add((lits, name_ok, printed_ok))
        table[c] = outs
    want = {"T": "T(", "B": "F(", "U": "u("}
    for c in shared.CLASSES:
        ok = len(table[c]) == 1
        if ok:
            lits, name_ok, printed_ok = next(iter(table[c]))
            ok = len(lits) == 2 and lits[0] == want[c] and lits[1] == "{}) " and name_ok and printed_ok
        ctx.ob(rule, "row[%s]" % c, ok, where=cb.where(), expected='"%s" then "{}) " with ordering.name(Var(pos))' % want[c], found=sorted(map(str, table[c])))
    try:
        nb = lib.one("datatypes::adf::VarContainer::name")
        dd = flow.Defs(nb)
        ret = dd.expr_local(0)
        m = match(ret, C("and_then", C("ok", C("read", F(P(1), "names"))), CLOS("c", [P(2)])))
        ok = m is not None
        if ok:
            cr = flow.closure_ret(lib, lib.body(m["c"]))
            ok = match(cr, C("cloned", C("get", P(2), C("Var::value", OP("VarContainer::name", 2))))) is not None or \
                match(cr, C("cloned", C("get", P(2), F(OP("VarContainer::name", 2), "0")))) is not None
        ctx.ob(rule, "VarContainer::name", ok, where=nb.where(), expected="names.read().get(var.value()).cloned()", found=flow.show(ret)[:200])
    except LookupError as e:
        ctx.lost(rule, "VarContainer::name", str(e))
    # the printable wrappers hand the interpretation and ordering through unchanged
    for sfx in ("adf::Adf::print_interpretation", "adfbiodivine::Adf::print_interpretation", "datatypes::adf::PrintDictionary::print_interpretation"):
        try:
            pb = lib.one(sfx)
            dd = flow.Defs(pb)
            ret = dd.expr_local(0)
            ok = match(ret, C("PrintableInterpretation::new", P(2), F(P(1), "ordering"))) is not None
            ctx.ob(rule, sfx.split("::", 1)[-1], ok, where=pb.where(), expected="PrintableInterpretation::new(interpretation, &self.ordering)", found=flow.show(ret)[:160])
        except LookupError as e:
            ctx.lost(rule, sfx, str(e))
    for sfx in ("adf::Adf::print_dictionary", "adfbiodivine::Adf::print_dictionary"):
        try:
            pb = lib.one(sfx)
            dd = flow.Defs(pb)
            ret = dd.expr_local(0)
            ok = match(ret, C("PrintDictionary::new", F(P(1), "ordering"))) is not None
            ctx.ob(rule, sfx.split("::", 1)[-1], ok, where=pb.where(), expected="PrintDictionary::new(&self.ordering)", found=flow.show(ret)[:160])
        except LookupError as e:
            ctx.lost(rule, sfx, str(e))


CONSTRUCT = ("::from_parser", "::from_parser_with_stm_rewrite")
SORTS = ("AdfParser::varsort_lexi", "AdfParser::varsort_alphanum")


def P_cli(ctx, bin_):
    rule = "C10.P-cli"
    ctx.rule(rule, "CLI: no CFG path from an ADF construction (from_parser*) to a sort call (sorting after construction would relabel positions of an existing ADF); "
                   "every construction from a parser is dominated by that parser's successful parse")
    try:
        run = bin_.one("App::run")
    except LookupError as e:
        ctx.lost(rule, "App::run", str(e))
        return
    cons = run.call_blocks(lambda p, t: any(flow.sg(p).endswith(s) for s in CONSTRUCT))
    sorts = set(run.call_blocks(lambda p, t: any(flow.sg(p).endswith(s) for s in SORTS)))
    ctx.floor(rule, "constructions", len(cons), 5)
    ctx.floor(rule, "sort calls", len(sorts), 6)
    for cb in cons:
        t = run.blocks[cb]["term"]
        reach = run.reach_avoiding([t["t"]] if t["t"] is not None else [], set())
        hit = sorted(reach & sorts)
        ctx.ob(rule, "no-sort-after-construction@%s" % run.where(t.get("loc")).split(":")[-1] if False else "no-sort-after-construction", not hit, where=run.where(t.get("loc")),
               expected="no sort reachable after from_parser", found=[run.where(run.blocks[x]["term"].get("loc")) for x in hit[:3]])
    # every sort call is controlled by its own flag: --lx -> varsort_lexi (byte-wise order), --an -> varsort_alphanum
    from rules import C15
    dflags = flow.Defs(run)
    fs = {}
    for bb_, t_ in run.terminators():
        if t_["k"] != "switch" or t_["d"]["k"] not in ("copy", "move"):
            continue
        e_ = dflags.expr_operand(t_["d"])
        inv = False
        if e_[0] == "unop" and e_[1] == "Not":
            e_, inv = e_[2], True
        if e_[0] == "field" and e_[1] == ("param", 1) and e_[2] in ("sort_lex", "sort_alphan"):
            zero = [x[1] for x in t_["targets"] if x[0] == "0"]
            if zero:
                f_t, t_t = zero[0], t_["otherwise"]
                if inv:
                    f_t, t_t = t_t, f_t
                fs[bb_] = (e_[2], t_t, f_t)
    preds = run.preds()
    n_s = 0
    for sb in sorted(sorts):
        t = run.blocks[sb]["term"]
        callee = flow.last(ir.callee_path(ir.callee_of(t)) or "")
        ctl = C15.controlling(run, preds, fs, sb)
        want = {"varsort_lexi": "sort_lex", "varsort_alphanum": "sort_alphan"}.get(callee)
        flags = sorted(f for f, pol in ctl if f in ("sort_lex", "sort_alphan"))
        n_s += 1
        ctx.ob(rule, "sort-under-own-flag:%s" % callee, want is not None and flags == [want] and all(pol for f, pol in ctl if f == want), where=run.where(t.get("loc")),
               expected="%s only under --%s" % (callee, "lx" if want == "sort_lex" else "an"), found="controlled by %s" % sorted(ctl))
    # sorts and constructions use the parser that was parsed: dominated by the parse call on the same parser local
    d = flow.Defs(run)
    dom = run.dominators()
    parse_calls = {}
    for bb, t, ci in run.calls():
        if flow.sg(ir.callee_path(ci) or "").endswith("parser::AdfParser::parse"):
            e = d.expr_call(t, bb)
            parse_calls[bb] = e[3][0] if e[0] == "call" and e[3] else None
    for bb in list(sorts) + cons:
        t = run.blocks[bb]["term"]
        e = d.expr_call(t, bb)
        recv = e[3][0] if e[0] == "call" and e[3] else None
        ok = any(pb in dom.get(bb, set()) and pe == recv for pb, pe in parse_calls.items())
        ctx.ob(rule, "uses-parsed-parser", ok, where=run.where(t.get("loc")), expected="dominated by parse() of the same parser object", found=flow.show(recv)[:80] if recv else None)


def check(ctx):
    from rules import C03, C08, C09
    for cfg in configs(ctx.tier):
        ctx.cfg = cfg.name
        lib = ctx.load(cfg)
        P_reindex(ctx, lib)
        F_print(ctx, lib)
        C09.F_order(ctx, lib)
        C09.A_name(ctx, lib)      # biodivine variables are named by variable index, not by label
        C03.A_rewrite(ctx, lib)   # the parse-time rewriting pairs variable formula_order[k] with the k-th acceptance condition
        C08.F_label(ctx, lib)
    ctx.cfg = "bin@default"
    bin_ = ctx.load(facts.Config("bin"))
    P_cli(ctx, bin_)
    C08.F_input(ctx, bin_, "bin", 3)   # a transformation of the text before parsing (e.g. stripping whitespace) is a non-injective renaming of quoted labels
