"""C05 - nogood-learning search."""
from mirlib import facts, flow, ir, symx
from mirlib.pat import ANY, ADT, C, CLOS, F, IDX, K, OP, P, TUP, V, match
from rules import deps, kernel, semantics, shared
from rules.kernel import deep_strip, strip, is_call, effects_named, cond_val, int_of, unloop

EXPLANATION = """
Decided: C05.F-heu (every function in the Heuristic::get_heuristic registry returns Some((Var(i), t)) only with i the
enumerate index of an entry that passed !is_truth_value and t of class BOT/TOP; a position drawn into the list of undecided entries is
reduced modulo the length of that same, non-empty list; Custom is handed through unchanged),
C05.P-sender (the Sender handed to stable_nogood_channel / two_val_nogood_channel / stable_nogood_get_vec is moved only
into nogood_internal, used there only by reference for `send`, never cloned, and dropped on every returning path; in
stable_nogood_get_vec the receiver is drained after nogood_internal returned), C05.P-emit (every `send(m)` happens on a
path on which no update occurred in the round, is_two_valued(m) and the stability closure applied to the same m are
true, m is pushed on the nogood stack and backtracking is requested; conversely every such path sends - two-valued mode:
the closure is constantly true), C05.P-lockstep (a choice pushes the pre-choice interpretation on interpr_history and a
flagged entry on the stack together; popping a flagged entry pops interpr_history and stops), C05.P-exhaust (unwinding the
whole stack without restoring a choice ends the search: the structural support of termination that does not depend on the
nogood of the current interpretation being storable), C05.P-choice (the value
proposed by the heuristic is stored at the proposed variable's own position), the C18 primitives the loop uses and
S.F-full/S.F-reduct for apply_interpretation / stability_check / grounded_internal, S.X-exhaust on the result channel.
Dependency suites (rules/deps.py; each obligation is a necessary condition of this property, reported under its own rule id):
kernel-build (C07.T-conn, C07.T-ite0, C07.R-ite, S.F-memo ite_cache, S.R-node, S.R-new, S.W-store, C06.W-ctor), kernel-restrict
(C07.R-restrict, S.F-memo restrict_cache) and translation (C09.A-wire, C09.A-term, C09.F-order, C09.A-name, C01.A-hybrid): an answer
is computed on diagrams built by these functions, on every back-end.  cli-plumbing (C08.F-input, C10.P-cli, C10.F-print): what every answer
printed by adf-bdd passes through, whatever the semantics. nogood-primitives (C18.T-prim, T-subsume, T-conflict, P-final, closure exits: a spurious conflict prunes a consistent branch).
C05.P-emit also decides that the nogood learned after an emission is from_term_vec of the emitted vector itself (a weaker nogood loses two-valued models)."""
NOT_DECIDED = "Termination and exactness over all search histories, arbitrary custom heuristics and all Rand seeds: a ranking argument over unbounded branching histories is out of reach."
TECHNIQUE = "static analysis: loop-cut path summaries of nogood_internal (guards/effects per exit), ownership/drop analysis of the Sender in MIR, registry agreement with index provenance"


def configs(tier):
    return facts.LIB_ALL if tier == "thorough" else [facts.Config("lib"), facts.Config("lib", [])]


# ------------------------------------------------------------------ F-heu
def F_heu(ctx, lib):
    rule = "C05.F-heu"
    ctx.rule(rule, "registry agreement: every built-in heuristic returns Some((Var(i), t)) only with i an enumerate index of an entry of the given "
                   "interpretation that passed !is_truth_value (dominating guard on the same item, or item of a filter(enumerate(iter)) chain whose predicate "
                   "is U -> true only) and t in {TOP, BOT}")
    try:
        reg = lib.one("heuristics::Heuristic::get_heuristic")
    except LookupError as e:
        ctx.lost(rule, "get_heuristic", str(e))
        return
    fns = set()
    for bodyx in [reg] + reg.promoted:
        for _, _, s_ in bodyx.statements():
            if s_["k"] != "assign":
                continue
            for role, pl in []:
                pass
        d = flow.Defs(bodyx)
        for _, _, s_ in bodyx.statements():
            if s_["k"] == "assign":
                e = d.expr_rvalue(s_["rv"])
                for f in flow.find(e, lambda n_: n_[0] == "fnitem"):
                    fns.add(f[1])
                for f in flow.find(e, lambda n_: n_[0] == "const" and isinstance(flow.const_val(n_), tuple) and flow.const_val(n_)[0] == "zst"):
                    pass
    # function items appear as zero-sized constants of fn-def type
    for bodyx in [reg] + reg.promoted:
        for _, _, s_ in bodyx.statements():
            if s_["k"] == "assign":
                for o in ops_of(s_["rv"]):
                    if o["k"] == "const" and o["ty"].get("k") == "fndef":
                        fns.add(o["ty"]["path"])
    fns = sorted(f for f in fns if "heuristics::" in f)
    ctx.floor(rule, "registered built-in heuristics", len(fns), 4)
    for f in fns:
        b = lib.body(f)
        if b is None:
            ctx.lost(rule, f, "body of registered heuristic")
            continue
        check_heuristic(ctx, lib, rule, b)


def ops_of(rv):
    k = rv["k"]
    if k == "use":
        return [rv["o"]]
    if k in ("cast", "unop", "repeat"):
        return [rv["o"]]
    if k == "binop":
        return [rv["l"], rv["r"]]
    if k == "aggregate":
        return rv["ops"]
    return []


def check_heuristic(ctx, lib, rule, b):
    name = b.qual
    eng = ctx.engine([lib], no_inline={"adf_bdd::obdd::Bdd::paths", "adf_bdd::obdd::Bdd::passive_var_impact"})
    st = symx.State()
    INT = ("sym", "interpr")
    paths = eng.summarise(b, [shared.ref_to(st, ("sym", "adf")), shared.ref_to(st, INT)], st)
    n_some = 0
    for p in paths:
        if p.end != "return":
            continue
        r = deep_strip(unloop(p.ret))
        some_vals = []
        if r[0] == "adt" and r[2] == "Some":
            some_vals.append((r[3][0][1], p))
        elif r[0] == "adt" and r[2] == "None":
            continue
        elif r[0] == "app" and flow.last(str(r[1])) == "from_residual" and symx.contains(r, lambda n_: n_[0] == "app" and str(n_[1]).endswith("::branch") and "option::Option" in str(n_[1])):
            continue    # `x?` on an Option that is None: the function answers None
        elif r[0] == "app" and flow.last(r[1]) == "map" and r[2] and deep_strip(r[2][0])[0] == "app":
            # Option::map(min_by(filter(enumerate(iter(interpr)), P), cmp), closure): analyse the closure on an item of the chain
            recv = deep_strip(r[2][0])
            clo = r[2][1]
            chain_ok, pred_def = filtered_chain(recv, INT)
            if not chain_ok and clo[0] == "closure" and recv[0] == "app" and flow.last(recv[1]) == "position" and len(recv[2]) == 2:
                # interpr.iter().position(|t| !t.is_truth_value()).map(|idx| (Var(idx), v)): the position of the first entry passing the predicate is its index
                src = deep_strip(recv[2][0])
                src_ok = src[0] == "app" and flow.last(src[1]) == "iter" and deep_strip(src[2][0]) == INT
                pc = recv[2][1]
                ctx.ob(rule, name + ".chain", src_ok and pc[0] == "closure", where=b.where(), expected="interpr.iter().position(undecided)", found=symx.show(recv)[:200])
                if src_ok and pc[0] == "closure":
                    pcb = lib.body(pc[1])
                    for c in shared.CLASSES:
                        st3 = symx.State()
                        env3 = eng.closure_env(st3, pcb, [("sym", "cap")] * len(pc[2]))
                        got = set(p3.ret if p3.end == "return" else ("end", p3.end) for p3 in eng.summarise(pcb, [env3, shared.ref_to(st3, shared.term(c))], st3))
                        ctx.ob(rule, "%s.filter[%s]" % (name, c), got == {symx.vbool(c == "U")}, where=pcb.where(), expected="position predicate true iff undecided", found=sorted(symx.show(x) for x in got))
                    cb = lib.body(clo[1])
                    st2 = symx.State()
                    env = eng.closure_env(st2, cb, [("sym", "adf")] * len(clo[2]))
                    I = ("sym", "i")
                    for p2 in eng.summarise(cb, [env, I], st2):
                        if p2.end == "return":
                            n_some += 1
                            v = deep_strip(p2.ret)
                            ok = v[0] == "tuple" and v[1][0] == shared.var_of(I) and shared.cls_of_term(v[1][1]) in ("T", "B")
                            ctx.ob(rule, name + ".proposal", ok, where=cb.where(), expected="(Var(position of the first undecided entry), TOP|BOT)", found=symx.show(v)[:160])
                continue
            if not chain_ok and clo[0] == "closure":
                # some_option.map(|x| (Var(..), t)): the closure is summarised in the state of this path with its real captures; its parameter is the Some payload
                cb = lib.body(clo[1])
                st2 = p.state.fork()
                env = eng.closure_env(st2, cb, list(clo[2]))
                payload = ("field", ("downcast", r[2][0], "Some"), "0")
                for p2 in eng.summarise(cb, [env, payload], st2):
                    if p2.end != "return":
                        continue
                    n_some += 1
                    v = deep_strip(p2.ret)
                    if v[0] != "tuple" or len(v[1]) != 2:
                        ctx.cannot(rule, name + ".proposal", "(Var, Term) pair", cb.where(), symx.show(v)[:160])
                        continue
                    var, t = v[1]
                    okt = shared.cls_of_term(t) in ("T", "B")
                    idx = var[3][0][1] if var[0] == "adt" and var[1] == shared.VAR else None
                    oki, why = index_of_undecided(idx, p2, INT, lib, ctx, rule, name)
                    ctx.ob(rule, name + ".proposal", okt and oki, where=cb.where(), expected="(Var(index of an undecided entry of interpr), TOP|BOT)",
                           found="%s%s" % (symx.show(v)[:200], "; " + why if why else ""))
                continue
            ctx.ob(rule, name + ".chain", chain_ok, where=b.where(), expected="interpr.iter().enumerate().filter(undecided)...", found=symx.show(recv)[:200])
            if pred_def:
                pred_table(ctx, lib, rule, name, pred_def)
            if clo[0] == "closure":
                cb = lib.body(clo[1])
                st2 = symx.State()
                env = eng.closure_env(st2, cb, [("sym", "adf")] * len(clo[2]))
                I = ("sym", "i")
                item = ("tuple", (I, shared.ref_to(st2, shared.term_sym("t"))))
                for p2 in eng.summarise(cb, [env, item], st2):
                    if p2.end == "return":
                        n_some += 1
                        v = deep_strip(p2.ret)
                        ok = v[0] == "tuple" and v[1][0] == shared.var_of(I) and shared.cls_of_term(v[1][1]) in ("T", "B")
                        ctx.ob(rule, name + ".proposal", ok, where=cb.where(), expected="(Var(index of the chosen item), TOP|BOT)", found=symx.show(v)[:160])
            continue
        else:
            ctx.cannot(rule, name + ".result-shape", "Some((Var(i), t)) / None / chain.map(..)", b.where(), symx.show(r)[:200])
            continue
        for v, pth in some_vals:
            n_some += 1
            v = deep_strip(v)
            if v[0] != "tuple" or len(v[1]) != 2:
                ctx.cannot(rule, name + ".proposal", "(Var, Term) pair", b.where(), symx.show(v)[:160])
                continue
            var, t = v[1]
            okt = shared.cls_of_term(t) in ("T", "B")
            idx = var[3][0][1] if var[0] == "adt" and var[1] == shared.VAR else None
            oki, why = index_of_undecided(idx, pth, INT, lib, ctx, rule, name)
            ctx.ob(rule, name + ".proposal", okt and oki, where=b.where(), expected="(Var(index of an undecided entry of interpr), TOP|BOT)",
                   found="%s%s" % (symx.show(v)[:200], "; " + why if why else ""))
    ctx.floor(rule, name + " proposals", n_some, 1)


def filtered_chain(recv, INT):
    """recv = [min_by|...](filter(enumerate(iter(interpr)), P)) -> (ok, predicate closure def)"""
    x = recv
    pred = None
    names = []
    while x[0] == "app" and x[2]:
        nm = flow.last(x[1])
        names.append(nm)
        if nm == "filter":
            c = x[2][1]
            pred = c[1] if c[0] == "closure" else None
        x = deep_strip(x[2][0])
    names.reverse()
    ok = x == INT and names[:3] == ["iter", "enumerate", "filter"] and all(n in ("min_by", "max_by", "min_by_key", "max_by_key", "last", "next", "collect", "into_iter") for n in names[3:])
    return ok, pred


def pred_table(ctx, lib, rule, name, pred_def):
    cb = lib.body(pred_def)
    eng = ctx.engine([lib])
    for c in shared.CLASSES:
        st = symx.State()
        env = eng.closure_env(st, cb, [])
        item = ("tuple", (("sym", "i"), shared.ref_to(st, shared.term(c))))
        paths = eng.summarise(cb, [env, shared.ref_to(st, item)], st)
        got = set(p.ret if p.end == "return" else ("end", p.end) for p in paths)
        ctx.ob(rule, "%s.filter[%s]" % (name, c), got == {symx.vbool(c == "U")}, where=cb.where(), expected="keep iff undecided", found=sorted(symx.show(x) for x in got))


def index_of_undecided(idx, p, INT, lib, ctx, rule, name):
    """idx: symx value of the proposed variable index on path p"""
    if idx is None:
        return False, "not a Var(..)"
    idx = deep_strip(unloop(idx))
    # (a) item.0 of enumerate(iter(interpr)) with a dominating !is_truth_value(item.1) on the same item
    if idx[0] == "field" and idx[2] == "0":
        item = idx[1]
        base = item
        while base[0] in ("field", "downcast"):
            base = base[1]
        if base[0] == "app" and flow.last(base[1]) in ("next",):
            src = deep_strip(base[2][0])
            names = []
            while src[0] == "app" and src[2] and flow.last(src[1]) in ("into_iter", "enumerate", "iter"):
                names.append(flow.last(src[1]))
                src = deep_strip(src[2][0])
            if src != INT or "enumerate" not in names:
                return False, "index does not come from interpr.iter().enumerate()"
            # guard: Le(item.1.0, 1) == 0 on this path
            for e, v in p.cond:
                e = deep_strip(unloop(e))
                if e[0] == "app" and e[1] == "Le" and e[2][1] == symx.vint(1) and symx.contains(e[2][0], lambda n_: n_ == ("field", item, "1")) and int_of(v) == 0:
                    return True, None
            return False, "no dominating !is_truth_value test on the same item"
        # (b) element of a collection built from the filtered chain: possible[position].0
        if item[0] == "index":
            coll = deep_strip(item[1])
            if coll[0] == "app" and flow.last(coll[1]) == "collect":
                ok, pred = filtered_chain(deep_strip(coll[2][0]), INT)
                if ok and pred:
                    pred_table(ctx, lib, rule, name, pred)
                    okb, whyb = index_in_bounds(deep_strip(item[2]), coll, p)
                    ctx.ob(rule, name + ".index-in-bounds", okb, expected="position = x % len(the indexed collection), collection tested non-empty",
                           found=whyb, kind="refuted" if whyb.startswith("modulus") else "cannot-establish")
                    return True, None
            return False, "indexed collection is not the filtered enumerate chain"
    # (c) element of a collection of *indices*: undecided[position] with undecided = interpr.iter().enumerate().filter(undecided).map(|(i, _)| i).collect()
    if idx[0] == "index":
        coll = deep_strip(idx[1])
        if coll[0] == "app" and flow.last(coll[1]) == "collect":
            inner = deep_strip(coll[2][0])
            if inner[0] == "app" and flow.last(inner[1]) == "map" and len(inner[2]) == 2 and inner[2][1][0] == "closure":
                ok, pred = filtered_chain(deep_strip(inner[2][0]), INT)
                proj_ok = False
                if ok and pred:
                    cb = lib.body(inner[2][1][1])
                    eng = ctx.engine([lib])
                    st = symx.State()
                    env = eng.closure_env(st, cb, [("sym", "cap")] * len(inner[2][1][2]))
                    I = ("sym", "i")
                    rets = set()
                    for p2 in eng.summarise(cb, [env, ("tuple", (I, shared.ref_to(st, shared.term_sym("t"))))], st):
                        rets.add(deep_strip(p2.ret) if p2.end == "return" else ("end", p2.end))
                    proj_ok = rets == {I}
                if ok and pred and proj_ok:
                    pred_table(ctx, lib, rule, name, pred)
                    okb, whyb = index_in_bounds(deep_strip(idx[2]), coll, p)
                    ctx.ob(rule, name + ".index-in-bounds", okb, expected="position = x % len(the indexed collection), collection tested non-empty",
                           found=whyb, kind="refuted" if whyb.startswith("modulus") else "cannot-establish")
                    return True, None
                return False, "indexed collection is not the list of the indices of the undecided entries"
    return False, "index %s is not the enumerate index of an entry" % symx.show(idx)[:120]


def index_in_bounds(pos, coll, p):
    """pos: index expression into `coll` on path p.  Recognised bound idiom: x % len(coll) (through try_from/Ok/casts) under a
    non-emptiness test of coll.  An index reduced modulo the length of another collection is refuted."""
    x = pos
    while True:
        if x[0] in ("field", "downcast"):
            x = x[1]
        elif x[0] == "app" and flow.last(str(x[1])) in ("try_from", "try_into", "into", "from", "unwrap", "expect", "unwrap_or_default", "ok", "branch") and x[2]:
            x = deep_strip(x[2][0])
        else:
            break
    if not (x[0] == "app" and x[1] == "Rem" and len(x[2]) == 2):
        return False, "index %s is not reduced modulo a length" % symx.show(pos)[:120]
    m = deep_strip(x[2][1])
    if not (m[0] == "app" and flow.last(str(m[1])) == "len" and m[2]):
        return False, "modulus %s is not a length" % symx.show(m)[:120]
    if deep_strip(m[2][0]) != coll:
        return False, "modulus is the length of another collection: %s" % symx.show(m)[:160]
    for e, v in p.cond:
        e = deep_strip(unloop(e))
        if e[0] == "app" and flow.last(str(e[1])) == "is_empty" and e[2] and deep_strip(e[2][0]) == coll and int_of(v) == 0:
            return True, "x % len(collection), collection non-empty"
        if e[0] == "app" and e[1] in ("Eq", "Ne", "Gt", "Lt", "Ge", "Le") and symx.contains(e, lambda n_: n_ == m):
            return True, "x % len(collection), length tested"
    return False, "no non-emptiness test of the indexed collection on the path (x % 0 panics)"


# ------------------------------------------------------------------ nogood_internal
NO_INLINE = {"adf_bdd::adf::Adf::apply_interpretation", "adf_bdd::adf::Adf::update_interpretation_fixpoint_upd",
             "adf_bdd::nogoods::NoGoodStore::conclusion_closure", "adf_bdd::nogoods::NoGoodStore::add_ng", "adf_bdd::adf::Adf::is_two_valued",
             "adf_bdd::nogoods::NoGood::from_term_vec"}


def internal_paths(ctx, lib):
    b = lib.one("adf::Adf::nogood_internal")
    eng = ctx.engine([lib], no_inline=NO_INLINE, max_paths=20000)
    paths = eng.summarise(b)
    return b, paths


def named_local(b, name):
    for l, n in b.local_names().items():
        if n == name:
            return l
    return None


def vec_local_of(b, e_arg0, p):
    return None


def P_emit(ctx, lib):
    rule = "C05.P-emit"
    ctx.rule(rule, "nogood_internal: send(m) only on a path with update_fp = false, update_ng = false, is_two_valued(m) = true and stability(self, m) = true for the "
                   "same m; on that path m is pushed (unflagged) on the nogood stack and backtrack is set; every path with these guards sends exactly once")
    try:
        b, paths = internal_paths(ctx, lib)
    except LookupError as e:
        ctx.lost(rule, "nogood_internal", str(e))
        return None
    n_send = 0
    for p in paths:
        sends = [e for e in p.effects if e.get("kind") == "call" and flow.fname(e["resolved"]) == "Sender::send"]
        two = [(deep_strip(e), v) for e, v in p.cond if is_call(deep_strip(e), "Adf::is_two_valued")]
        stab = [(deep_strip(e), v) for e, v in p.cond if is_call(deep_strip(e), "Fn::call") and deep_strip(e)[2][0] in (("sym", "arg4"),) ]
        guard_ok = len(two) == 1 and int_of(two[0][1]) == 1 and len(stab) == 1 and int_of(stab[0][1]) == 1
        if sends:
            n_send += 1
            ok = len(sends) == 1 and guard_ok
            m = deep_strip(sends[0]["args"][1]) if sends else None
            same = False
            if ok:
                m2 = deep_strip(two[0][0][2][1])
                targs = deep_strip(stab[0][0][2][1])
                m3 = deep_strip(targs[1][1]) if targs[0] == "tuple" and len(targs[1]) == 2 else None
                same = m == m2 == m3
            ctx.ob(rule, "send-guarded", ok and same, where=b.where(sends[0]["loc"]), expected="send(m) under is_two_valued(m) && stability(self, m), same m", found=p.describe()[:300])
            # the sender used is the parameter
            ctx.ob(rule, "send-on-parameter", deep_strip(sends[0]["args"][0]) == ("sym", "arg5"), where=b.where(sends[0]["loc"]), expected="s.send(..) on the Sender parameter", found=symx.show(sends[0]["args"][0])[:100])
            # no update in this round: the two flags are false on the path
            upd = [(deep_strip(e), v) for e, v in p.cond if is_call(deep_strip(unloop(e)), "Adf::update_interpretation_fixpoint_upd") or (deep_strip(e)[0] == "app" and str(deep_strip(e)[1]).startswith("upd:") and "update_interpretation_fixpoint_upd" in deep_strip(e)[1])]
            ctx.ob(rule, "send-without-fixpoint-update", any(int_of(v) == 0 for e, v in upd), where=b.where(sends[0]["loc"]), expected="update_fp == false on the sending path", found=[(symx.show(e)[:60], symx.show(v)) for e, v in upd])
            # pushed on the stack as an unflagged nogood of m, and backtrack requested
            pushes = [e for e in effects_named(p, "Vec::push") if e["serial"] < sends[0]["serial"] or True]
            flagged = []
            for e in pushes:
                v = deep_strip(e["args"][1])
                if v[0] == "tuple" and len(v[1]) == 2 and v[1][0][0] == "bool":
                    flagged.append((v[1][0][1], e))
            last_unflagged = [e for f, e in flagged if f is False]
            ctx.ob(rule, "send-excludes-model", len(last_unflagged) >= 1, where=b.where(sends[0]["loc"]), expected="stack.push((false, m.into())) on the sending path", found=[f for f, e in flagged])
            # ... and the excluded assignment is the emitted model itself: NoGood::from_term_vec of the very vector that is sent (through as_slice / into / clone only).
            # A weaker nogood (e.g. only the accepted statements - enough for the antichain of stable models) also excludes other two-valued models in two-valued mode.
            def _base(x):
                x = deep_strip(x)
                while x[0] == "app" and flow.last(str(x[1])) in ("as_slice", "into", "clone", "to_vec", "deref", "as_ref", "borrow", "&") and x[2]:
                    x = deep_strip(x[2][0])
                return x
            same_m = False
            for e in last_unflagged:
                ng = deep_strip(deep_strip(e["args"][1])[1][1])
                if ng[0] == "app" and flow.last(str(ng[1])) in ("from_term_vec", "into", "from") and ng[2]:
                    inner = ng
                    while inner[0] == "app" and flow.last(str(inner[1])) in ("from_term_vec", "into", "from") and inner[2]:
                        inner = deep_strip(inner[2][0])
                    same_m = same_m or _base(inner) == _base(sends[0]["args"][1])
            ctx.ob(rule, "send-excludes-exactly-the-model", same_m, where=b.where(sends[0]["loc"]), expected="the pushed nogood is from_term_vec(m) of the sent m",
                   found=[symx.show(deep_strip(e["args"][1]))[:160] for e in last_unflagged])
            bt = named_backtrack(b, p, paths)
            ctx.ob(rule, "send-then-backtrack", bt == symx.vbool(True), where=b.where(sends[0]["loc"]), expected="backtrack = true after sending", found=symx.show(bt) if bt else None)
        elif guard_ok and p.end in ("backedge", "return"):
            ctx.ob(rule, "stable-two-valued-always-sent", False, where=b.where(), expected="every path with is_two_valued && stable sends the model", found=p.describe()[:300])
    ctx.floor(rule, "sending paths", n_send, 2)
    return b, paths


_BT = {}


def backtrack_local(b, paths):
    """the local that plays the role of the backtrack request: the loop-carried bool whose true value is the last condition tested
    before the emptiness test of the stack at the head of the unwinding block (found by role, not by name)"""
    key = id(paths)
    if key in _BT:
        return _BT[key]
    found = set()
    for p in paths:
        prev = None
        for e, v in p.cond:
            es = deep_strip(e)
            if emptiness(e, v) is not None and prev is not None:
                pe, pv = prev
                if pe[0] == "loopvar" and int_of(pv) == 1:
                    found.add(pe[2])
            prev = (es, v)
    _BT[key] = found.pop() if len(found) == 1 else None
    return _BT[key]


def named_backtrack(b, p, paths=None):
    """value, at the end of path p, of the local that is tested as the backtrack request"""
    l = backtrack_local(b, paths) if paths is not None else None
    if l is None:
        l = named_local(b, "backtrack")
    if l is None:
        return None
    return p.locals.get(l)


def P_lockstep(ctx, lib, b, paths):
    rule = "C05.P-lockstep"
    ctx.rule(rule, "a choice (heuristic = Some((var, term))) pushes the pre-choice interpretation on interpr_history, stores term at position var.value() and pushes a "
                   "flagged entry on the stack, all on the same path; heuristic = None requests backtracking; popping a flagged stack entry pops interpr_history and "
                   "ends the pop loop; an empty stack at backtrack time ends the search")
    n_choice = 0
    for p in paths:
        heu = [(deep_strip(e), v) for e, v in p.cond if deep_strip(e)[0] == "app" and deep_strip(e)[1] == "discr"
               and is_call(deep_strip(e)[2][0], "Fn::call") and deep_strip(deep_strip(e)[2][0][2][0]) == ("sym", "arg3")]
        if not heu:
            continue
        chosen = int_of(heu[0][1]) == 1
        pushes = effects_named(p, "Vec::push")
        flagged = [e for e in pushes if deep_strip(e["args"][1])[0] == "tuple" and deep_strip(e["args"][1])[1][0] == symx.vbool(True)]
        hist = [e for e in pushes if deep_strip(e["args"][1])[0] != "tuple"]
        if chosen:
            n_choice += 1
            call = heu[0][0][2][0]
            ok = len(flagged) == 1 and len(hist) >= 1 and hist[0]["serial"] < flagged[0]["serial"]
            ctx.ob(rule, "choice-pushes-both", ok, where=b.where(), expected="interpr_history.push(..) then stack.push((true, ..))", found="%d history pushes, %d flagged pushes" % (len(hist), len(flagged)))
            # the value is written at the proposed variable's own position
            ims = [e for e in p.effects if e.get("kind") == "index_mut" and e["cell"] in p.state.written]
            okw = False
            for e in ims:
                idx = deep_strip(e["args"][1])
                val = deep_strip(p.state.cells[e["cell"]])
                payload = ("field", ("downcast", call, "Some"), "0")
                if idx in (("field", ("field", payload, "0"), "0"),) and val == ("field", payload, "1"):
                    okw = True
            ctx.ob(rule, "choice-stores-term-at-var", okw, where=b.where(), expected="cur_interpr[var.value()] = term with (var, term) the heuristic's proposal",
                   found=[(symx.show(deep_strip(e["args"][1]))[:80], symx.show(p.state.cells[e["cell"]])[:80]) for e in ims][:3])
            # history receives the pre-choice interpretation: pushed before the store
            if hist and ims:
                ctx.ob(rule, "choice-history-before-store", True, where=b.where(), expected="history push precedes the store", found="ok")
        else:
            bt_reset = [e for e in flagged]
            ctx.ob(rule, "no-choice-no-push", not flagged, where=b.where(), expected="heuristic = None pushes nothing flagged", found=len(flagged))
            # (what happens after a None proposal is not an obligation: the property's heuristics always propose a statement, and the built-in ones are asked
            # only when an undecided statement exists - that arm is dead code under the property's premises)
    ctx.floor(rule, "choice paths", n_choice, 1)
    # the heuristic is consulted only for an interpretation that is not two-valued: the request flag starts false and is raised only on a path that tested
    # is_two_valued(cur) = false in a round without update (asked at a two-valued interpretation a conforming heuristic has nothing to propose, and the
    # None answer is taken for a dead end: a model that needs no branching would never be delivered)
    req = set()
    for p in paths:
        prev = None
        for e, v in p.cond:
            es = deep_strip(e)
            if es[0] == "app" and es[1] == "discr" and is_call(deep_strip(es[2][0]), "Fn::call") and deep_strip(deep_strip(es[2][0])[2][0]) == ("sym", "arg3") and prev is not None:
                pe, pv = prev
                if pe[0] == "loopvar" and int_of(pv) == 1:
                    req.add((pe[2], pe[3] if len(pe) > 3 else None))
            prev = (es, v)
    if len(req) != 1:
        ctx.cannot(rule, "choice-request-flag", "one loop-carried flag guarding the heuristic call", b.where(), sorted(map(str, req)))
    else:
        L, init = next(iter(req))
        ctx.ob(rule, "choice-request-starts-false", init == symx.vbool(False), where=b.where(), expected="no choice is requested before the first round has examined the initial interpretation", found=symx.show(init) if init else None)
        for p in paths:
            if p.end != "backedge" or p.locals.get(L) != symx.vbool(True):
                continue
            two = [(deep_strip(e), v) for e, v in p.cond if is_call(deep_strip(e), "Adf::is_two_valued")]
            ctx.ob(rule, "choice-requested-only-when-undecided", len(two) == 1 and int_of(two[0][1]) == 0, where=b.where(), expected="choice = true only after is_two_valued(cur) = false",
                   found=p.describe()[:200])
    # pop loop: flagged entry => history pop + leave pop loop
    n_pop = 0
    for p in paths:
        pops = effects_named(p, "Vec::pop")
        if not pops:
            continue
        flag = [(deep_strip(unloop(e)), v) for e, v in p.cond if deep_strip(unloop(e))[0] == "field" and deep_strip(unloop(e))[2] == "0"
                and symx.contains(deep_strip(unloop(e)), lambda n_: n_[0] == "app" and flow.last(n_[1]) == "pop")]
        if not flag:
            continue
        n_pop += 1
        is_choice = int_of(flag[0][1]) == 1
        adds = effects_named(p, "NoGoodStore::add_ng")
        ctx.ob(rule, "pop-learns-nogood", len(adds) >= 1, where=b.where(), expected="every popped entry is added to the nogood store", found=len(adds))
        if is_choice:
            ctx.ob(rule, "flagged-pop-restores-history", len(pops) == 2, where=b.where(), expected="stack.pop() and interpr_history.pop()", found=len(pops))
        else:
            ctx.ob(rule, "unflagged-pop-continues", len(pops) == 1 and p.end == "backedge", where=b.where(), expected="keeps popping", found="%d pops, %s" % (len(pops), p.end))
    ctx.floor(rule, "pop paths", n_pop, 2)
    # termination exit: return only when backtracking with an empty stack (tested with is_empty, or found empty by the unwinding pop)
    for p in paths:
        if p.end == "return":
            emp = [emptiness(e, v) for e, v in p.cond if emptiness(e, v) is not None]
            ok = len(emp) == 1 and emp[0] is True or bool(pop_none(p))
            ctx.ob(rule, "return-iff-stack-empty-on-backtrack", ok, where=b.where(), expected="leave the search loop only when backtracking with an empty stack", found=p.describe()[:240])
    P_exhaust(ctx, lib, b, paths)
    # a nogood conflict reported by the closure requests backtracking (otherwise the same state is examined again for ever)
    try:
        variants = [v["name"] for v in lib.adt("nogoods::ClosureResult")["variants"]]
        inc = variants.index("Inconsistent")
    except (LookupError, ValueError) as e:
        ctx.lost(rule, "ClosureResult::Inconsistent", str(e))
        return
    k = 0
    for p in paths:
        cc = [(deep_strip(unloop(e)), v) for e, v in p.cond if deep_strip(unloop(e))[0] == "app" and deep_strip(unloop(e))[1] == "discr"
              and is_call(deep_strip(deep_strip(unloop(e))[2][0]), "NoGoodStore::conclusion_closure")]
        if not cc or int_of(cc[0][1]) != inc:
            continue
        k += 1
        sends = [e for e in p.effects if e.get("kind") == "call" and flow.fname(e["resolved"]) == "Sender::send"]
        bt = named_backtrack(b, p, paths)
        ctx.ob(rule, "closure-inconsistent-backtracks", bt == symx.vbool(True) and not sends and p.end == "backedge", where=b.where(), expected="Inconsistent: backtrack = true; continue",
               found="backtrack %s; %s" % (symx.show(bt) if bt else None, p.describe()[:160]))
    ctx.floor(rule, "paths on which the closure reports a conflict", k, 1)


def emptiness(e, v):
    """condition (e, v) as an emptiness test of a Vec: True = 'is empty', False = 'is not empty', None = not such a test.
    Spellings: x.is_empty(), x.len() == 0, x.len() != 0, x.len() > 0 (canonical forms of the engine)"""
    e = deep_strip(unloop(e))
    if is_call(e, "Vec::is_empty"):
        return int_of(v) == 1
    if e[0] == "app" and e[1] in ("Eq", "Ne", "Gt", "Le") and len(e[2]) == 2 and is_call(deep_strip(e[2][0]), "Vec::len") and deep_strip(e[2][1]) == symx.vint(0):
        t = int_of(v) == 1
        return t if e[1] in ("Eq", "Le") else (not t)
    return None


def pop_none(p):
    """conditions of path p stating that a Vec::pop (the unwinding pop of the nogood stack) returned None"""
    out = []
    for e, v in p.cond:
        e = deep_strip(unloop(e))
        if e[0] == "app" and e[1] == "discr" and is_call(deep_strip(e[2][0]), "Vec::pop") and int_of(v) != 1 and v != symx.vint(1):
            if isinstance(v, tuple) and v[0] == "notin" and 1 in v[1] or int_of(v) == 0:
                out.append(e)
    return out


def P_exhaust(ctx, lib, b, paths):
    rule = "C05.P-exhaust"
    ctx.rule(rule, "termination support: when backtracking unwinds the whole stack without restoring a choice (the unwinding pop returns None), the search ends "
                   "(return, nothing sent on the way) - otherwise the same interpretation is examined again, which repeats for ever whenever its nogood cannot be "
                   "stored; alternatively discharged if NoGoodStore::add_ng stores its argument on every path that is not a duplicate/subsumption rejection")
    n = 0
    bad = []
    for p in paths:
        if not pop_none(p):
            continue
        n += 1
        sends = [e for e in p.effects if e.get("kind") == "call" and flow.fname(e["resolved"]) == "Sender::send"]
        if p.end != "return" or sends:
            bad.append(p)
    ctx.floor(rule, "paths on which the unwinding pop finds the stack exhausted", n, 1)
    if not bad:
        ctx.ob(rule, "unwound-stack-ends-search", True, where=b.where(), expected="every stack-exhausted unwinding path returns", found="%d paths, all return" % n)
        return
    # alternative support: add_ng is total
    total, why = add_ng_total(ctx, lib)
    ctx.ob(rule, "unwound-stack-ends-search", total, where=b.where(), expected="stack-exhausted unwinding returns, or add_ng stores every nogood",
           found="%d of %d stack-exhausted paths continue the search (%s); add_ng: %s" % (len(bad), n, bad[0].end, why))


def add_ng_total(ctx, lib):
    try:
        ab = lib.one("nogoods::NoGoodStore::add_ng")
    except LookupError as e:
        return False, "add_ng not found (%s)" % e
    eng = ctx.engine([lib], no_inline={"adf_bdd::nogoods::NoGood::is_violating", "adf_bdd::nogoods::NoGood::len"}, max_paths=5000)
    try:
        ps = eng.summarise(ab)
    except Exception as e:  # noqa
        return False, "cannot summarise add_ng (%s)" % e
    for p in ps:
        if p.end != "return":
            continue
        pushed = effects_named(p, "Vec::push")
        dup = [e for e, v in p.cond if symx.contains(deep_strip(unloop(e)), lambda n_: n_[0] == "app" and flow.last(str(n_[1])) in ("contains", "any", "is_violating"))]
        if not pushed and not dup:
            return False, "a path returns without storing and without a duplicate test: %s" % p.describe()[:160]
    return True, "every returning path stores or rejects a duplicate"


def P_sender(ctx, lib, b, paths):
    rule = "C05.P-sender"
    ctx.rule(rule, "the Sender parameter is used in nogood_internal only by reference for send, is dropped on every returning path and reaches no other call; the "
                   "channel entry points move their sender only into nogood_internal; no Sender::clone / mem::forget / ManuallyDrop in these functions; in "
                   "stable_nogood_get_vec the receiver is drained (r.iter().collect()) after nogood_internal returned")
    S_LOCAL = 5
    # by-reference use only: every use of _5 in MIR is `&_5` feeding Sender::send, or the final drop
    uses = []
    for bb, blk in enumerate(b.blocks):
        items = [(s_, "stmt") for s_ in blk["stmts"]] + [(blk["term"], "term")]
        for it, kind in items:
            for role, pl in kernel.places_in(it):
                if pl["l"] == S_LOCAL:
                    uses.append((role, it, bb))
    bad = []
    n_ref = 0
    for role, it, bb in uses:
        if role == "ref":
            n_ref += 1
            use = kernel.mut_borrow_use(b, bb, it)
            if use != "send":
                bad.append("borrow feeding %s" % use)
        elif role == "drop":
            continue
        elif role in ("move", "copy", "refmut", "write"):
            if in_log(it):
                continue
            bad.append("%s at %s" % (role, b.where(it.get("loc"))))
    ctx.ob(rule, "internal.sender-only-borrowed-for-send", not bad and n_ref >= 1, where=b.where(), expected="&s used only for s.send(..)", found=bad or "%d borrows" % n_ref)
    for p in paths:
        if p.end == "return":
            drops = [e for e in p.effects if e.get("kind") == "drop" and e.get("local") == S_LOCAL]
            ctx.ob(rule, "internal.sender-dropped-on-return", len(drops) == 1, where=b.where(), expected="drop(s) before return", found=len(drops))
    # entry points
    for name, argi in (("stable_nogood_channel", 3), ("two_val_nogood_channel", 3), ("stable_nogood_get_vec", 4)):
        try:
            f = lib.one("adf::Adf::" + name)
        except LookupError as e:
            ctx.lost(rule, name, str(e))
            continue
        calls, d = flow.all_call_exprs(f)
        targets = []
        for bb, t, ci, e in calls:
            if e[0] == "call":
                for i, a in enumerate(e[3]):
                    if a == ("param", argi):
                        targets.append((flow.fname(e[1]), i))
        ctx.ob(rule, name + ".sender-moved-into-internal", targets == [("Adf::nogood_internal", 4)], where=f.where(), expected="sender passed (moved) only to nogood_internal", found=targets)
        banned = [flow.fname(e[1]) for bb, t, ci, e in calls if e[0] == "call" and (("Sender" in e[1] and flow.last(e[2]) == "clone") or flow.last(e[2]) in ("forget", "leak") or "ManuallyDrop" in e[1])]
        ctx.ob(rule, name + ".no-clone-or-forget", not banned, where=f.where(), expected="no clone/forget of the sender", found=banned)
    banned = []
    for bb, t, ci in b.calls():
        pth = ir.callee_path(ci) or ""
        if ("Sender" in pth and flow.last(pth) == "clone") or flow.last(pth) in ("forget", "leak") or "ManuallyDrop" in pth or "thread::spawn" in pth:
            banned.append(flow.fname(pth))
    ctx.ob(rule, "internal.no-clone-or-forget", not banned, where=b.where(), expected="no clone/forget/spawn", found=banned)
    # get_vec: drain after internal returned
    try:
        f = lib.one("adf::Adf::stable_nogood_get_vec")
        d = flow.Defs(f)
        ret = d.expr_local(0)
        ok = match(ret, C("collect", C("iter", P(5)))) is not None
        order = None
        for bb, t, ci in f.calls():
            pth = flow.fname(ir.callee_path(ci) or "")
            if pth == "Adf::nogood_internal":
                order = "internal-first" if order is None else order
            if flow.last(ir.callee_path(ci, False) or "") == "iter" and order is None:
                order = "iter-first"
        dom = f.dominators()
        bb_int = [bb for bb, t, ci in f.calls() if flow.fname(ir.callee_path(ci) or "") == "Adf::nogood_internal"]
        bb_it = [bb for bb, t, ci in f.calls() if "Receiver" in (ir.callee_path(ci) or "") and flow.last(ir.callee_path(ci)) == "iter"]
        okd = bool(bb_int) and bool(bb_it) and bb_int[0] in dom.get(bb_it[0], set()) and bb_int[0] != bb_it[0]
        ctx.ob(rule, "get_vec.drain-after-search", ok and okd, where=f.where(), expected="nogood_internal(.., s) dominates r.iter().collect()", found=flow.show(ret)[:120])
    except LookupError as e:
        ctx.lost(rule, "stable_nogood_get_vec", str(e))
    try:
        f = lib.one("adf::Adf::stable_nogood")
        d = flow.Defs(f)
        ret = d.expr_local(0)
        e = match(ret, C("into_iter", C("Adf::stable_nogood_get_vec", P(1), C("Adf::grounded", P(1)), ANY, V("s"), V("r"))))
        ok = e is not None and e["s"][0] == "field" and e["r"][0] == "field" and e["s"][1] == e["r"][1] and e["s"][2] == "0" and e["r"][2] == "1" \
            and e["s"][1][0] == "call" and flow.last(e["s"][1][2]) == "unbounded"
        ctx.ob(rule, "stable_nogood.channel-pair", ok, where=f.where(), expected="(s, r) = unbounded(); get_vec(&grounded, heu, s, r).into_iter()", found=flow.show(ret)[:240])
    except LookupError as e:
        ctx.lost(rule, "stable_nogood", str(e))


def in_log(it):
    return symx.in_log(it.get("exp"))


def modes(ctx, lib):
    rule = "C05.A-modes"
    ctx.rule(rule, "stable_nogood_channel / stable_nogood_get_vec pass Self::stability_check as the acceptance test, two_val_nogood_channel a constantly-true closure; "
                   "all start from self.grounded() resp. the given interpretation and use heuristic.get_heuristic()")
    for name in ("stable_nogood_channel", "two_val_nogood_channel"):
        try:
            f = lib.one("adf::Adf::" + name)
        except LookupError as e:
            ctx.lost(rule, name, str(e))
            continue
        calls, d = flow.all_call_exprs(f)
        es = [e for bb, t, ci, e in calls if e[0] == "call" and flow.fname(e[1]) == "Adf::nogood_internal"]
        if len(es) != 1:
            ctx.cannot(rule, name, "one nogood_internal call", f.where(), len(es))
            continue
        e = es[0]
        ok_start = match(e[3][1], C("Adf::grounded", P(1))) is not None
        ok_heu = match(e[3][2], C("Heuristic::get_heuristic", P(2))) is not None
        test = e[3][3]
        if name == "stable_nogood_channel":
            ok_test = test[0] == "fnitem" and flow.sg(test[1]).endswith("Adf::stability_check")
        else:
            ok_test = False
            if test[0] == "closure":
                cb = lib.body(test[1])
                eng = ctx.engine([lib])
                rets = set(p.ret for p in eng.summarise(cb) if p.end == "return")
                ok_test = rets == {symx.vbool(True)}
        ctx.ob(rule, name, ok_start and ok_heu and ok_test, where=f.where(), expected="nogood_internal(&self.grounded(), heuristic.get_heuristic(), <acceptance test>, sender)", found=flow.show(e)[:260])
    try:
        f = lib.one("adf::Adf::stable_nogood_get_vec")
        calls, d = flow.all_call_exprs(f)
        es = [e for bb, t, ci, e in calls if e[0] == "call" and flow.fname(e[1]) == "Adf::nogood_internal"]
        ok = len(es) == 1 and es[0][3][1] == ("param", 2) and es[0][3][2] == ("param", 3) and es[0][3][3][0] == "fnitem" and flow.sg(es[0][3][3][1]).endswith("Adf::stability_check")
        ctx.ob(rule, "stable_nogood_get_vec", ok, where=f.where(), expected="nogood_internal(interpretation, heuristic, Self::stability_check, s)", found=flow.show(es[0])[:240] if es else None)
    except LookupError as e:
        ctx.lost(rule, "stable_nogood_get_vec", str(e))


def F_updflag(ctx, lib):
    rule = "C05.F-updflag"
    ctx.rule(rule, "update_interpretation_fixpoint_upd: *update is false when nothing changed (written false before the loop) and true on the path on which the propagation step "
                   "differs from the current interpretation; the comparison is between the step result and the loop-carried current interpretation, which is what is returned "
                   "(the search loop sends a model only in a round without update: a flag that stays false lets unpropagated interpretations through)")
    try:
        b = lib.one("adf::Adf::update_interpretation_fixpoint_upd")
    except LookupError as e:
        ctx.lost(rule, "update_interpretation_fixpoint_upd", str(e))
        return
    eng = ctx.engine([lib], no_inline={"adf_bdd::adf::Adf::update_interpretation", "adf_bdd::adf::Adf::apply_interpretation"})

    def is_step(n_):
        # one propagation step: update_interpretation(x), or the same thing spelt out, apply_interpretation(x, x)
        if is_call(n_, "Adf::update_interpretation"):
            return True
        return is_call(n_, "Adf::apply_interpretation") and len(n_[2]) == 3 and deep_strip(n_[2][1]) == deep_strip(n_[2][2])
    st = symx.State()
    UPD = st.new_cell(("sym", "upd0"))
    paths = eng.summarise(b, [shared.ref_to(st, ("sym", "adf")), shared.ref_to(st, ("sym", "interp")), ("ref", UPD, ())], st)
    kinds = set()
    for p in paths:
        eqs = [(deep_strip(e), v) for e, v in p.cond if deep_strip(e)[0] == "app" and deep_strip(e)[1] in ("Eq", "Ne")]
        step_cmp = [(e, v) for e, v in eqs if symx.contains(e, is_step) and symx.contains(e, lambda n_: n_[0] == "loopvar")]
        if len(step_cmp) != 1:
            ctx.cannot(rule, "step-comparison", "one comparison of the step result with the current interpretation per round", b.where(), p.describe()[:200])
            continue
        e, v = step_cmp[0]
        same = (int_of(v) == 1) == (e[1] == "Eq")
        flag = p.state.cells.get(UPD)
        if same:
            kinds.add("unchanged")
            ok = p.end == "return" and flag == symx.vbool(False) and deep_strip(p.ret)[0] == "loopvar"
            ctx.ob(rule, "unchanged: flag false, current returned", ok, where=b.where(), expected="*update = false before the loop; return cur_int", found="flag %s, %s" % (symx.show(flag), p.describe()[:160]))
        else:
            kinds.add("changed")
            ok = p.end == "backedge" and flag == symx.vbool(True)
            ctx.ob(rule, "changed: flag true", ok, where=b.where(), expected="*update = true and another round", found="flag %s, %s" % (symx.show(flag), p.describe()[:160]))
    ctx.ob(rule, "cases", kinds == {"unchanged", "changed"}, where=b.where(), expected="changed / unchanged paths", found=sorted(kinds))


def T_acconflict(ctx, lib, b, paths):
    rule = "C05.T-acconflict"
    ctx.rule(rule, "nogood_internal backtracks when the current interpretation contradicts what the acceptance conditions evaluate to under it: the test is `any` over "
                   "zip(cur_interpr, apply_interpretation(self.ac, cur_interpr)) of the table conflict(cur, ac) <=> both are truth values and differ; on the conflict path "
                   "backtracking is requested and nothing is sent")
    roles, _ = flow.closure_roles(b)
    n = 0
    for c in lib.closures_of(b):
        r = roles.get(c.path)
        if r is None or r.adaptor not in ("any", "all"):
            continue
        src, steps = r.receiver_chain()
        names = [s_[0] for s_ in steps]
        if "zip" not in names:
            continue
        n += 1
        ctx.ob(rule, "adaptor", r.adaptor == "any", where=c.where(), expected="any", found=r.adaptor)
        # operands of the zip: cur_interpr and apply_interpretation(.., cur_interpr)
        zc = [s_ for s_ in steps if s_[0] == "zip"][0]
        other = zc[1][0] if zc[1] else None
        ok_ops = other is not None and bool(flow.find(other, lambda n_: n_[0] == "call" and flow.fname(n_[1]) == "Adf::apply_interpretation"))
        ctx.ob(rule, "operands", ok_ops, where=c.where(), expected="cur_interpr.iter().zip(apply_interpretation(&self.ac, &cur_interpr).iter())", found=flow.show(other)[:160] if other else None)
        if ok_ops:
            # which is which: the conditions that are evaluated are self.ac, the interpretation they are evaluated under is the vector on the other side of the zip.
            # With the two swapped the call returns (about) the interpretation itself, no conflict is ever seen, and in two-valued mode a two-valued
            # interpretation that contradicts its conditions is delivered as a model (third sweep).
            from mirlib.pat import skip_copies
            ap = flow.find(other, lambda n_: n_[0] == "call" and flow.fname(n_[1]) == "Adf::apply_interpretation")[0]
            a_ac = skip_copies(ap[3][1]) if len(ap[3]) > 2 else None
            a_int = skip_copies(ap[3][2]) if len(ap[3]) > 2 else None
            ok_args = a_ac == ("field", ("param", 1), "ac") and a_int == skip_copies(src)
            ctx.ob(rule, "operands.argument-roles", ok_args, where=c.where(), expected="apply_interpretation(ac = self.ac, interpretation = the zipped vector)",
                   found=flow.show(ap)[:200])
        eng = ctx.engine([lib])
        for cur in shared.CLASSES:
            for ac in shared.CLASSES:
                st = symx.State()
                env = eng.closure_env(st, c, [])
                item = ("tuple", (shared.ref_to(st, shared.term(cur)), shared.ref_to(st, shared.term(ac))))
                got = set(p_.ret if p_.end == "return" else ("end", p_.end) for p_ in eng.summarise(c, [env, item], st))
                want = cur in ("B", "T") and ac in ("B", "T") and cur != ac
                ctx.ob(rule, "conflict[cur=%s,ac=%s]" % (cur, ac), got == {symx.vbool(want)}, where=c.where(), expected=want, found=sorted(symx.show(x) for x in got))
    ctx.floor(rule, "acceptance-condition conflict tests", n, 1)
    # the conflict path requests backtracking and sends nothing
    k = 0
    for p in paths:
        anyc = [(deep_strip(unloop(e)), v) for e, v in p.cond if deep_strip(unloop(e))[0] == "app" and flow.last(str(deep_strip(unloop(e))[1])) == "any"
                and symx.contains(deep_strip(unloop(e)), lambda n_: n_[0] == "app" and flow.last(str(n_[1])) == "zip")]
        if not anyc or int_of(anyc[0][1]) != 1:
            continue
        k += 1
        sends = [e for e in p.effects if e.get("kind") == "call" and flow.fname(e["resolved"]) == "Sender::send"]
        bt = named_backtrack(b, p, paths)
        ctx.ob(rule, "conflict-path-backtracks", bt == symx.vbool(True) and not sends and p.end == "backedge", where=b.where(), expected="backtrack = true; continue", found=p.describe()[:200])
    ctx.floor(rule, "conflict paths", k, 1)


def check(ctx):
    for cfg in configs(ctx.tier):
        ctx.cfg = cfg.name
        lib = ctx.load(cfg)
        n = shared.S_T_term(ctx, lib, which={"is_truth_value", "is_true", "compare_inf", "from_bool"})
        ctx.floor("S.T-term", "functions", n, 4)
        F_heu(ctx, lib)
        r = P_emit(ctx, lib)
        if r:
            b, paths = r
            P_lockstep(ctx, lib, b, paths)
            P_sender(ctx, lib, b, paths)
            T_acconflict(ctx, lib, b, paths)
        F_updflag(ctx, lib)
        modes(ctx, lib)
        rule = "S.X-exhaust"
        ctx.rule(rule, "the result channel of stable_nogood_get_vec is drained by an exhaustive consumer")
        nx = semantics.X_exhaust(ctx, lib, rule, (), receivers=True, only_fns={"Adf::stable_nogood_get_vec"})
        ctx.floor(rule, "result-channel chains", nx, 1)
        rule = "S.F-reduct"
        ctx.rule(rule, "restriction idioms the loop relies on: apply_interpretation FULL, stability_check REDUCT, grounded_internal FULL")
        k, seen = semantics.F_restrict_native(ctx, lib, rule, only={"Adf::stability_check", "Adf::apply_interpretation", "Adf::grounded_internal"})
        ctx.floor(rule, "native restriction sites", k, 3)
        deps.semantics_base(ctx, lib)
        deps.nogood_primitives(ctx, lib)
        deps.stability_check(ctx, lib)   # the acceptance test of the stable mode
    deps.cli_plumbing(ctx)
    if ctx.tier == "thorough":
        from rules import witness
        witness.check(ctx, ['W10', 'W11'])   # informational: what external crates cannot reach (scope of the who-may-write census)
