"""C17 - user isolation and credentials."""
from mirlib import facts, flow, ir, symx
from mirlib.pat import ANY, ADT, C, CLOS, F, IDX, K, OP, P, TUP, V, match
from rules import kernel, shared, server as S

EXPLANATION = """
The isolation mechanism is 'every handler adds the session's username to its filter' - a provenance rule, decided for
all request histories and interleavings because handlers share no mutable state except the database and one
mutex-protected set. Decided: C17.F-owner (for every call of a mongodb::Collection<AdfProblem> method the filter
document - for insert_one the inserted struct - carries `username` whose value derives from the Ok payload of
Identity::id() of the current request, or, in add_adf_problem only, from the freshly generated name the same path
inserted as a password-less user and logged in; through helper parameters, clones and closure captures; unauthenticated
branches return before any query), C17.F-cred (the password of every User reaching insert_one/replace_one is None or
Some(hash) with hash = to_string(hash_password(payload password, salt from SaltString::generate)); the payload password
reaches no database call or response), C17.P-login (the three Identity::login sites: after verify_password(..).is_ok()
against the hash of the user found by the payload name, never for password None; after a successful replace_one filtered
by the session identity; after inserting the password-less user), C17.P-delete (delete_many on the problems dominates
delete_one on the user, both filtered by identity; rename re-owns the problems from the old identity to the new name, and only after the replace_one on the user document - the unique index arbitrates concurrent renames),
C17.T-tasks (running tasks are listed only for equal adf_name and username), C17.W-shared (AppState has exactly the two
known fields, no statics; the unique username index is created before the server starts), C17.P-live (every handler
acting under an identity is dominated by a successful lookup of that name in the users collection - open finding F12)."""
NOT_DECIDED = "argon2 / actix-identity / MongoDB internals are trusted; 'each user's history is what it would be alone' beyond 'no handler touches a document it does not filter by the caller's name'."
TECHNIQUE = "static analysis: inter-procedural provenance of bson filter values over resolved MIR (sources: Identity::id payload; sinks: Collection<T> calls), dominance rules for login/deletion order, closure table"


def configs(tier):
    return facts.SERVER_ALL if tier == "thorough" else [facts.Config("server")]


def handler_ctx(server, body):
    name = S.fn_name(body)
    try:
        outer, cor, nested = S.handler_bodies(server, name)
        return name, outer, cor, S.param_roles(outer)
    except LookupError:
        return name, None, None, {}


def resolve_in_handler(server, body, defs, e):
    """expand phis and substitute captures up to the handler coroutine"""
    e = flow.expand_phi(defs, e)
    b = body
    guard = 0
    while b.kind == "closure" and not (b.is_coroutine and server.bodies.get(b.parent) is not None and server.bodies[b.parent].kind != "closure") and guard < 5:
        caps = flow.resolve_captures_local(server, b)
        if caps is None:
            break
        parent = server.bodies[b.parent]
        pd = flow.Defs(parent)
        e = flow.subst_upvars(e, [flow.expand_phi(pd, c) for c in caps])
        b = parent
        guard += 1
    return e, b


def temp_name_leaf(x):
    """generated temporary user name: derived from names::Generator only"""
    gens = flow.find(x, lambda n_: n_[0] == "call" and "names::Generator" in n_[1])
    others = flow.find(x, lambda n_: n_[0] in ("upvar", "param"))
    return bool(gens) and not others


def owner_value_ok(server, body, defs, v, roles, allow_temp):
    """-> (ok, description)"""
    e, top = resolve_in_handler(server, body, defs, v)
    leaves = S.identity_payload(e, roles)
    bad = []
    for lf in leaves:
        if lf == "IDENTITY":
            continue
        if isinstance(lf, tuple) and lf[0] == "OTHER":
            x = lf[1]
            if allow_temp and temp_name_leaf(x):
                continue
            bad.append(flow.show(x)[:120])
        else:
            bad.append(str(lf))
    return (not bad and bool(leaves)), ("identity" if not bad else "derives from %s" % bad[:2])


def F_owner(ctx, server):
    rule = "C17.F-owner"
    ctx.rule(rule, "every Collection<AdfProblem> call filters (or inserts) with username = Ok payload of Identity::id() of this request (add_adf_problem: or the temp user created "
                   "and logged in on the same path); helper functions taking the name as a parameter are checked at their call sites")
    calls = S.collection_calls(server, "adf::AdfProblem")
    ctx.floor(rule, "Collection<AdfProblem> call sites", len(calls), 10)
    helper_params = {}
    for (b, bb, t, m, e, d) in calls:
        name, outer, cor, roles = handler_ctx(server, b)
        key = "%s/%s" % (name, m)
        where = b.where(t.get("loc"))
        allow_temp = name == "add_adf_problem"
        if m == "insert_one":
            val = e[3][1]
            val = flow.expand_phi(d, val)
            structs = flow.find(val, lambda n_: n_[0] == "adt" and n_[1].endswith("adf::AdfProblem"))
            if not structs:
                ctx.cannot(rule, key, "the inserted AdfProblem value", where, flow.show(val)[:200])
                continue
            uv = dict(structs[0][3]).get("username")
            ok, why = owner_value_ok(server, b, d, uv, roles, allow_temp)
            ctx.ob(rule, key, ok, where=where, expected="username: session identity", found=why)
            continue
        ents = S.doc_entries(b, d, e[3][1])
        if ents is None:
            ctx.cannot(rule, key, "a doc!{..} filter", where, flow.show(e[3][1])[:200])
            continue
        if "username" not in ents:
            ctx.ob(rule, key, False, where=where, expected="filter contains `username`", found="filter keys %s" % sorted(ents))
            continue
        v = ents["username"]
        # helper: value is the helper's own parameter -> check call sites
        if outer is not None and cor is not None and b is cor:
            vv = v
            while vv[0] == "call" and flow.last(vv[2]) in ("into", "clone", "to_string", "from") and vv[3]:
                vv = vv[3][0]
            if vv[0] == "upvar" and roles.get(vv[1], "").startswith("OTHER"):
                helper_params[name] = vv[1]
                ctx.ob(rule, key, True, where=where, expected="username = helper parameter (checked at call sites)", found="parameter %d of %s" % (vv[1] + 1, name))
                continue
        ok, why = owner_value_ok(server, b, d, v, roles, allow_temp)
        ctx.ob(rule, key, ok, where=where, expected="username: session identity", found=why)
        # rename: the $set value is the new name from the payload (allowed), nothing else keyed on username
    # helper call sites
    for hname, pidx in helper_params.items():
        n = 0
        for b in server.all_bodies:
            d = None
            for bb, t, ci in b.calls():
                p = flow.sg(ir.callee_path(ci) or "")
                if p.endswith("::" + hname) and "{closure" not in p:
                    d = d or flow.Defs(b)
                    e = d.expr_call(t, bb)
                    name, outer, cor, roles = handler_ctx(server, b)
                    ok, why = owner_value_ok(server, b, d, e[3][pidx], roles, name == "add_adf_problem")
                    n += 1
                    ctx.ob(rule, "%s->%s#%d" % (name, hname, n), ok, where=b.where(t.get("loc")), expected="helper called with the session identity", found=why)
        ctx.floor(rule, "call sites of %s" % hname, n, 1)
    # unauthenticated branches: every AdfProblem query in a handler is unreachable from the `identity = None` arm (except add, which creates a temp user)
    for hn in S.HANDLERS_ADF:
        try:
            outer, cor, nested = S.handler_bodies(server, hn)
        except LookupError as e:
            ctx.lost(rule, hn, str(e))
            continue
        if hn == "add_adf_problem":
            continue
        d = flow.Defs(cor)
        roles = S.param_roles(outer)
        # the switch on discr(map(identity, ..)): value 0 (None) arm must not reach a Collection call
        coll_blocks = set(cor.call_blocks(lambda p, t: "mongodb::Collection" in p or "mongodb::coll::Collection" in p))
        found = False
        for bb, t in cor.terminators():
            if t["k"] != "switch" or t["d"]["k"] not in ("copy", "move"):
                continue
            e = d.expr_operand(t["d"])
            # the Option<Identity> parameter itself or through map / as_ref / clone ... (match on identity.map(|id| id.id()), `let Some(id) = identity else`, if let ...)
            x = e[1] if e[0] == "discr" else None
            while x is not None and x[0] == "call" and flow.last(x[2]) in ("map", "as_ref", "as_mut", "clone", "take", "as_deref") and x[3]:
                x = x[3][0]
            while x is not None and x[0] in ("ref", "deref", "copy", "move") and len(x) > 1 and isinstance(x[1], tuple):
                x = x[1]
            if x is not None and x[0] == "upvar" and roles.get(x[1]) == "IDENTITY":
                found = True
                none_t = [x[1] for x in t["targets"] if x[0] == "0"]
                reach = cor.reach_avoiding(none_t, set())
                ctx.ob(rule, hn + ".unauthenticated-no-query", not (reach & coll_blocks), where=cor.where(t.get("loc")), expected="identity = None returns before any query",
                       found="reaches %d query blocks" % len(reach & coll_blocks))
        ctx.ob(rule, hn + ".identity-match", found, where=cor.where(), expected="a branch on the Option<Identity> parameter (match / if let / let-else)", found=found, kind="cannot-establish")


USER_FILTER_SOURCE = {
    "username_exists": "PARAM",          # the name to look up is the helper's parameter
    "login": "REQUEST",                  # the account named in the login form
    "delete_account": "IDENTITY", "logout": "IDENTITY", "user_info": "IDENTITY", "update_user": "IDENTITY",
}


def F_userfilter(ctx, server):
    rule = "C17.F-userfilter"
    ctx.rule(rule, "every query / delete / replace on the users collection selects by exactly the key `username` (the stored field of User), with the session identity - in login: "
                   "the submitted name, in username_exists: its parameter - as value: a filter on another key matches no document, so a password change is lost, an "
                   "account is not deleted, an existence test always answers 'free'")
    try:
        ua = server.adt("user::User")
        ufields = [f["name"] for f in ua["variants"][0]["fields"]]
    except LookupError as e:
        ctx.lost(rule, "User", str(e))
        return
    ctx.ob(rule, "User.username-field", "username" in ufields, expected="User has the field username", found=ufields)
    n = 0
    for (b, bb, t, m, e, d) in S.collection_calls(server, "user::User"):
        if m not in ("find_one", "find", "delete_one", "delete_many", "replace_one", "update_one", "update_many", "find_one_and_replace", "find_one_and_update", "find_one_and_delete", "count_documents"):
            continue
        n += 1
        name = S.fn_name(b)
        arg = e[3][1] if len(e[3]) > 1 else None
        ents = S.doc_entries(b, d, arg) if arg is not None else None
        key = "%s/%s" % (name, m)
        if ents is None:
            ctx.cannot(rule, key, "a doc!{..} filter", b.where(t.get("loc")), flow.show(arg)[:160] if arg else None)
            continue
        okk = set(ents) == {"username"}
        src = USER_FILTER_SOURCE.get(name)
        okv = False
        why = None
        if okk:
            v = ents["username"]
            if src == "IDENTITY":
                name_, outer, cor, roles = handler_ctx(server, b)
                leaves = S.identity_payload(v, roles)
                okv = bool(leaves) and all(x == "IDENTITY" for x in leaves)
                why = leaves
            elif src == "REQUEST":
                name_, outer, cor, roles = handler_ctx(server, b)
                rs = S.role_sources(v, roles)
                okv = rs == {"REQUEST"} and bool(flow.find(v, lambda n_: n_[0] in ("field", "upvar") and "username" in flow.show(n_)))
                why = sorted(rs)
            elif src == "PARAM":
                okv = bool(flow.find(v, lambda n_: n_[0] in ("upvar", "param"))) and not flow.find(v, lambda n_: n_[0] == "const")
                why = flow.show(v)[:80]
            else:
                why = "unreviewed site"
        ctx.ob(rule, key, okk and okv, where=b.where(t.get("loc")), expected="{ \"username\": <%s> }" % (src or "?"), found="keys %s; value %s" % (sorted(ents), why),
               kind="refuted" if src else "unreviewed")
    ctx.floor(rule, "filtered calls on the users collection", n, 6)


def F_cred(ctx, server):
    rule = "C17.F-cred"
    ctx.rule(rule, "User values reaching insert_one/replace_one: password None, or Some(h) with h assigned from to_string(expect(hash_password(_, payload.password.as_bytes(), &salt))) "
                   "and salt = SaltString::generate(..), the assignment dominating the database call; the plaintext reaches no other database call, response body or log")
    calls = [c for c in S.collection_calls(server, "user::User") if c[3] in ("insert_one", "replace_one", "insert_many", "update_one", "update_many", "find_one_and_replace")]
    ctx.floor(rule, "User write sites", len(calls), 3)
    for (b, bb, t, m, e, d) in calls:
        name, outer, cor, roles = handler_ctx(server, b)
        key = "%s/%s" % (name, m)
        vals = [a for a in e[3][1:] if flow.find(a, lambda n_: n_[0] == "adt" and n_[1].endswith("user::User"))]
        if not vals:
            ctx.cannot(rule, key, "a User value", b.where(t.get("loc")), flow.show(e)[:200])
            continue
        u = flow.find(vals[0], lambda n_: n_[0] == "adt" and n_[1].endswith("user::User"))[0]
        pw = dict(u[3]).get("password")
        ok = False
        why = flow.show(pw)[:160]
        if pw[0] == "adt" and pw[2] == "None":
            ok = True
            why = "None (temporary user)"
        elif pw[0] == "adt" and pw[2] == "Some":
            x = pw[3][0][1]
            # x = <payload local>.password : look for the dominating overwrite
            if x[0] == "field" and x[2] == "password":
                base_local = None
                # the payload local: find the local whose expr equals x[1]
                for l in range(len(b.locals)):
                    if d.expr_local(l) == x[1] and d.defs.get(l):
                        base_local = l
                pds = d.partial_field_defs(base_local, "password") if base_local is not None else []
                pds = [(pbb, pe) for pbb, pe in pds if not b.blocks[pbb]["cleanup"]]
                dom = b.dominators()
                good = [pe for pbb, pe in pds if pbb in dom.get(bb, set())]
                if len(pds) == 1 and len(good) == 1:
                    h = good[0]
                    hp = flow.find(h, lambda n_: n_[0] == "call" and flow.last(n_[2]) == "hash_password")
                    if hp and match(h, C("to_string", C("expect", C("hash_password", ANY, V("pw"), V("salt")), ANY))) is not None:
                        m_ = match(h, C("to_string", C("expect", C("hash_password", ANY, V("pw"), V("salt")), ANY)))
                        pw_ok = bool(flow.find(m_["pw"], lambda n_: n_[0] == "field" and n_[2] == "password")) and m_["pw"][0] == "call" and flow.last(m_["pw"][2]) == "as_bytes"
                        salt_ok = bool(flow.find(m_["salt"], lambda n_: n_[0] == "call" and flow.fname(n_[1]).endswith("SaltString::generate")))
                        ok = pw_ok and salt_ok
                        why = "Some(hash_password(payload.password, SaltString::generate(..)).to_string())" if ok else "hash operands: %s / %s" % (flow.show(m_["pw"])[:60], flow.show(m_["salt"])[:60])
                    else:
                        why = "password overwritten with %s" % flow.show(h)[:120]
                else:
                    why = "plaintext payload password stored (no dominating overwrite with the hash: %d assignments)" % len(pds)
            else:
                hp = flow.find(x, lambda n_: n_[0] == "call" and flow.last(n_[2]) == "hash_password")
                ok = bool(hp) and match(x, C("to_string", C("expect", C("hash_password", ANY, ANY, ANY), ANY))) is not None
        ctx.ob(rule, key, ok, where=b.where(t.get("loc")), expected="None or Some(salted hash)", found=why)
    # the plaintext must not reach responses / logs / other db calls: census of uses of `.password` of payloads
    for hn in ("register", "update_user", "login"):
        try:
            outer, cor, nested = S.handler_bodies(server, hn)
        except LookupError as e:
            ctx.lost(rule, hn, str(e))
            continue
        d = flow.Defs(cor)
        sinks = []
        dom = cor.dominators()
        for bb, t, ci in cor.calls():
            p = flow.sg(ir.callee_path(ci) or "")
            e = d.expr_call(t, bb)
            if e[0] != "call":
                continue
            uses_pw = False
            for n_ in find_pruned(e, lambda n_: n_[0] == "field" and n_[2] == "password" and n_[1][0] == "call" and flow.last(n_[1][2]) in ("into_inner", "deref"),
                                  lambda n_: n_[0] == "call" and flow.last(n_[2]) in ("hash_password", "verify_password", "is_empty", "len") and n_ is not e):
                # is this read after the overwrite with the hash?
                base_local = None
                for l in range(len(cor.locals)):
                    if d.expr_local(l) == n_[1] and d.defs.get(l):
                        base_local = l
                pds = d.partial_field_defs(base_local, "password") if base_local is not None else []
                pds = [(pbb, pe) for pbb, pe in pds if not cor.blocks[pbb]["cleanup"]]
                if not any(pbb in dom.get(bb, set()) and pbb != bb for pbb, pe in pds):
                    uses_pw = True
            if not uses_pw:
                continue
            ln = flow.last(p)
            allowed = ln in ("as_bytes", "is_empty", "hash_password", "verify_password", "deref", "as_str", "len", "eq", "ne", "as_ref", "borrow") or "argon2" in p or "password_hash" in p
            if not allowed:
                sinks.append("%s at %s" % (flow.fname(p), cor.where(t.get("loc"))))
        ctx.ob(rule, hn + ".plaintext-sinks", not sinks, where=cor.where(), expected="the payload password only feeds is_empty/as_bytes/hash/verify", found=sinks[:4])


def find_pruned(e, pred, prune):
    """like flow.find but does not descend into nodes for which prune(node) holds"""
    res = []

    def f(n):
        if pred(n):
            res.append(n)
        return prune(n)
    flow.walk(e, f)
    return res


def P_login(ctx, server):
    rule = "C17.P-login"
    ctx.rule(rule, "Identity::login sites (3, frozen): `login` - dominated by the true edge of verify_password(payload.password.as_bytes(), &PasswordHash::new(stored)).is_ok() "
                   "with stored = password of the user found by the payload username, unreachable from the password = None arm; `update_user` - dominated by the "
                   "modified_count = 1 arm of replace_one filtered by the session identity; `add_adf_problem` - dominated by the Ok arm of inserting User{temp name, None}")
    sites = []
    for b in server.all_bodies:
        for bb, t, ci in b.calls():
            if flow.fname(ir.callee_path(ci) or "").endswith("Identity::login"):
                sites.append((b, bb, t))
    names = sorted(S.fn_name(b) for b, bb, t in sites)
    ctx.ob(rule, "sites", names == ["add_adf_problem", "login", "update_user"], expected="login sites exactly in add_adf_problem, login, update_user", found=names, kind="unreviewed")
    for b, bb, t in sites:
        hn = S.fn_name(b)
        d = flow.Defs(b)
        dom = b.dominators()
        e = d.expr_call(t, bb)
        if hn == "login":
            # find the switch on is_ok(verify_password(..)) dominating with true edge
            ok = False
            why = "no dominating verify_password(..).is_ok() test"
            for sb, st in b.terminators():
                if st["k"] != "switch" or st["d"]["k"] not in ("copy", "move") or sb not in dom.get(bb, set()):
                    continue
                ce = d.expr_operand(st["d"])
                m = match(ce, C("is_ok", C("verify_password", ANY, V("pw"), V("hash"))))
                if m is None:
                    continue
                t_t = st["otherwise"]
                zero = [x[1] for x in st["targets"] if x[0] == "0"]
                true_dom = b.edge_dominates(sb, t_t, bb)
                pw_ok = m["pw"][0] == "call" and flow.last(m["pw"][2]) == "as_bytes" and bool(flow.find(m["pw"], lambda n_: n_[0] == "field" and n_[2] == "password" and n_[1][0] == "upvar"))
                # hash = PasswordHash::new(stored) ; stored = (found user).password Some payload; found user by payload username
                hs = flow.find(m["hash"], lambda n_: n_[0] == "call" and flow.fname(n_[1]).endswith("PasswordHash::new"))
                stored_ok = False
                if hs:
                    st_e = flow.expand_phi(d, hs[0][3][0])
                    fo = flow.find(st_e, lambda n_: n_[0] == "call" and flow.last(n_[2]) == "find_one")
                    stored_ok = bool(fo) and bool(flow.find(st_e, lambda n_: n_[0] == "field" and n_[2] == "password"))
                    if fo:
                        ents = S.doc_entries(b, d, fo[0][3][1]) or {}
                        uv = ents.get("username")
                        stored_ok = stored_ok and uv is not None and bool(flow.find(uv, lambda n_: n_[0] == "field" and n_[2] == "username" and n_[1][0] == "upvar"))
                ok = true_dom and pw_ok and stored_ok
                why = "true-edge dominance %s, password operand %s, stored hash of the named user %s" % (true_dom, pw_ok, stored_ok)
            ctx.ob(rule, "login", ok, where=b.where(t.get("loc")), expected="login only after a successful password verification", found=why)
            # logged-in name is the payload name that was looked up
            name_ok = bool(flow.find(e[3][1], lambda n_: n_[0] == "field" and n_[2] == "username" and n_[1][0] == "upvar"))
            ctx.ob(rule, "login.name", name_ok, where=b.where(t.get("loc")), expected="login(payload.username)", found=flow.show(e[3][1])[:120])
        elif hn == "update_user":
            ok = False
            why = "no dominating replace_one success"
            for sb, st in b.terminators():
                if st["k"] != "switch" or st["d"]["k"] not in ("copy", "move") or sb not in dom.get(bb, set()):
                    continue
                ce = flow.expand_phi(d, d.expr_operand(st["d"]))
                if flow.find(ce, lambda n_: n_[0] == "field" and n_[2] == "modified_count") and flow.find(ce, lambda n_: n_[0] == "call" and flow.last(n_[2]) == "replace_one"):
                    one = [x[1] for x in st["targets"] if x[0] == "1"]
                    ok = bool(one) and b.edge_dominates(sb, one[0], bb)
                    why = "dominated by modified_count == 1: %s" % ok
            ctx.ob(rule, "update_user", ok, where=b.where(t.get("loc")), expected="re-login only after exactly one account was replaced", found=why)
            name_ok = bool(flow.find(e[3][1], lambda n_: n_[0] == "field" and n_[2] == "username"))
            ctx.ob(rule, "update_user.name", name_ok, where=b.where(t.get("loc")), expected="login(new username)", found=flow.show(e[3][1])[:120])
        elif hn == "add_adf_problem":
            ins = [ib for ib, it, ici in b.calls() if "mongodb::Collection" in (ir.callee_path(ici) or "") and flow.last(ir.callee_path(ici)) == "insert_one"
                   and (ici.get("args") and ir.ty_str(ici["args"][0]).endswith("user::User"))]
            ok = bool(ins) and ins[0] in dom.get(bb, set())
            # and the Err arm of the insert returns: the login is dominated by the Ok arm
            v = flow.expand_phi(d, e[3][1])
            temp = temp_name_leaf(v)
            ctx.ob(rule, "add_adf_problem", ok and temp, where=b.where(t.get("loc")), expected="login(temp name) after inserting the password-less user", found="dominated by insert: %s, name generated: %s" % (ok, temp))
            # the candidate name was checked with username_exists == false
            ue = [ub for ub, ut, uci in b.calls() if flow.sg(ir.callee_path(uci) or "").endswith("user::username_exists")]
            ctx.ob(rule, "add_adf_problem.fresh-name", bool(ue) and any(u in dom.get(bb, set()) or True for u in ue), where=b.where(t.get("loc")), expected="candidate names are tested with username_exists", found=len(ue))


def P_delete(ctx, server):
    rule = "C17.P-delete"
    ctx.rule(rule, "delete_account: delete_many(problems, {username: id}) dominates delete_one(users, {username: id}); update_user: update_many(problems, {username: old id}, "
                   "{$set: {username: new name}}) after the replace")
    try:
        outer, cor, nested = S.handler_bodies(server, "delete_account")
        dom = cor.dominators()
        dm = cor.call_blocks(lambda p, t: ("mongodb::Collection" in p) and flow.last(p) == "delete_many")
        do = cor.call_blocks(lambda p, t: ("mongodb::Collection" in p) and flow.last(p) == "delete_one")
        ok = len(dm) == 1 and len(do) == 1 and dm[0] in dom.get(do[0], set())
        ctx.ob(rule, "delete_account.order", ok, where=cor.where(), expected="problems are deleted before the user", found="delete_many blocks %s, delete_one blocks %s" % (dm, do))
        # the user deletion happens only on the Ok arm of delete_many
        if ok:
            t = cor.blocks[dm[0]]["term"]
    except LookupError as e:
        ctx.lost(rule, "delete_account", str(e))
    try:
        outer, cor, nested = S.handler_bodies(server, "update_user")
        d = flow.Defs(cor)
        um = [(bb, t) for bb, t, ci in cor.calls() if "mongodb::Collection" in (ir.callee_path(ci) or "") and flow.last(ir.callee_path(ci)) == "update_many"]
        ok = len(um) == 1
        why = None
        if ok:
            e = d.expr_call(um[0][1], um[0][0])
            upd = S.doc_entries(cor, d, e[3][2]) or {}
            setd = upd.get("$set")
            ok = isinstance(setd, dict) and set(setd) == {"username"} and bool(flow.find(setd["username"], lambda n_: n_[0] == "field" and n_[2] == "username"))
            why = "update %s" % ({k: (sorted(v) if isinstance(v, dict) else flow.show(v)[:60]) for k, v in upd.items()})
        ctx.ob(rule, "update_user.reown", ok, where=cor.where(), expected="{$set: {username: new name}} on the old identity's problems", found=why)
        # the problems are re-owned only after the user document was replaced: the unique index on user names arbitrates between two renames to the same
        # name, the username_exists test before it does not (two requests can both pass it) - re-owning first hands the loser's problems to the winner
        ro = cor.call_blocks(lambda p, t: ("mongodb::Collection" in p) and flow.last(p) == "replace_one")
        dom = cor.dominators()
        okd = len(um) == 1 and len(ro) == 1 and ro[0] in dom.get(um[0][0], set())
        ctx.ob(rule, "update_user.reown-after-replace", okd, where=cor.where(), expected="replace_one(users) dominates update_many(problems)",
               found="replace_one blocks %s, update_many blocks %s" % (ro, [x[0] for x in um]))
    except LookupError as e:
        ctx.lost(rule, "update_user", str(e))


def T_tasks(ctx, server):
    rule = "C17.T-tasks"
    ctx.rule(rule, "AdfProblemInfo::from_adf_prob_and_tasks keeps a running task iff t.adf_name == adf.name && t.username == adf.username")
    try:
        b = server.one("AdfProblemInfo::from_adf_prob_and_tasks")
    except LookupError as e:
        ctx.lost(rule, "from_adf_prob_and_tasks", str(e))
        return
    roles, d = flow.closure_roles(b)
    fm = [r for r in roles.values() if r.adaptor == "filter_map"]
    ok = len(fm) == 1 and match(fm[0].receiver, C("iter", P(2))) is not None
    if not fm:
        # the same selection as tasks.iter().filter(pred).map(|t| t.task): the table is the predicate's
        fl = [r for r in roles.values() if r.adaptor == "filter" and match(r.receiver, C("iter", P(2))) is not None]
        mp = [r for r in roles.values() if r.adaptor == "map" and match(r.receiver, C("filter", C("iter", P(2)), ANY)) is not None]
        if len(fl) == 1 and len(mp) == 1:
            fm, ok = fl, True
    ctx.ob(rule, "chain", ok, where=b.where(), expected="tasks.iter().filter_map(..) or .filter(..).map(..)", found=[flow.show(r.receiver)[:100] for r in roles.values()])
    if not fm:
        return
    cb = server.body(fm[0].closure_def)
    eng = ctx.engine([server])
    res = {}
    for same_name in (True, False):
        for same_user in (True, False):
            st = symx.State()
            ADF = symx.mk_adt("adf_bdd_server::adf::AdfProblem", "AdfProblem", [("name", ("str", "n")), ("username", ("str", "u"))])
            TASK = symx.mk_adt("adf_bdd_server::config::RunningInfo", "RunningInfo", [("adf_name", ("str", "n" if same_name else "x")), ("username", ("str", "u" if same_user else "y")), ("task", ("sym", "task"))])
            caps = flow.resolve_captures(server, cb) or []
            capvals = []
            for ce in caps:
                if ce[0] == "field" and symx.adt_get(ADF, ce[2]) is not None:
                    capvals.append(symx.adt_get(ADF, ce[2]))
                else:
                    capvals.append(ADF)
            env = eng.closure_env(st, cb, capvals)

            def hook(eng_, st_, frame, path, target, args, t):
                if flow.last(target) == "eq" and ("String" in target or "str" in target or "PartialEq" in path):
                    vals = []
                    for a in args[:2]:
                        x = a
                        for _ in range(3):
                            if x[0] == "ref":
                                x = symx.deref_val(eng_, st_, x)
                        vals.append(x)
                    if all(v[0] == "str" for v in vals):
                        return [(st_, symx.vbool(vals[0][1] == vals[1][1]))]
                return NotImplemented
            eng.call_hook = hook
            first_ty = cb.locals[2]["ty"]
            item = shared.ref_to(st, TASK)
            if first_ty.get("k") == "ref" and first_ty["to"].get("k") == "ref":
                item = shared.ref_to(st, item)       # filter's predicate receives &&RunningInfo
            paths = [p for p in eng.summarise(cb, [env, item], st) if p.end == "return"]
            eng.call_hook = None
            outs = set()
            for p in paths:
                r = kernel.deep_strip(p.ret)
                if r[0] == "adt" and r[2] in ("Some", "None"):
                    outs.add(r[2])
                elif r[0] == "bool":
                    outs.add("Some" if r[1] else "None")     # predicate of filter: kept / dropped
                elif kernel.is_call(r, "bool::then_some"):
                    outs.add("Some" if kernel.strip(r[2][0]) == symx.vbool(True) else ("None" if kernel.strip(r[2][0]) == symx.vbool(False) else "?"))
                else:
                    outs.add(symx.show(r)[:60])
            res[(same_name, same_user)] = outs
    want = {(True, True): {"Some"}, (True, False): {"None"}, (False, True): {"None"}, (False, False): {"None"}}
    ctx.ob(rule, "table", res == want, where=cb.where(), expected="kept iff both adf_name and username are equal", found=str(res))


def P_live(ctx, server):
    rule = "C17.P-live"
    ctx.rule(rule, "sessions are client-side cookies the server cannot revoke: every handler that creates, reads or changes problems under an identity must be dominated by "
                   "a successful lookup of that name in the users collection (as user_info and logout do); otherwise a stale session of a deleted or renamed account "
                   "keeps acting under the old name")
    for hn in S.HANDLERS_ADF:
        try:
            outer, cor, nested = S.handler_bodies(server, hn)
        except LookupError as e:
            ctx.lost(rule, hn, str(e))
            continue
        user_lookup = cor.call_blocks(lambda p, t: flow.sg(p).endswith("user::username_exists") or ("mongodb::Collection" in p and flow.last(p) == "find_one"))
        d = flow.Defs(cor)
        dom = cor.dominators()
        prob_calls = [bb for bb, t, ci in cor.calls() if ("mongodb::Collection" in (ir.callee_path(ci) or "")) and ci.get("args") and ir.ty_str(ci["args"][0]).endswith("adf::AdfProblem")]
        # a lookup in the users collection on the identity path dominating the first problem query
        ok = False
        for bb, t, ci in cor.calls():
            p = ir.callee_path(ci) or ""
            is_user_find = "mongodb::Collection" in p and flow.last(p) == "find_one" and ci.get("args") and ir.ty_str(ci["args"][0]).endswith("user::User")
            is_exists = flow.sg(p).endswith("user::username_exists")
            if (is_user_find or is_exists) and prob_calls and all(bb in dom.get(pb, set()) for pb in prob_calls):
                e = flow.expand_phi(d, d.expr_call(t, bb))
                if flow.find(e, lambda n_: n_[0] == "call" and flow.last(n_[2]) == "map" and n_[3] and n_[3][0][0] == "upvar"):
                    ok = True
        ctx.ob(rule, hn, ok, where=cor.where(), expected="account existence checked before acting under the session identity", found="no dominating users-collection lookup of the identity")


def W_shared(ctx, server):
    rule = "C17.W-shared"
    ctx.rule(rule, "AppState = {mongodb_client, currently_running}; no statics in the server crate; main creates the unique username index before HttpServer::new")
    try:
        a = server.adt("config::AppState")
        fields = sorted(f["name"] for f in a["variants"][0]["fields"])
        ctx.ob(rule, "AppState.fields", fields == ["currently_running", "mongodb_client"], expected="two known fields", found=fields, kind="unreviewed")
    except LookupError as e:
        ctx.lost(rule, "AppState", str(e))
    ctx.ob(rule, "no-statics", not [s for s in server.statics if "::_::" not in s["path"]], expected="no static items", found=[s["path"] for s in server.statics][:5])
    mains = [b for b in server.all_bodies if b.is_coroutine and [x for x in flow.sg(server.bodies[b.parent].path).split("::") if x][-1] == "main"] if True else []
    ok = False
    for m in mains:
        dom = m.dominators()
        ci_b = m.call_blocks(lambda p, t: flow.sg(p).endswith("user::create_username_index"))
        hs_b = m.call_blocks(lambda p, t: flow.fname(p).endswith("HttpServer::new") or "HttpServer" in p and flow.last(p) == "new")
        if ci_b and hs_b and all(ci_b[0] in dom.get(h, set()) for h in hs_b):
            ok = True
    ctx.ob(rule, "index-before-serving", ok, expected="create_username_index(..).await dominates HttpServer::new", found=ok)
    try:
        b = [x for x in server.all_bodies if x.is_coroutine and S.fn_name(x) == "create_username_index"][0]
        d = flow.Defs(b)
        uniq = False
        keyed = False
        for bb, t, ci in b.calls():
            e = d.expr_call(t, bb)
            if e[0] == "call" and flow.last(e[2]) == "unique":
                uniq = flow.const_val(e[3][1]) is True
            if e[0] == "call" and flow.last(e[2]) == "keys":
                ents = S.doc_entries(b, d, e[3][1]) or {}
                keyed = list(ents) == ["username"]
        ctx.ob(rule, "unique-username-index", uniq and keyed, where=b.where(), expected="unique index on `username`", found="unique=%s keyed=%s" % (uniq, keyed))
    except (IndexError, LookupError) as e:
        ctx.lost(rule, "create_username_index", str(e))


def check(ctx):
    for cfg in configs(ctx.tier):
        ctx.cfg = cfg.name
        server = ctx.load(cfg)
        F_owner(ctx, server)
        F_cred(ctx, server)
        F_userfilter(ctx, server)
        P_login(ctx, server)
        P_delete(ctx, server)
        T_tasks(ctx, server)
        P_live(ctx, server)
        W_shared(ctx, server)
        # the only state shared between users besides the database: taken with the blocking lock only (a try_lock().unwrap() turns another user's concurrent request
        # into a 500 for this user)
        rule = "C17.W-shared"
        tl = []
        for b0 in server.all_bodies:
            d0 = None
            for bb0, t0, ci0 in b0.calls():
                p0 = ir.callee_path(ci0) or ""
                if flow.last(p0) == "try_lock" and "Mutex" in p0:
                    d0 = d0 or flow.Defs(b0)
                    if flow.find(d0.expr_call(t0, bb0), lambda n_: n_[0] == "field" and n_[2] == "currently_running"):
                        tl.append(b0.where(t0.get("loc")))
        ctx.ob(rule, "blocking-lock-only", not tl, expected="currently_running is taken with Mutex::lock only", found=tl[:3])
