"""C19 - streaming mirror."""
from mirlib import facts, flow, ir
from rules import kernel, shared

EXPLANATION = """
Obligations whose conjunction gives, by induction on the message stream and for every schedule, 'receiver table
after k messages = producer's first k+2 nodes': S.W-store (no other writer of nodes in any crate), C19.P-pair
(in Bdd::node the fresh path pushes n and then, iff a sender is set, sends exactly that n once; no send elsewhere),
C19.R-recv (per received message exactly one verbatim push, registration under the appended index, one forward iff
a sender is set; true only if the handle was present or is the one just appended; false only if the channel is empty
or absent; nothing consumed when the handle is present), C19.F-init (every frontend constructor starts from
Bdd::new, whose two constant nodes are never sent), C19.W-ends (the channel ends are written only by the setters and
constructors: neither node nor recv replaces or clears an end, so a relay keeps forwarding). Both node and recv run under &mut self, so no interleaving can
fall between push and send."""
NOT_DECIDED = "crossbeam channels are trusted to be FIFO and lossless."
TECHNIQUE = "static analysis: path-sensitive MIR summaries with ordered effects (push/send pairing), who-may-write census"


def configs(tier):
    if tier == "thorough":
        return facts.LIB_ALL
    # frontend without the counting features: the streaming code must not depend on another feature's cfg block (round-2 seeded change C19/fourth)
    return facts.LIB_QUICK + [facts.Config("lib", ["frontend"])]


def F_init(ctx, lib):
    rule = "C19.F-init"
    ctx.rule(rule, "with_sender / with_receiver / with_sender_receiver build the store with Bdd::new and only set the channel ends")
    n = 0
    for name in ("with_sender", "with_receiver", "with_sender_receiver"):
        try:
            b = lib.one("obdd::frontend::<impl obdd::Bdd>::" + name)
        except LookupError as e:
            ctx.lost(rule, name, str(e))
            continue
        n += 1
        callees = [flow.sg(ir.callee_path(ci) or "?") for _, t, ci in b.calls()]
        d = flow.Defs(b)
        ret = d.expr_local(0)
        from_new = any(c.endswith("obdd::Bdd::new") for c in callees)
        only = all(c.endswith(("obdd::Bdd::new", "::set_sender", "::set_receiver")) for c in callees)
        ctx.ob(rule, name, from_new and only, where=b.where(), expected="Bdd::new + set_sender/set_receiver only", found=callees)
    for name, field in (("set_sender", "sender"), ("set_receiver", "receiver")):
        try:
            b = lib.one("obdd::frontend::<impl obdd::Bdd>::" + name)
        except LookupError as e:
            ctx.lost(rule, name, str(e))
            continue
        n += 1
        writes = set()
        for bb, i, s in b.statements():
            if s["k"] == "assign":
                for pe in s["pl"]["p"]:
                    if pe["k"] == "field":
                        writes.add(pe.get("name"))
        ctx.ob(rule, name, writes == {field}, where=b.where(), expected="writes only Bdd." + field, found=sorted(map(str, writes)))
    ctx.floor(rule, "constructors/setters", n, 5)


ENDS_WRITERS = {"Bdd::set_sender": "the documented setter", "Bdd::set_receiver": "the documented setter", "Bdd::new": "initialises both ends to None",
                "Bdd::default": "constructor"}


def W_ends(ctx, lib):
    rule = "C19.W-ends"
    ctx.rule(rule, "the channel ends Bdd.sender / Bdd.receiver are written only by " + ", ".join(sorted(ENDS_WRITERS)) + " and serde; in particular neither Bdd::node nor "
                   "Bdd::recv (nor anything they call) replaces or clears an end: a relay that drops its sender on an empty poll stops forwarding the nodes that arrive later; "
                   "reads (as_ref / pattern tests / shared borrows for send, try_recv) are free")
    n = 0
    for field in ("sender", "receiver"):
        for (body, bb, it, role, pl, i) in kernel.field_uses(lib, "obdd::Bdd", field):
            n += 1
            if "_serde" in body.path:
                continue
            last = i == len(pl["p"]) - 1
            writes = (role == "write" and last) or role == "refmut" or (role == "move" and last and any(pe["k"] == "deref" for pe in pl["p"][:i])) or (role == "drop" and last)
            if not writes:
                continue
            fn = lib.enclosing_fn(body)
            owner = fn.qual if fn else body.qual
            ctx.ob(rule, "%s:%s" % (field, owner), owner in ENDS_WRITERS, where=body.where(it.get("loc")), expected="a setter / constructor", found="%s of Bdd.%s in %s" % (role, field, owner),
                   kind="refuted" if owner in ("Bdd::node", "Bdd::recv") else "unreviewed")
    ctx.floor(rule, "uses of Bdd.sender / Bdd.receiver", n, 4)


def check(ctx):
    for cfg in configs(ctx.tier):
        ctx.cfg = cfg.name
        lib = ctx.load(cfg)
        frontend = "frontend" in lib.features
        kernel.P_pair(ctx, lib, frontend)
        kernel.R_new(ctx, lib)
        kernel.W_store(ctx, {"lib": lib})
        if frontend:
            kernel.R_recv(ctx, lib, "C19.R-recv",
                          "per received message exactly one push of that message, verbatim, then (iff a sender is set) one forward; "
                          "true only if the handle was already below nodes.len() or equals the handle just appended; false only when "
                          "the channel is empty or absent; nothing is consumed when the handle is already present")
            F_init(ctx, lib)
            W_ends(ctx, lib)
        else:
            absent = [b.path for b in lib.all_bodies if "obdd::frontend" in b.path]
            ctx.ob("C19.cfg", "no-frontend-code", not absent, expected="frontend functions absent without the feature", found=absent[:3])
    others = {}
    ctx.cfg = "bin@default"
    others["bin"] = ctx.load(facts.Config("bin"))
    ctx.cfg = "server@default"
    others["server"] = ctx.load(facts.Config("server"))
    ctx.cfg = "bin+server"
    kernel.W_store(ctx, others, rule="S.W-store/ext")
