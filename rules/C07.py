"""C07 - diagram operations compute the Boolean function they name."""
from mirlib import facts
from rules import deps, kernel, shared

EXPLANATION = """
Decided for every path and (thorough tier) every lib feature configuration: C07.T-conn (truth tables of the
connectives over Boolean symbols with if_then_else as ITE; variable/constant), C07.T-ite0 (validity of every
ITE shortcut under its path condition), C07.R-ite (Shannon expansion step on the minimal top variable with the
low child built from the false cofactors), C07.R-restrict (cofactor case table over the order type of
top-variable vs restricted variable), S.F-memo (ite_cache / restrict_cache keyed by all parameters, hit returns
the stored value, inserted value = returned value), S.W-store (append-only node table => previously issued handles
keep their function), and the function-relevant obligations of S.R-node (the node stored is BddNode{var,lo,hi} of the parameters, the
returned handle is its index / the registered handle / lo when lo == hi). These are the induction steps; the induction itself is the textbook argument."""
NOT_DECIDED = "The structural induction from one step to all operand diagrams is argued on paper, not mechanised."
TECHNIQUE = "static analysis: finite-domain abstract interpretation of MIR (truth-table / order-type domains), memo-key dataflow, who-may-write census"


def configs(tier):
    return facts.LIB_ALL if tier == "thorough" else facts.LIB_QUICK


def check(ctx):
    for cfg in configs(ctx.tier):
        ctx.cfg = cfg.name
        lib = ctx.load(cfg)
        kernel.T_conn(ctx, lib)
        kernel.ite_rules(ctx, lib)
        kernel.R_restrict(ctx, lib)
        n = kernel.F_memo(ctx, lib, which=("restrict", "ite"))
        ctx.floor("S.F-memo", "memo inserts examined (vacuity guard; dropping an insert only costs time)", n, 2)
        kernel.W_store(ctx, {"lib": lib})
        deps.node_function(ctx, lib)
