#!/bin/bash
# MANIFEST.setup_cmd: build the factgen driver and warm the dependency check (offline).
set -e
cd "$(dirname "$0")"
export CARGO_NET_OFFLINE=true
(cd factgen && cargo build --release --offline 2>&1 | tail -2)
test -x factgen/target/release/factgen
python3 - <<'PY'
import sys
sys.path.insert(0, '.')
from mirlib import facts
for c in (facts.Config("lib"), facts.Config("bin"), facts.Config("server")):
    d, info = facts.ensure(c)
    print("facts", c.name, info)
PY
echo "setup ok"
