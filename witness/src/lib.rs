//! Type-level witnesses (E5 of DESIGN.md): each `compile_fail,E0xxx` example must fail to compile with exactly that
//! error, and its twin - identical except for the offending line - must compile.  Run with
//! `cargo +nightly test --doc --offline` (stable ignores the error code).  Nothing here executes adf-obdd code paths
//! of interest: the twins are `no_run`, the verdict is the compiler's.

/// W01 - the unique table `Bdd.cache` cannot be reached from outside the crate.
/// ```compile_fail,E0616
/// let b = adf_bdd::obdd::Bdd::new();
/// let _ = &b.cache;
/// ```
/// twin:
/// ```no_run
/// let b = adf_bdd::obdd::Bdd::new();
/// let _ = &b.nodes;
/// ```
pub struct W01CachePrivate;

/// W02 - the ITE memo table is private.
/// ```compile_fail,E0616
/// let b = adf_bdd::obdd::Bdd::new();
/// let _ = &b.ite_cache;
/// ```
/// twin:
/// ```no_run
/// let b = adf_bdd::obdd::Bdd::new();
/// let _ = b.nodes.len();
/// ```
pub struct W02IteCachePrivate;

/// W03 - the restrict memo table is private.
/// ```compile_fail,E0616
/// let b = adf_bdd::obdd::Bdd::new();
/// let _ = &b.restrict_cache;
/// ```
/// twin:
/// ```no_run
/// let mut b = adf_bdd::obdd::Bdd::new();
/// let _ = b.restrict(adf_bdd::datatypes::Term::TOP, adf_bdd::datatypes::Var(0), true);
/// ```
pub struct W03RestrictCachePrivate;

/// W04 - the count cache is private.
/// ```compile_fail,E0616
/// let b = adf_bdd::obdd::Bdd::new();
/// let _ = &b.count_cache;
/// ```
/// twin:
/// ```no_run
/// let b = adf_bdd::obdd::Bdd::new();
/// let _ = b.max_depth(adf_bdd::datatypes::Term::TOP);
/// ```
pub struct W04CountCachePrivate;

/// W05 - `Adf.rng` is private (only `seed` can replace it).
/// ```compile_fail,E0616
/// let a = adf_bdd::adf::Adf::default();
/// let _ = &a.rng;
/// ```
/// twin:
/// ```no_run
/// let mut a = adf_bdd::adf::Adf::default();
/// a.seed([7; 32]);
/// let _ = &a.ac;
/// ```
pub struct W05RngPrivate;

/// W06 - the fields of a node cannot be written from outside (`var`, `lo`, `hi` are private; accessors return copies).
/// ```compile_fail,E0616
/// let mut n = adf_bdd::datatypes::BddNode::top_node();
/// n.lo = adf_bdd::datatypes::Term::BOT;
/// ```
/// twin:
/// ```no_run
/// let n = adf_bdd::datatypes::BddNode::top_node();
/// let _ = n.lo();
/// ```
pub struct W06NodeFieldsPrivate;

/// W07 - `if_then_else` is not callable from outside: diagrams are built through the named connectives only.
/// ```compile_fail,E0624
/// let mut b = adf_bdd::obdd::Bdd::new();
/// let t = adf_bdd::datatypes::Term::TOP;
/// let _ = b.if_then_else(t, t, t);
/// ```
/// twin:
/// ```no_run
/// let mut b = adf_bdd::obdd::Bdd::new();
/// let t = adf_bdd::datatypes::Term::TOP;
/// let _ = b.and(t, t);
/// ```
pub struct W07IteNotPublic;

/// W08 - the bitmaps of a nogood are private.
/// ```compile_fail,E0616
/// let ng = adf_bdd::nogoods::NoGood::default();
/// let _ = &ng.active;
/// ```
/// twin:
/// ```no_run
/// let ng = adf_bdd::nogoods::NoGood::default();
/// let _ = ng.len();
/// ```
pub struct W08NoGoodBitsPrivate;

/// W09 - the buckets of the nogood store are private.
/// ```compile_fail,E0616
/// let s = adf_bdd::nogoods::NoGoodStore::new(3);
/// let _ = &s.store;
/// ```
/// twin:
/// ```no_run
/// let mut s = adf_bdd::nogoods::NoGoodStore::new(3);
/// s.add_ng(adf_bdd::nogoods::NoGood::new_single_nogood(0, true));
/// ```
pub struct W09StorePrivate;

/// W10 - the sender handed to `stable_nogood_channel` is moved: the caller cannot keep the channel open by accident.
/// ```compile_fail,E0382
/// let mut a = adf_bdd::adf::Adf::default();
/// let (s, r) = crossbeam_channel::unbounded();
/// a.stable_nogood_channel(adf_bdd::adf::heuristics::Heuristic::Simple, s);
/// drop(s);
/// drop(r);
/// ```
/// twin:
/// ```no_run
/// let mut a = adf_bdd::adf::Adf::default();
/// let (s, r) = crossbeam_channel::unbounded();
/// a.stable_nogood_channel(adf_bdd::adf::heuristics::Heuristic::Simple, s);
/// drop(r);
/// ```
pub struct W10SenderMoved;

/// W11 - the same for `two_val_nogood_channel`.
/// ```compile_fail,E0382
/// let mut a = adf_bdd::adf::Adf::default();
/// let (s, r) = crossbeam_channel::unbounded();
/// a.two_val_nogood_channel(adf_bdd::adf::heuristics::Heuristic::Simple, s);
/// let _ = s.len();
/// drop(r);
/// ```
/// twin:
/// ```no_run
/// let mut a = adf_bdd::adf::Adf::default();
/// let (s, r) = crossbeam_channel::unbounded();
/// a.two_val_nogood_channel(adf_bdd::adf::heuristics::Heuristic::Simple, s);
/// drop(r);
/// ```
pub struct W11SenderMovedTwoVal;

/// W12 - an `Adf` cannot be shared between threads (interior mutability of the count cache and the rng): all queries on one
/// object are sequential, so "call histories" are sequences.
/// ```compile_fail,E0277
/// fn is_sync<T: Sync>() {}
/// is_sync::<adf_bdd::adf::Adf>();
/// ```
/// twin:
/// ```no_run
/// fn is_send<T: Send>() {}
/// is_send::<adf_bdd::adf::Adf>();
/// ```
pub struct W12AdfNotSync;

/// W13 - every mutating diagram operation needs `&mut Bdd`: a shared reference cannot create nodes.
/// ```compile_fail,E0596
/// let b = adf_bdd::obdd::Bdd::new();
/// let t = adf_bdd::datatypes::Term::TOP;
/// let _ = b.or(t, t);
/// ```
/// twin:
/// ```no_run
/// let mut b = adf_bdd::obdd::Bdd::new();
/// let t = adf_bdd::datatypes::Term::TOP;
/// let _ = b.or(t, t);
/// ```
pub struct W13MutationNeedsMut;

/// W14 - the interpretation iterators keep their position list private.
/// ```compile_fail,E0616
/// let it = adf_bdd::datatypes::adf::TwoValuedInterpretationsIterator::new(&[adf_bdd::datatypes::Term(3)]);
/// let _ = &it.indexes;
/// ```
/// twin:
/// ```no_run
/// let mut it = adf_bdd::datatypes::adf::TwoValuedInterpretationsIterator::new(&[adf_bdd::datatypes::Term(3)]);
/// let _ = it.next();
/// ```
pub struct W14IteratorIndexesPrivate;
