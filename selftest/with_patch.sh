#!/bin/bash
# usage: with_patch.sh <patch> <cmd...>   -- applies patch to /repo, runs cmd, always reverts
set -u
P=$1; shift
git -C /repo apply "$P" || { echo "patch does not apply"; exit 2; }
"$@"; rc=$?
git -C /repo checkout -- . 
exit $rc
