#!/usr/bin/env python3
"""writes selftest/SWEEP.md and selftest/sweep_triage.json from the scratch results of sweep.py (run / triage) plus the manual verdicts below"""
import collections
import json
import os
import re
import sys

VERIF = os.path.dirname(os.path.dirname(os.path.abspath(__file__)))
SCRATCH = sys.argv[1] if len(sys.argv) > 1 else "/tmp/sweep"

# manual verdicts for silent survivors (regex on the mutant id -> (verdict, reason)); first match wins
MANUAL = [
    (r"lib/src/adf\.rs:87:|lib/src/adfbiodivine\.rs:71:", ("equivalent", "argument of a log::trace! call")),
    (r"lib/src/adf\.rs:(72|108):0->1", ("equivalent", "placeholder vector, every slot is overwritten by the construction loop (C09.F-order)")),
    (r"lib/src/adf\.rs:225:", ("equivalent", "initial value of the progress counter: the loop exit compares the counter before/after one round, only increments matter")),
    (r"lib/src/adf\.rs:(468|470|485|487|523):true->false", ("equivalent", "memoisation flag of Bdd::paths: both procedures return the same counts (S.R-rec)")),
    (r"lib/src/adf\.rs:512:", ("equivalent", "branching candidate filter weakened: decided statements become candidates, redundant but harmless (oracle 12000 ADFs); the necessary row is C04.T-choice")),
    (r"lib/src/adf\.rs:(561|585):", ("equivalent", "recursion depth, used for log messages only")),
    (r"lib/src/adf\.rs:745:", ("outside", "facet counts are not part of C13 (only the model counts they are derived from)")),
    (r"lib/src/adf\.rs:835:", ("equivalent", "initial value overwritten by update_interpretation_fixpoint_upd before its first use")),
    (r"lib/src/adf\.rs:850:", ("equivalent", "heuristic = None arm: dead code under the property's premises (heuristics always propose)")),
    (r"lib/src/adf\.rs:853:", ("equivalent", "one nogood-propagation round less before the model test; the test itself is exact")),
    (r"lib/src/adf\.rs:(884|932):drop-stmt", ("equivalent", "a learned nogood less: costs search effort; every sent model is still excluded by its own entry (C05.P-emit)")),
    (r"lib/src/adf\.rs:892:", ("gap-closed", "Inconsistent arm must request backtracking: C05.P-lockstep closure-inconsistent-backtracks (added)")),
    (r"lib/src/adf\.rs:(544|555|578):", ("gap-closed", "C04.F-branch (added)")),
    (r"lib/src/adf\.rs:641:", ("gap-closed", "C05.F-updflag (added)")),
    (r"lib/src/adf\.rs:(906|907):", ("gap-closed", "C05.T-acconflict (added)")),
    (r"lib/src/adfbiodivine\.rs:374:", ("equivalent", "AdfOperations::cmp_information between two biodivine diagrams has no caller")),
    (r"lib/src/obdd\.rs:228:BOT->TOP", ("equivalent", "terminal nodes satisfy the first disjunct already")),
    (r"lib/src/adf/heuristics\.rs:\d+:true->false", ("equivalent", "memoisation flag of Bdd::paths")),
    (r"lib/src/datatypes/adf\.rs:159:", ("equivalent", "a decided-false entry maps to BOT on either branch")),
    (r"lib/src/nogoods\.rs:120:min->max", ("equivalent", "the set has exactly one element on this path (len == 1 tested before)")),
    (r"lib/src/nogoods\.rs:214:", ("gap-closed", "empty nogood must be ignored without touching the store: C18.T-subsume empty-nogood-ignored (added)")),
    (r"lib/src/nogoods\.rs:(222|231):le->lt", ("equivalent", "Subsume mode, equal-size bucket: an identical nogood is stored twice, the excluded set is unchanged")),
    (r"lib/src/nogoods\.rs:275:le->lt", ("equivalent", "fewer conclusions drawn; the property demands soundness of conclusions and conflict when the interpretation matches a nogood, both unchanged")),
    (r"lib/src/nogoods\.rs:288:", ("equivalent", "initial value of the update flag of conclusion_closure: overwritten before it is read")),
    (r"lib/src/datatypes/bdd\.rs:(90|92):", ("gap-closed", "Term::no_inf_inconsistency table added to S.T-term for C04")),
    (r"bin/src/main\.rs:(205|212):", ("outside", "--counter output: counts of the pre-grounded instead of the submitted conditions; not an interpretation (C15) and each printed count is still exact for the diagram it is taken from (C13)")),
    (r"bin/src/main\.rs:(213|377):", ("outside", "--counter nai/mem selects the memoised or the naive procedure: under the default features memoised model counts are the documented all-zero exception")),
    (r"server/src/adf\.rs:424:", ("gap-closed", "C16.F-pair add.hybrid-without-pregrounding (added)")),
    (r"server/src/adf\.rs:547:", ("outside", "re-solving an already solved strategy recomputes and stores the same answer")),
    (r"server/src/(adf|config)\.rs:\d+:lock->try_lock", ("gap-closed", "blocking-lock-only (C16.P-running, C17.W-shared; added)")),
    (r"server/src/(adf|user)\.rs:\d+:(0->1|1->0):", ("outside", "pattern on deleted_count / modified_count selects the HTTP status of the reply only")),
    (r"server/src/user\.rs:35:", ("outside", "direction of the username index; uniqueness (the property-relevant option) is reported")),
    (r"lib/src/obdd\.rs:(442|478):gt->ge", ("equivalent", "equal depths: both exponents are 2^0 = 1 on either branch")),
    (r"server/src/user\.rs:(60|164|285):", ("outside", "input validation of empty names/passwords is not part of C17")),
    (r"server/src/user\.rs:305:", ("outside", "the rename pre-check is a courtesy: uniqueness is enforced by the unique index (C17.W-shared), the failed replace_one is answered before anything else is written (C17.P-login, C17.P-delete)")),
    (r"server/src/user\.rs:353:", ("outside", "`temp` in the reply of update_user is informational; what is stored is the hashed password (C17.F-cred)")),
    (r"lib/src/nogoods\.rs:183:", ("outside", "Display of the store (bucket order of a debug print)")),
    (r"lib/src/parser\.rs:(195|208):terminated->preceded", ("equivalent", "the combinator's value is discarded; the same input is consumed")),
    (r"lib/src/obdd/vectorize\.rs:13:", ("gap-closed", "C06.A-serde vectorize.serialize-whole-map (added)")),
    (r"bin/src/main\.rs:282:", ("outside", "the --counter branch of the biodivine arm only logs that counting is unsupported there")),
    (r"bin/src/main\.rs:295:", ("gap-closed", "C10.P-cli sort-under-own-flag (added)")),
    (r"server/src/adf\.rs:126:", ("gap-closed", "C14.A-dto exhaustive conversions (added)")),
    (r"server/src/double_labeled_graph\.rs:85:", ("gap-closed", "C16.F-graph no-element-dropped (added)")),
    (r"server/src/user\.rs:(48|129|215|253|321):find_one", ("gap-closed", "C17.F-userfilter (added)")),
    (r"server/src/adf\.rs:(256|313|364):|server/src/user\.rs:52:", ("outside", "existence pre-checks / default-name generation: uniqueness of account names is enforced by the unique index, problem names are per user")),
    (r"server/src/user\.rs:(226|259):", ("outside", "logout courtesy for temporary users / informational `temp` flag of a reply")),
    (r"lib/src/nogoods\.rs:63:", ("equivalent", "try_from_pair_iter: flag initial value; an empty pair iterator cannot occur behind filter_map(conclude) of a non-empty bucket (oracle passes)")),
]


def manual(mid):
    for rx, v in MANUAL:
        if re.search(rx, mid):
            return v
    return None


def main():
    res = {}
    for f in ("results.jsonl",):
        p = os.path.join(SCRATCH, f)
        if os.path.exists(p):
            for l in open(p):
                r = json.loads(l)
                res[r["id"]] = r
    tri = {}
    p = os.path.join(SCRATCH, "triage.jsonl")
    if os.path.exists(p):
        for l in open(p):
            r = json.loads(l)
            tri[r["id"]] = r
    by = collections.Counter(r["outcome"] for r in res.values())
    out = ["# Mutation sweep of the shipped code (selftest/sweep.py)", "",
           "Single-token mutants of non-test code; each is built and run against the pinned tests in a scratch worktree, survivors are checked with the quick tier of every",
           "relevant check (from a snapshot of /verif), and library survivors are additionally run against the dynamic triage oracle (selftest/triage/oracle.rs: brute-force",
           "references on random small inputs, default features) - for triage only, never as part of a check.", "",
           "| outcome | mutants |", "|---|---|"]
    for k, v in sorted(by.items()):
        out.append("| %s | %d |" % (k, v))
    out.append("| **total** | %d |" % len(res))
    surv = [r for r in res.values() if r["outcome"] in ("SILENT", "reported")]
    rep = [r for r in surv if r["outcome"] == "reported"]
    sil = [r for r in surv if r["outcome"] == "SILENT"]
    out += ["", "Survivors of the test suite: %d; reported by a check: %d; silent: %d." % (len(surv), len(rep), len(sil)), ""]
    triage_json = {}
    out += ["## Silent survivors", "", "| mutant | change | oracle | verdict | reason |", "|---|---|---|---|---|"]
    cnt = collections.Counter()
    for r in sorted(sil, key=lambda r: r["id"]):
        t = tri.get(r["id"], {})
        mv = manual(r["id"])
        verdict, reason = mv if mv else (("UNTRIAGED", "") if not t else (("gap?", "oracle fails: " + ", ".join(t.get("mismatch", [])[:3])) if t.get("verdict") != "oracle-pass" else ("probably equivalent", "oracle passes")))
        cnt[verdict] += 1
        triage_json[r["id"]] = {"verdict": verdict, "reason": reason, "oracle": t.get("verdict")}
        out.append("| %s | `%s` -> `%s` | %s | %s | %s |" % (r["id"], r["old"].strip()[:60].replace("|", "\\|"), r["new"].strip()[:60].replace("|", "\\|"), t.get("verdict", "-"), verdict, reason))
    out += ["", "Verdicts: " + ", ".join("%s %d" % kv for kv in sorted(cnt.items())), ""]
    out += ["## Reported survivors on which the oracle sees no difference", "",
            "Either the oracle cannot see the difference (non-default feature set, frontend, bounded channels, the statement-less ADF) or the report is about a behaviour-preserving edit.", "",
            "| mutant | change | checks |", "|---|---|---|"]
    for r in sorted(rep, key=lambda r: r["id"]):
        t = tri.get(r["id"], {})
        if t.get("verdict") == "oracle-pass":
            out.append("| %s | `%s` -> `%s` | %s |" % (r["id"], r["old"].strip()[:50].replace("|", "\\|"), r["new"].strip()[:50].replace("|", "\\|"), " ".join(r.get("fired", []))))
    open(os.path.join(VERIF, "selftest", "SWEEP.md"), "w").write("\n".join(out) + "\n")
    json.dump(triage_json, open(os.path.join(VERIF, "selftest", "sweep_triage.json"), "w"), indent=1, sort_keys=True)
    print("\n".join(out[:20]))
    print("...", cnt)


main()
