#!/usr/bin/env python3
"""Self-test of the checkers: applies single-instance source mutations to /repo's working tree
(always reverted), runs the named checks and asserts that each fires with a VIOLATION line.

usage: run_mutants.py [name-substring ...]     (no args: all)
Mutants only need to compile; those that also pass the 61 tests are marked `passes_tests`.
"""
import json
import os
import subprocess
import sys

VERIF = os.path.dirname(os.path.dirname(os.path.abspath(__file__)))
REPO = os.environ.get("SELFTEST_REPO", "/repo")     # a scratch git worktree of /repo keeps /repo itself untouched (own fact cache through VCHECK_*)
if REPO != "/repo":
    os.environ.update(VCHECK_REPO=REPO, VCHECK_WORK=REPO.rstrip("/") + "-vwork", VCHECK_OUT=REPO.rstrip("/") + "-vout")
sys.path.insert(0, os.path.dirname(os.path.abspath(__file__)))
from mutants import MUTANTS  # noqa: E402


def sh(cmd, **kw):
    return subprocess.run(cmd, shell=True, text=True, stdout=subprocess.PIPE, stderr=subprocess.STDOUT, **kw)


def main():
    global MUTANTS
    sel = [a for a in sys.argv[1:] if not a.startswith("--")]
    if "--benign" in sys.argv:
        from benign import BENIGN
        MUTANTS = BENIGN
    dirty = sh("git -C %s status --porcelain" % REPO).stdout.strip()
    if dirty:
        print("refusing: /repo has uncommitted changes:\n" + dirty)
        sys.exit(2)
    results = []
    shard = [a for a in sys.argv[1:] if a.startswith("--shard=")]
    if shard:
        i, n = map(int, shard[0].split("=")[1].split("/"))
        MUTANTS = [m for k, m in enumerate(MUTANTS) if k % n == i]
    for m in MUTANTS:
        if sel and not any(s in m["name"] for s in sel):
            continue
        path = os.path.join(REPO, m["file"])
        src = open(path).read()
        cnt = src.count(m["old"])
        if cnt < 1 or (m.get("nth") is None and cnt != 1 and not m.get("replace_all")):
            print("MUTANT %-40s SKIPPED: anchor text found %d times" % (m["name"], cnt))
            results.append((m["name"], "anchor-missing"))
            continue
        if m.get("nth") is not None:
            idx = -1
            for _ in range(m["nth"] + 1):
                idx = src.index(m["old"], idx + 1)
            new_src = src[:idx] + m["new"] + src[idx + len(m["old"]):]
        else:
            new_src = src.replace(m["old"], m["new"])
        try:
            open(path, "w").write(new_src)
            for extra in m.get("also", []):
                ep = os.path.join(REPO, extra["file"])
                es = open(ep).read()
                assert es.count(extra["old"]) == 1, "also-anchor"
                open(ep, "w").write(es.replace(extra["old"], extra["new"]))
            outcome = {}
            for prop in m.get("expect", []):
                r = sh("./vcheck %s --tier %s" % (prop, m.get("tier", "quick")), cwd=VERIF)
                fired = ("VIOLATION property=%s" % prop) in r.stdout
                build_fail = "fact generation failed" in r.stdout
                outcome[prop] = "BUILD-FAIL" if build_fail else ("fired" if fired else "SILENT")
                if fired and m.get("show"):
                    print(r.stdout[-1500:])
            for prop in m.get("silent", []):
                r = sh("./vcheck %s --tier quick" % prop, cwd=VERIF)
                fired = ("VIOLATION property=%s" % prop) in r.stdout
                build_fail = "fact generation failed" in r.stdout
                outcome[prop + "(must be silent)"] = "BUILD-FAIL" if build_fail else ("FALSE-ALARM" if fired else "silent")
                if fired and not build_fail:
                    print("\n".join(l for l in r.stdout.splitlines() if l.strip().startswith(("REFUTED", "ANCHOR", "FLOOR", "UNREVIEWED", "CANNOT", "ENGINE", "expected", "found")))[:1500])
        finally:
            sh("git -C %s checkout -- ." % REPO)
        ok = all(v in ("fired", "silent") for v in outcome.values())
        print("MUTANT %-40s %s  %s" % (m["name"], "ok  " if ok else "FAIL", outcome), flush=True)
        results.append((m["name"], outcome))
    bad = [r for r in results if r[1] == "anchor-missing" or (isinstance(r[1], dict) and not all(v in ("fired", "silent") for v in r[1].values()))]
    print("%d mutants, %d not as expected" % (len(results), len(bad)))
    sys.exit(1 if bad else 0)


if __name__ == "__main__":
    main()
