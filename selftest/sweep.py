#!/usr/bin/env python3
"""Systematic mutation sweep: measures which compiling, test-passing single-token mutants of the shipped code the checks report.

This is self-test tooling for the checkers (never part of a registered check).  It works in scratch git worktrees of /repo
under --scratch (default /tmp/sweep, outside /repo and /verif) with their own cargo target dirs and their own fact caches
(VCHECK_REPO / VCHECK_WORK / VCHECK_OUT), so /repo's working tree is never touched and several workers run in parallel.

  sweep.py gen   [--files lib/src/adf.rs ...]          -> <scratch>/mutants.jsonl       (text-level operators on non-test code)
  sweep.py run   [--workers 4] [--limit N] [--match s] -> <scratch>/results.jsonl       (build + pinned tests, then all quick checks)
  sweep.py report                                       -> table: killed by tests / reported by checks / silent survivors

A silent survivor is either an equivalent mutant (behaviour unchanged: nothing to report) or a gap; they are triaged by hand
and the outcome is recorded in selftest/sweep_triage.json (key = file:line:operator:column)."""
import argparse
import concurrent.futures
import json
import os
import re
import subprocess
import sys
import threading

VERIF = os.path.dirname(os.path.dirname(os.path.abspath(__file__)))
REPO = "/repo"
DEFAULT_FILES = ["lib/src/adf.rs", "lib/src/adfbiodivine.rs", "lib/src/obdd.rs", "lib/src/obdd/frontend.rs", "lib/src/nogoods.rs", "lib/src/parser.rs",
                 "lib/src/adf/heuristics.rs", "lib/src/datatypes/adf.rs", "lib/src/datatypes/bdd.rs", "lib/src/obdd/vectorize.rs",
                 "bin/src/main.rs", "server/src/adf.rs", "server/src/user.rs", "server/src/config.rs", "server/src/double_labeled_graph.rs"]

# (name, regex, replacement) applied at every match position of a code line
OPS = [
    ("eq->ne", r" == ", " != "), ("ne->eq", r" != ", " == "),
    ("lt->le", r" < ", " <= "), ("le->lt", r" <= ", " < "), ("gt->ge", r" > ", " >= "), ("ge->gt", r" >= ", " > "),
    ("lt->gt", r" < ", " > "), ("gt->lt", r" > ", " < "),
    ("and->or", r" && ", " || "), ("or->and", r" \|\| ", " && "),
    ("true->false", r"\btrue\b", "false"), ("false->true", r"\bfalse\b", "true"),
    ("drop-not", r"(?<![\w)])!(?=[\w(])(?!\w*!)", ""),
    ("plus1-drop", r" \+ 1\b", ""), ("minus1-drop", r" - 1\b", ""), ("plus->minus", r" \+ (?!=)", " - "), ("minus->plus", r" - (?!=)(?!>)", " + "),
    ("TOP->BOT", r"\b(Term|Var)::TOP\b", r"\1::BOT"), ("BOT->TOP", r"\b(Term|Var)::BOT\b", r"\1::TOP"),
    ("lo->hi", r"\.lo\(\)", ".hi()"), ("hi->lo", r"\.hi\(\)", ".lo()"),
    ("f0->f1", r"\.0\b(?!\.\d)", ".1"), ("f1->f0", r"\.1\b(?!\.\d)", ".0"),
    ("is_true->is_truth_value", r"\.is_true\(\)", ".is_truth_value()"), ("is_truth_value->is_true", r"\.is_truth_value\(\)", ".is_true()"),
    ("min->max", r"\bmin\(", "max("), ("max->min", r"\bmax\(", "min("), ("any->all", r"\.any\(", ".all("), ("all->any", r"\.all\(", ".any("),
    ("and->or-op", r"\.and\(", ".or("), ("or->and-op", r"\.or\(", ".and("),
    ("Some->None-ret", r"\breturn Some\([^;]*\);", "return None;"),
    ("0->1", r"(?<![\w.])0(?![\w.])", "1"), ("1->0", r"(?<![\w.])1(?![\w.])", "0"),
    ("lock->try_lock", r"\.lock\(\)", ".try_lock()"), ("send->try_send", r"\.send\(", ".try_send("),
    ("delete_many->delete_one", r"\.delete_many\(", ".delete_one("), ("update_many->update_one", r"\.update_many\(", ".update_one("),
    ("else-if->if", r"\} else if ", "} if "),
    # grammar / CLI / service specific
    ("multispace0->space0", r"\bmultispace0\b", "space0"), ("many1->many0", r"\bmany1\(", "many0("), ("alphanumeric1->alpha1", r"\balphanumeric1\b", "alpha1"),
    ("preceded->terminated", r"\bpreceded\(", "terminated("), ("terminated->preceded", r"\bterminated\(", "preceded("),
    ("Formula-variant", r"Formula::And\(", "Formula::Or("), ("Formula-variant2", r"Formula::Imp\(", "Formula::Iff("), ("Formula-variant3", r"Formula::Xor\(", "Formula::Iff("),
    ("grounded->complete-flag", r"\bself\.grounded\b", "self.complete"), ("stable->complete-flag", r"\bself\.stable\b", "self.complete"),
    ("lexi->alphanum", r"varsort_lexi\(", "varsort_alphanum("), ("is_ok->is_err", r"\.is_ok\(\)", ".is_err()"), ("is_some->is_none", r"\.is_some\(\)", ".is_none()"),
    ("is_none->is_some", r"\.is_none\(\)", ".is_some()"), ("Ok-arm->Err", r"\bOk\(_\) =>", "Err(_) =>"),
    ("unwrap_or-default", r"\.unwrap_or\(false\)", ".unwrap_or(true)"),
    ("find_one->find_one-nofilter", r"doc! \{ \"username\": ", "doc! { \"name\": "),
    ("iter->iter-rev", r"\.iter\(\)\.enumerate\(\)", ".iter().rev().enumerate()"),
    ("skip1", r"\.into_iter\(\)", ".into_iter().skip(1)"),
]
# third batch (--batch 3): operand drops, argument swaps, boundary and iteration-range slips, dropped assignments / exits
OPS3 = [
    ("swap-args", r"\((\*?&?\w+(?:\.\w+)*(?:\(\))?), (\*?&?\w+(?:\.\w+)*(?:\(\))?)\)", r"(\2, \1)"),
    ("drop-conj-left", r"(?<=[ (])!?\*?\w[\w.\[\]]*(?:\([\w&*., ]*\))? && ", ""), ("drop-conj-right", r" && !?\*?\w[\w.\[\]]*(?:\([\w&*., ]*\))?(?=[ ){;]|$)", ""),
    ("drop-disj-left", r"(?<=[ (])!?\*?\w[\w.\[\]]*(?:\([\w&*., ]*\))? \|\| ", ""), ("drop-disj-right", r" \|\| !?\*?\w[\w.\[\]]*(?:\([\w&*., ]*\))?(?=[ ){;]|$)", ""),
    ("if-true", r"\bif (?!let )([^{]+) \{$", "if true {"), ("if-false", r"\bif (?!let )([^{]+) \{$", "if false {"),
    ("if-negate", r"\bif (?!let )([^{]+) \{$", r"if !(\1) {"),
    ("ge->eq", r" >= ", " == "), ("le->eq", r" <= ", " == "), ("eq->ge", r" == (?=\w)", " >= "), ("eq->le", r" == (?=\w)", " <= "),
    ("iter-take1", r"\.iter\(\)", ".iter().take(1)"), ("iter-skip1", r"\.iter\(\)", ".iter().skip(1)"),
    ("pluseq1->2", r" \+= 1\b", " += 2"), ("pluseq->minuseq", r" \+= ", " -= "),
    ("range-incl", r"(?<=[\w)])\.\.(?=[\w(])", "..="), ("range-from1", r"\b0\.\.", "1.."),
    ("drop-rev", r"\.rev\(\)", ""), ("add-rev", r"\.enumerate\(\)", ".rev().enumerate()"),
    ("Var-plus1", r"\bVar\((\w+)\)", r"Var(\1 + 1)"), ("idx-plus1", r"\[(\w+)\]", r"[\1 + 1]"), ("idx-zero", r"\[(\w*[a-z]\w*)\]", "[0]"),
    ("filter->noop", r"\.filter\(\|[^|]*\| ", r".filter(|_| true || "), ("filter_map-some", r"\.unwrap_or\(", ".unwrap_or_default().max("),
    ("clone->default", r"\.clone\(\);$", ".clone(); /*noop*/"),
    ("Ok->Err-ret", r"\bOk\(\(\)\)", "Err(())"),
    ("then-some-none", r"\.then_some\(", ".then_some(()).and(None::<()>).map(|_| "),
    ("unwrap_or_else", r"\.unwrap_or\(true\)", ".unwrap_or(false)"),
    ("len->len-1", r"\.len\(\)(?! [-+=])", ".len().saturating_sub(1)"),
    ("first->last", r"\.first\(\)", ".last()"), ("last->first", r"\.last\(\)", ".first()"),
    ("min_by->max_by", r"\.min_by\(", ".max_by("), ("max_by->min_by", r"\.max_by\(", ".min_by("),
    ("min_by_key->max_by_key", r"\.min_by_key\(", ".max_by_key("), ("max_by_key->min_by_key", r"\.max_by_key\(", ".min_by_key("),
    ("then->else-cmp", r"Ordering::Less", "Ordering::Greater"), ("cmp-swap", r"Ordering::Greater", "Ordering::Less"),
    ("sort->noop", r"\.sort_unstable\(\);", ".len();"), ("dedup-drop", r"\.dedup\(\);", ".len();"),
    ("contains->not", r"(?<!!)(\b[\w.]+\.contains\()", r"!\1"),
    ("insert_one->noop-hash", r"hash_password\(([^,]+), ", r"hash_password(b\"\", "),
]
STMT_DROP3 = re.compile(r"^\s*(\*?[\w.\[\]]+ (=|\+=|-=|\|=|&=) .*;|break;|continue;|return;|return [^;]*;)\s*$")
MASK_STRINGS_EXCEPT = ("find_one->find_one-nofilter",)
STMT_DROP = re.compile(r"^\s*[\w.\[\]*&()]+\.(push|insert|remove|retain|clear|append|extend|send|sort\w*|fix_import|regenerate_indizes|seed|add_ng|pop)\(.*\);\s*$")


def code_lines(path):
    """(lineno, text) of shipped code: stops at the first #[cfg(test)], skips comments, attributes, log lines, use lines"""
    out = []
    in_block_comment = False
    for i, l in enumerate(open(path).read().split("\n"), 1):
        st = l.strip()
        if st.startswith("#[cfg(test)]"):
            break
        if in_block_comment:
            if "*/" in st:
                in_block_comment = False
            continue
        if st.startswith("/*"):
            in_block_comment = "*/" not in st
            continue
        if not st or st.startswith(("//", "#[", "#![", "use ", "pub use ", "log::", "mod ", "pub mod ")):
            continue
        if "log::" in st or "panic!" in st or ".expect(" in st and st.startswith(".expect(") or st.startswith('"'):
            continue
        out.append((i, l))
    return out


def gen(files, out, batch=1):
    global OPS, STMT_DROP
    if batch == 3:
        OPS, STMT_DROP = OPS3, STMT_DROP3
    n = 0
    with open(out, "w") as f:
        for rel in files:
            path = os.path.join(REPO, rel)
            if not os.path.exists(path):
                continue
            lines = code_lines(path)
            # multi-line log macro arguments etc. are filtered by the caller of run (does not compile / no effect)
            for ln, text in lines:
                code = text.split("//")[0]
                # do not touch string literals: mask them
                masked = re.sub(r'"(\\.|[^"\\])*"', lambda m: '"' + "\x00" * (len(m.group(0)) - 2) + '"', code)
                for name, rx, repl in OPS:
                    for m in re.finditer(rx, code if name in MASK_STRINGS_EXCEPT else masked):
                        new = code[:m.start()] + re.sub(rx, repl, code[m.start():m.end()]) + code[m.end():] + text[len(code):]
                        if new == text:
                            continue
                        f.write(json.dumps({"id": "%s:%d:%s:%d" % (rel, ln, name, m.start()), "file": rel, "line": ln, "op": name, "old": text, "new": new}) + "\n")
                        n += 1
                if STMT_DROP.match(code):
                    f.write(json.dumps({"id": "%s:%d:drop-stmt:0" % (rel, ln), "file": rel, "line": ln, "op": "drop-stmt", "old": text, "new": re.match(r"^\s*", text).group(0) + "// " + text.strip()}) + "\n")
                    n += 1
    print("generated %d mutants -> %s" % (n, out))


def sh(cmd, cwd, env=None, timeout=1200):
    try:
        r = subprocess.run(cmd, shell=True, cwd=cwd, text=True, stdout=subprocess.PIPE, stderr=subprocess.STDOUT, env=env, timeout=timeout)
        return r.returncode, r.stdout
    except subprocess.TimeoutExpired as e:
        return 124, (e.stdout or "") if isinstance(e.stdout, str) else ""


class Worker:
    def __init__(self, k, scratch):
        self.k = k
        self.wt = os.path.join(scratch, "wt-%d" % k)
        self.env = dict(os.environ, CARGO_NET_OFFLINE="true", VCHECK_REPO=self.wt, VCHECK_WORK=os.path.join(scratch, "vwork-%d" % k), VCHECK_OUT=os.path.join(scratch, "vout-%d" % k))
        if not os.path.isdir(self.wt):
            rc, o = sh("git -C %s worktree add --detach %s HEAD -q" % (REPO, self.wt), "/")
            assert rc == 0, o

    def run(self, m, props):
        path = os.path.join(self.wt, m["file"])
        sh("git checkout -- .", self.wt)
        src = open(path).read().split("\n")
        if src[m["line"] - 1] != m["old"]:
            return dict(m, outcome="anchor-mismatch")
        src[m["line"] - 1] = m["new"]
        open(path, "w").write("\n".join(src))
        try:
            server = m["file"].startswith("server/")
            if server:
                rc, o = sh("cargo check -p adf-bdd-server --offline 2>&1", self.wt, self.env)
                if rc != 0:
                    return dict(m, outcome="build-fail")
            else:
                rc, o = sh("cargo test -p adf_bdd --lib --offline 2>&1", self.wt, self.env, timeout=600)
                if rc != 0:
                    return dict(m, outcome="build-fail" if "error[" in o or "error:" in o and "test result" not in o else ("test-timeout" if rc == 124 else "killed-by-tests"))
                rc, o = sh("cargo test -p adf-bdd-bin --offline 2>&1", self.wt, self.env, timeout=900)
                if rc != 0:
                    return dict(m, outcome="build-fail" if "test result" not in o and rc != 124 else ("test-timeout" if rc == 124 else "killed-by-tests"))
                if m["file"].startswith("lib/"):
                    rc, o = sh("cargo check -p adf-bdd-server --offline 2>&1", self.wt, self.env)
                    if rc != 0:
                        return dict(m, outcome="build-fail")
            fired = []
            for p in props:
                rc, o = sh("./vcheck %s --tier quick" % p, VERIF, self.env, timeout=900)
                if ("VIOLATION property=%s" % p) in o:
                    heads = [l.strip() for l in o.splitlines() if l.strip().startswith(("REFUTED", "ANCHOR", "FLOOR", "UNREVIEWED", "CANNOT", "ENGINE"))]
                    fired.append((p, heads[:2]))
                elif "fact generation failed" in o:
                    return dict(m, outcome="factgen-fail")
            return dict(m, outcome="reported" if fired else "SILENT", fired=[p for p, h in fired], heads={p: h for p, h in fired})
        finally:
            sh("git checkout -- .", self.wt)


PROPS_FOR = {
    "lib/": ["C01", "C02", "C03", "C04", "C05", "C06", "C07", "C08", "C09", "C10", "C11", "C12", "C13", "C14", "C18", "C19", "C20"],
    "bin/": ["C08", "C10", "C12", "C14", "C15"],
    "server/": ["C08", "C14", "C16", "C17"],
}


def run(args):
    scratch = args.scratch
    os.makedirs(scratch, exist_ok=True)
    muts = [json.loads(l) for l in open(os.path.join(scratch, args.mutants))]
    done = set()
    res_path = os.path.join(scratch, args.results)
    if os.path.exists(res_path):
        for l in open(res_path):
            done.add(json.loads(l)["id"])
    todo = [m for m in muts if m["id"] not in done and (not args.match or any(s in m["id"] for s in args.match))]
    if args.limit:
        todo = todo[:args.limit]
    print("%d mutants to run (%d done before)" % (len(todo), len(done)))
    # the checks run from a snapshot of /verif taken now, so that rules can be edited while the sweep is running
    global VERIF
    snap = os.path.join(scratch, "verif-snapshot")
    rc, o = sh("rsync -a --delete --exclude work --exclude .git --exclude evidence --exclude reports --exclude seeded --exclude 'factgen/target/release/build' "
               "--exclude 'factgen/target/release/deps' --exclude 'factgen/target/release/incremental' --exclude 'factgen/target/release/.fingerprint' --exclude witness %s/ %s/" % (VERIF, snap), "/")
    assert rc == 0, o
    VERIF = snap
    workers = [Worker(k, scratch) for k in range(args.workers)]
    free = list(workers)
    lock = threading.Lock()
    out = open(res_path, "a")

    def job(m):
        with lock:
            w = free.pop()
        try:
            props = [p for pre, ps in PROPS_FOR.items() if m["file"].startswith(pre) for p in ps]
            r = w.run(m, props)
        except Exception as e:  # noqa
            r = dict(m, outcome="error", error=str(e))
        finally:
            with lock:
                free.append(w)
        with lock:
            out.write(json.dumps(r) + "\n")
            out.flush()
            print("%-60s %-16s %s" % (r["id"], r["outcome"], " ".join(r.get("fired", []))), flush=True)
        return r

    with concurrent.futures.ThreadPoolExecutor(max_workers=args.workers) as ex:
        list(ex.map(job, todo))


def triage(args):
    """runs the dynamic triage oracle (selftest/triage/oracle.rs; brute-force references on random small inputs) on every SILENT lib survivor:
    oracle fails -> behaviour changed -> a GAP of the static rules; oracle passes -> probably equivalent (or needs inputs the oracle does not generate)"""
    scratch = args.scratch
    res = [json.loads(l) for l in open(os.path.join(scratch, args.results))]
    out_path = os.path.join(scratch, "triage-" + args.results)
    done = set()
    if os.path.exists(out_path):
        done = set(json.loads(l)["id"] for l in open(out_path))
    kinds = ("SILENT", "reported") if args.reported else ("SILENT",)
    todo = [r for r in res if r["outcome"] in kinds and r["file"].startswith("lib/") and r["id"] not in done and (not args.match or any(s in r["id"] for s in args.match))]
    print("%d silent lib survivors to triage" % len(todo))
    workers = [Worker(100 + k, scratch) for k in range(args.workers)]
    free = list(workers)
    lock = threading.Lock()
    out = open(out_path, "a")
    oracle = os.path.join(os.path.dirname(os.path.abspath(__file__)), "triage", "oracle.rs")

    def job(m):
        with lock:
            w = free.pop()
        try:
            sh("git checkout -- . && git clean -fdq -e target", w.wt)
            path = os.path.join(w.wt, m["file"])
            src = open(path).read().split("\n")
            assert src[m["line"] - 1] == m["old"]
            src[m["line"] - 1] = m["new"]
            open(path, "w").write("\n".join(src))
            import shutil
            shutil.copy(oracle, os.path.join(w.wt, "lib", "tests", "triage_oracle.rs"))
            rc, o = sh("cargo test -p adf_bdd --offline --test triage_oracle -- --test-threads 2 2>&1", w.wt, w.env, timeout=900)
            mism = sorted(set(l.split(":")[0].replace("MISMATCH ", "") for l in o.splitlines() if l.startswith("MISMATCH")))
            panics = [l.strip()[:160] for l in o.splitlines() if "panicked at" in l and "triage_oracle.rs" not in l][:3]
            verdict = "oracle-pass" if rc == 0 else ("oracle-timeout" if rc == 124 else "oracle-FAIL")
            r = {"id": m["id"], "outcome": m["outcome"], "fired": m.get("fired", []), "heads": m.get("heads", {}), "verdict": verdict, "mismatch": mism[:12], "panics": panics, "old": m["old"].strip(), "new": m["new"].strip()}
        except Exception as e:  # noqa
            r = {"id": m["id"], "verdict": "error", "error": str(e)}
        finally:
            sh("git checkout -- . && git clean -fdq -e target", w.wt)
            with lock:
                free.append(w)
        with lock:
            out.write(json.dumps(r) + "\n")
            out.flush()
            print("%-60s %-14s %s %s" % (r["id"], r["verdict"], " | ".join(r.get("mismatch", []))[:120], r.get("panics", [])[:1]), flush=True)

    with concurrent.futures.ThreadPoolExecutor(max_workers=args.workers) as ex:
        list(ex.map(job, todo))


def report(args):
    res = [json.loads(l) for l in open(os.path.join(args.scratch, args.results))]
    tri = {}
    tp = os.path.join(VERIF, "selftest", "sweep_triage.json")
    if os.path.exists(tp):
        tri = json.load(open(tp))
    by = {}
    for r in res:
        by.setdefault(r["outcome"], []).append(r)
    for k, v in sorted(by.items()):
        print("%-18s %d" % (k, len(v)))
    print()
    for r in sorted(by.get("SILENT", []), key=lambda r: r["id"]):
        t = tri.get(r["id"], {}).get("verdict", "UNTRIAGED")
        print("%-62s %-12s | %s  =>  %s" % (r["id"], t, r["old"].strip()[:70], r["new"].strip()[:70]))


def main():
    ap = argparse.ArgumentParser()
    ap.add_argument("cmd", choices=["gen", "run", "report", "triage"])
    ap.add_argument("--scratch", default="/tmp/sweep")
    ap.add_argument("--files", nargs="*", default=DEFAULT_FILES)
    ap.add_argument("--workers", type=int, default=4)
    ap.add_argument("--limit", type=int, default=0)
    ap.add_argument("--mutants", default="mutants.jsonl")
    ap.add_argument("--match", nargs="*", default=[])
    ap.add_argument("--batch", type=int, default=1, help="gen: operator batch (1 = original operators, 3 = third batch)")
    ap.add_argument("--results", default="results.jsonl")
    ap.add_argument("--reported", action="store_true", help="triage: also run the oracle on reported mutants (reported + oracle-pass = candidate false alarm)")
    a = ap.parse_args()
    os.makedirs(a.scratch, exist_ok=True)
    if a.cmd == "gen":
        gen(a.files, os.path.join(a.scratch, a.mutants), a.batch)
    elif a.cmd == "run":
        run(a)
    elif a.cmd == "triage":
        triage(a)
    else:
        report(a)


main()
