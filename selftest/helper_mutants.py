#!/usr/bin/env python3
"""A defect inside an extracted helper must still be reported (self-test of mirlib/inline.py, never part of a registered check).

Each case applies a behaviour-preserving 'extract helper' patch of selftest/benign_patches/ to a scratch git worktree of /repo, then breaks the
helper it introduced, and expects the named checks to fire; the same tree without the extra mutation must stay silent.

usage: SELFTEST_REPO=<scratch worktree> helper_mutants.py"""
import os
import subprocess
import sys

VERIF = os.path.dirname(os.path.dirname(os.path.abspath(__file__)))
ONLY = [a for a in sys.argv[1:]]
REPO = os.environ.get("SELFTEST_REPO")
assert REPO and not REPO.startswith(("/repo", "/verif")), "set SELFTEST_REPO to a scratch git worktree of /repo"
ENV = dict(os.environ, VCHECK_REPO=REPO, VCHECK_WORK=REPO.rstrip("/") + "-vwork", VCHECK_OUT=REPO.rstrip("/") + "-vout")
CASES = [
    ("a02", "lib/src/adf.rs", "fn reduct(", "if term.is_truth_value() && !term.is_true() {", "if term.is_truth_value() {", ["C03", "C04", "C05"],
     "the extracted reduct also substitutes true statements"),
    ("a08", "lib/src/adfbiodivine.rs", "fn false_var_list(", "Some((*elem, false))", "Some((*elem, true))", ["C03"],
     "the extracted biodivine reduction list substitutes true"),
    ("a08", "lib/src/adfbiodivine.rs", "fn is_stable(", ".all(|(left, right)| left.cmp_information(right))", ".any(|(left, right)| left.cmp_information(right))", ["C03"],
     "the extracted stability test accepts on one equal position"),
    ("b05", "lib/src/obdd.rs", "fn combine_counts(", "std::cmp::max(lodepth, hidepth) + 1,", "std::cmp::max(lodepth, hidepth),", ["C13", "C12"],
     "the extracted count recurrence loses the +1 of the depth"),
    ("a10", "lib/src/adf.rs", "fn grounded_internal(", "restricted = self.bdd.restrict(restricted, Var(var), term.is_true());", "restricted = self.bdd.restrict(restricted, Var(var), !term.is_true());", ["C01"],
     "loop form of the grounded restriction substitutes the negated value"),
    ("a10", "lib/src/adf.rs", "fn grounded_internal(", "restricted = self.bdd.restrict(restricted, Var(var), term.is_true());", "restricted = self.bdd.restrict(restricted, Var(var + 1), term.is_true());", ["C01"],
     "loop form of the grounded restriction uses a shifted index"),
    ("a10", "lib/src/adf.rs", "fn grounded_internal(", "restricted = self.bdd.restrict(restricted, Var(var), term.is_true());", "restricted = self.bdd.restrict(restricted, Var(var), term.is_true());\n                        break;", ["C01"],
     "loop form of the grounded restriction stops after the first decided entry"),
    ("a10", "lib/src/adf.rs", "fn grounded_internal(", "restricted = self.bdd.restrict(restricted, Var(var), term.is_true());", "restricted = self.bdd.restrict(*ac, Var(var), term.is_true());", ["C01"],
     "loop form of the grounded restriction restarts from the unrestricted condition"),
    ("a10", "lib/src/adf.rs", "fn grounded_internal(", "                if ac.is_truth_value() {\n                    t_vals += 1;\n                }", "                t_vals += 1;", ["C01"],
     "loop form: the progress counter is bumped for every condition"),
    ("c02", "lib/src/parser.rs", "fn binary_connective", "combine(Box::new(lhs), Box::new(rhs))", "combine(Box::new(rhs), Box::new(lhs))", ["C08"],
     "the shared connective parser hands the operands over in swapped order"),
    ("c02", "lib/src/parser.rs", "fn and(", 'AdfParser::binary_connective("and", Formula::And, input)', 'AdfParser::binary_connective("and", Formula::Or, input)', ["C08"],
     "keyword and is wired to the variant Or through the shared helper"),
    ("c02", "lib/src/parser.rs", "fn imp(", 'AdfParser::binary_connective("imp", Formula::Imp, input)', 'AdfParser::binary_connective("impl", Formula::Imp, input)', ["C08"],
     "keyword imp is misspelt in the call of the shared helper"),
    ("c09", "server/src/adf.rs", "fn for_strategy(", "Strategy::Ground => &self.ground,", "Strategy::Ground => &self.complete,", ["C16"],
     "the inlined accessor answers 'already solved' for Ground from the Complete slot"),
    ("c09", "server/src/adf.rs", "fn db_field(", 'Strategy::Stable => "acs_per_strategy.stable",', 'Strategy::Stable => "acs_per_strategy.stable_nogood",', ["C16"],
     "the inlined key table stores Stable results under the StableNogood key"),
    ("b04", "lib/src/obdd/frontend.rs", "fn forward_node(", "send.send(node)", "send.try_send(node)", ["C19"],
     "the extracted relay step uses try_send"),
]


def sh(cmd, cwd=VERIF):
    return subprocess.run(cmd, shell=True, cwd=cwd, text=True, stdout=subprocess.PIPE, stderr=subprocess.STDOUT, env=ENV)


bad = 0
for patch, rel, anchor, old, new, expect, what in CASES:
    if ONLY and patch not in ONLY:
        continue
    sh("git -C %s checkout -- ." % REPO)
    r = sh("git -C %s apply %s" % (REPO, os.path.join(VERIF, "selftest", "benign_patches", patch + ".diff")))
    assert r.returncode == 0, r.stdout
    path = os.path.join(REPO, rel)
    src = open(path).read()
    i = src.index(anchor)
    j = src.index(old, i)
    open(path, "w").write(src[:j] + new + src[j + len(old):])
    out = {}
    for p in expect:
        o = sh("./vcheck %s --tier quick" % p).stdout
        out[p] = "BUILD-FAIL" if "fact generation failed" in o else ("fired" if ("VIOLATION property=%s" % p) in o else "SILENT")
    sh("git -C %s checkout -- ." % REPO)
    ok = all(v == "fired" for v in out.values())
    bad += not ok
    print("HELPER-MUTANT %-4s %-58s %s %s" % (patch, what, "ok  " if ok else "FAIL", out), flush=True)
print("%d cases, %d not as expected" % (len(CASES), bad))
sys.exit(1 if bad else 0)
