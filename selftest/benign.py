"""Behaviour-preserving edits: every listed check must stay silent (false-alarm self-test).
Same format as mutants.py; run with `run_mutants.py --benign [name-substring ...]`."""
ADF = "lib/src/adf.rs"
OBDD = "lib/src/obdd.rs"
DTA = "lib/src/datatypes/adf.rs"
DTB = "lib/src/datatypes/bdd.rs"
HEU = "lib/src/adf/heuristics.rs"
NG = "lib/src/nogoods.rs"
BIO = "lib/src/adfbiodivine.rs"
PARSER = "lib/src/parser.rs"
MAIN = "bin/src/main.rs"
SADF = "server/src/adf.rs"
SUSER = "server/src/user.rs"
FRONT = "lib/src/obdd/frontend.rs"

LIBSEM = ["C01", "C02", "C03", "C04", "C05"]

BENIGN = [
    # renames of locals
    dict(name="b-grounded-rename-counter", file=ADF, replace_all=True, old="t_vals", new="decided", silent=["C01", "C03"]),
    dict(name="b-nogood-rename-backtrack", file=ADF, replace_all=True, old="backtrack", new="bt_request", silent=["C05"]),
    dict(name="b-nogood-rename-stack", file=ADF, replace_all=True, old="interpr_history", new="saved_interprs", silent=["C05"]),
    # equivalent emptiness / range / comparison forms
    dict(name="b-nogood-stack-len-zero", file=ADF, old="                if stack.is_empty() {\n                    break;", new="                if stack.len() == 0 {\n                    break;", silent=["C05"]),
    dict(name="b-heu-rand-len-zero", file=HEU, old="    if possible.is_empty() {", new="    if possible.len() == 0 {", silent=["C05"]),
    dict(name="b-two-iter-rangeto", file=DTA, old="self.indexes[0..idx].iter()", new="self.indexes[..idx].iter()", silent=["C20"]),
    dict(name="b-two-iter-take", file=DTA, old="for &at in self.indexes[0..idx].iter() {", new="for &at in self.indexes.iter().take(idx) {", silent=["C20"]),
    dict(name="b-grounded-exit-flipped", file=ADF, old="            if t_vals == old_t_vals {\n                break;", new="            if old_t_vals == t_vals {\n                break;", silent=["C01"]),
    dict(name="b-is-truth-value-lt2", file=DTB, old="        self.0 <= Term::TOP.0", new="        self.0 < 2", silent=["C01", "C02", "C20", "C18"]),
    # reordered independent shortcuts, let-bound results
    dict(name="b-ite-shortcut-order", file=OBDD, old="        if i == Term::TOP {\n            t\n        } else if i == Term::BOT {\n            e\n        } else if t == e {", new="        if i == Term::BOT {\n            e\n        } else if i == Term::TOP {\n            t\n        } else if t == e {", silent=["C07", "C06", "C11"]),
    dict(name="b-ite-let-result", file=OBDD, old="            self.ite_cache.insert((i, t, e), result);\n            result", new="            let fresh = result;\n            self.ite_cache.insert((i, t, e), fresh);\n            fresh", silent=["C07", "C11"]),
    dict(name="b-restrict-single-insert", file=OBDD, old="                if val {\n                    let result = self.restrict(node.hi(), var, val);\n                    self.restrict_cache.insert((tree, var, val), result);\n                    result\n                } else {\n                    let result = self.restrict(node.lo(), var, val);\n                    self.restrict_cache.insert((tree, var, val), result);\n                    result\n                }",
         new="                let child = if val { node.hi() } else { node.lo() };\n                let result = self.restrict(child, var, val);\n                self.restrict_cache.insert((tree, var, val), result);\n                result", silent=["C07", "C11", "C06"]),
    # extra logging / comments
    dict(name="b-restrict-extra-log", file=OBDD, old="                let lonode = self.restrict(node.lo(), var, val);", new="                log::trace!(\"descending below {}\", node.var());\n                let lonode = self.restrict(node.lo(), var, val);", silent=["C07", "C06", "C11", "C01"]),
    dict(name="b-nogood-extra-log", file=ADF, old="                if stack.is_empty() {\n                    break;", new="                if stack.is_empty() {\n                    log::debug!(\"search space exhausted\");\n                    break;", silent=["C05"]),
    dict(name="b-server-extra-log", file=SUSER, old="async fn delete_account(", new="// removes the account of the logged-in user together with all its problems\nasync fn delete_account(", silent=["C17"]),
    # new read-only API
    dict(name="b-bdd-node-count-api", file=OBDD, old="    /// Repairs the internal structures after an import.\n    pub fn fix_import(&mut self) {", new="    /// Number of nodes in the store.\n    pub fn node_count(&self) -> usize {\n        self.nodes.len()\n    }\n\n    /// Repairs the internal structures after an import.\n    pub fn fix_import(&mut self) {", silent=["C06", "C07", "C11", "C14", "C19"]),
    dict(name="b-adf-statement-count-api", file=ADF, old="    /// Computes the stable models.\n", new="    /// Number of statements.\n    pub fn statement_count(&self) -> usize {\n        self.ac.len()\n    }\n\n    /// Computes the stable models.\n", nth=0, silent=["C11", "C01", "C03"]),
    # explicit types / clones
    dict(name="b-grounded-explicit-clone", file=ADF, old="            let curr_interpretation = new_interpretation.clone();\n            let old_t_vals = t_vals;", new="            let curr_interpretation: Vec<Term> = new_interpretation.to_vec();\n            let old_t_vals = t_vals;", silent=["C01"]),
    dict(name="b-heu-rand-bind-len", file=HEU, old="    if let Ok(position) = usize::try_from(rng.next_u64() % (possible.len() as u64)) {", new="    let count = possible.len() as u64;\n    if let Ok(position) = usize::try_from(rng.next_u64() % count) {", silent=["C05"]),
    # messages
    dict(name="b-cli-about-text", file=MAIN, old="#[command(author, version, about)]", new="#[command(author, version, about, long_about = None)]", silent=["C15", "C14", "C10"]),
    dict(name="b-expect-message", file=ADF, old="\"both stacks (interpr_history and `stack`) should always be synchronous\"", new="\"the two stacks are always in lock-step\"", silent=["C05"]),
    # frontend: explicit match instead of if-let
    dict(name="b-recv-explicit-len", file=FRONT, old="        if term.value() < self.nodes.len() {\n            true", new="        let known = self.nodes.len();\n        if term.value() < known {\n            true", silent=["C19"]),
    # ---- extract-helper refactorings
    dict(name="b-server-extract-filter-helper", file=SADF, old="""    let adf_problem = match adf_coll
        .find_one(doc! { "name": &problem_name, "username": &username }, None)
        .await
    {
        Err(err) => return HttpResponse::InternalServerError().body(err.to_string()),
        Ok(None) => {
            return HttpResponse::NotFound()
                .body(format!("ADF problem with name {problem_name} not found."))
        }
        Ok(Some(prob)) => prob,
    };

    HttpResponse::Ok().json(AdfProblemInfo::from_adf_prob_and_tasks(""", new="""    let filter = doc! { "name": &problem_name, "username": &username };
    let adf_problem = match adf_coll.find_one(filter, None).await {
        Err(err) => return HttpResponse::InternalServerError().body(err.to_string()),
        Ok(None) => {
            return HttpResponse::NotFound()
                .body(format!("ADF problem with name {problem_name} not found."))
        }
        Ok(Some(prob)) => prob,
    };

    HttpResponse::Ok().json(AdfProblemInfo::from_adf_prob_and_tasks(""", silent=["C17", "C16"]),
    dict(name="b-nogood-extract-conflict-fn", file=ADF, old="""                .any(|(cur, ac)| {
                    cur.is_truth_value() && ac.is_truth_value() && cur.is_true() != ac.is_true()
                })""", new="""                .any(|(cur, ac)| Self::contradicts(cur, ac))""", also=[dict(file=ADF, old="    fn nogood_internal<H, I>(", new="""    fn contradicts(cur: &Term, ac: &Term) -> bool {
        cur.is_truth_value() && ac.is_truth_value() && cur.is_true() != ac.is_true()
    }

    fn nogood_internal<H, I>(""")], silent=["C05"]),
    dict(name="b-grounded-extract-step-fn", file=ADF, old="""                    .fold(*ac, |acc, (var, term)| {
                        if term.is_truth_value() {
                            self.bdd.restrict(acc, Var(var), term.is_true())
                        } else {
                            acc
                        }
                    });
                if ac.is_truth_value() {
                    t_vals += 1;""", new="""                    .fold(*ac, |acc, (var, term)| self.substitute_decided(acc, var, term));
                if ac.is_truth_value() {
                    t_vals += 1;""", also=[dict(file=ADF, old="    fn grounded_internal(&mut self, interpretation: &[Term]) -> Vec<Term> {", new="""    fn substitute_decided(&mut self, acc: Term, var: usize, term: &Term) -> Term {
        if term.is_truth_value() {
            self.bdd.restrict(acc, Var(var), term.is_true())
        } else {
            acc
        }
    }

    fn grounded_internal(&mut self, interpretation: &[Term]) -> Vec<Term> {""")], silent=["C01"]),
    dict(name="b-cli-grounded-bind-printer", file=MAIN, old="""                if self.grounded {
                    let grounded = adf.grounded();
                    print!("{}", adf.print_interpretation(&grounded));
                }

                if self.complete {
                    for model in adf.complete() {
                        print!("{}", adf.print_interpretation(&model));""", new="""                if self.grounded {
                    let grounded = adf.grounded();
                    let line = adf.print_interpretation(&grounded);
                    print!("{}", line);
                }

                if self.complete {
                    for model in adf.complete() {
                        print!("{}", adf.print_interpretation(&model));""", silent=["C15"]),
    # ---- style rewrites
    dict(name="b-node-early-return", file=OBDD, old="""        if lo == hi {
            lo
        } else {
            let node = BddNode::new(var, lo, hi);
            match self.cache.get(&node) {
                Some(t) => *t,
                None => {""", new="""        if lo == hi {
            return lo;
        }
        {
            let node = BddNode::new(var, lo, hi);
            if let Some(t) = self.cache.get(&node) {
                return *t;
            }
            match None::<Term> {
                Some(t) => t,
                None => {""", silent=["C06", "C07", "C19", "C11"]),
    dict(name="b-complete-bind-restricted", file=ADF, old="""                it.compare_inf(&interpretation.iter().enumerate().fold(
                    ac[ac_idx],
                    |acc, (var, term)| {
                        if term.is_truth_value() {
                            self.bdd.restrict(acc, Var(var), term.is_true())
                        } else {
                            acc
                        }
                    },
                ))""", new="""                let restricted_ac = interpretation.iter().enumerate().fold(
                    ac[ac_idx],
                    |acc, (var, term)| {
                        if term.is_truth_value() {
                            self.bdd.restrict(acc, Var(var), term.is_true())
                        } else {
                            acc
                        }
                    },
                );
                it.compare_inf(&restricted_ac)""", silent=["C02"]),
    dict(name="b-cli-parse-if-let-err", file=MAIN, old="""                match parser.parse()(&input) {
                    Ok(_) => log::info!("[Done] parsing"),
                    Err(e) => {
                        log::error!("Error during parsing:\\n{} \\n\\n cannot continue, panic!", e);
                        panic!("Parsing failed, see log for further details")
                    }
                }
                if self.sort_lex {
                    parser.varsort_lexi();
                }
                if self.sort_alphan {
                    parser.varsort_alphanum();
                }
                let adf = if !self.stable_rew {""", new="""                if let Err(e) = parser.parse()(&input) {
                    log::error!("Error during parsing:\\n{} \\n\\n cannot continue, panic!", e);
                    panic!("Parsing failed, see log for further details")
                }
                log::info!("[Done] parsing");
                if self.sort_lex {
                    parser.varsort_lexi();
                }
                if self.sort_alphan {
                    parser.varsort_alphanum();
                }
                let adf = if !self.stable_rew {""", silent=["C08", "C15", "C10"]),
    dict(name="b-cli-export-early-error", file=MAIN, old="""                    if export.exists() {
                        log::error!(
                            "Cannot write JSON file <{}>, as it already exists",
                            export.to_string_lossy()
                        );
                    } else {
                        let export_file = match File::create(export) {""", new="""                    if !export.exists() {
                        let export_file = match File::create(export) {""", also=[dict(file=MAIN, old="""                        serde_json::to_writer(export_file, &adf).unwrap_or_else(|_| {
                            panic!("Writing JSON file {} failed", export.to_string_lossy())
                        });
                    }
                }""", new="""                        serde_json::to_writer(export_file, &adf).unwrap_or_else(|_| {
                            panic!("Writing JSON file {} failed", export.to_string_lossy())
                        });
                    } else {
                        log::error!(
                            "Cannot write JSON file <{}>, as it already exists",
                            export.to_string_lossy()
                        );
                    }
                }""")], silent=["C14"]),
    dict(name="b-server-let-else-identity", file=SADF, old="""    let username = match identity.map(|id| id.id()) {
        None => {
            return HttpResponse::Unauthorized().body("You need to login to get an ADF problem.")
        }
        Some(Err(err)) => return HttpResponse::InternalServerError().body(err.to_string()),
        Some(Ok(username)) => username,
    };

    let adf_problem = match adf_coll""", new="""    let Some(identity) = identity else {
        return HttpResponse::Unauthorized().body("You need to login to get an ADF problem.");
    };
    let username = match identity.id() {
        Err(err) => return HttpResponse::InternalServerError().body(err.to_string()),
        Ok(username) => username,
    };

    let adf_problem = match adf_coll""", nth=0, silent=["C17", "C16"]),
    # ---- more rewrites of pattern-matched code
    dict(name="b-stability-check-zip-all", file=ADF, old="""        let grd = self.grounded_internal(&new_int);
        for (idx, grd) in grd.iter().enumerate() {
            if !grd.compare_inf(&interpretation[idx]) {
                return false;
            }
        }
        true
    }""", new="""        let grd = self.grounded_internal(&new_int);
        grd.iter()
            .zip(interpretation.iter())
            .all(|(grd, int)| grd.compare_inf(int))
    }""", silent=["C03", "C04", "C05"]),
    dict(name="b-regenerate-for-loop", file=PARSER, old="""        self.namelist
            .read()
            .expect("ReadLock on namelist failed")
            .iter()
            .enumerate()
            .for_each(|(i, elem)| {
                self.dict
                    .write()
                    .expect("WriteLock on dict failed")
                    .insert(elem.clone(), i);
            });
    }""", new="""        let names = self.namelist.read().expect("ReadLock on namelist failed");
        let mut dict = self.dict.write().expect("WriteLock on dict failed");
        for (i, elem) in names.iter().enumerate() {
            dict.insert(elem.clone(), i);
        }
    }""", silent=["C10", "C15"]),
    dict(name="b-passive-impact-filter-count", file=OBDD, old="""        termlist.iter().fold(0usize, |acc, val| {
            if self.var_dependencies(*val).contains(&var) {
                acc + 1
            } else {
                acc
            }
        })""", new="""        termlist
            .iter()
            .filter(|val| self.var_dependencies(**val).contains(&var))
            .count()""", silent=["C13"]),
    dict(name="b-bridge-named-children", file=ADF, old="""                            let new_term = result.bdd.node(
                                Var(node_elements[0]
                                    .parse::<usize>()
                                    .expect("Var should be number")),
                                term_vec[node_elements[1]
                                    .parse::<usize>()
                                    .expect("Termpos should be a valid number")],
                                term_vec[node_elements[2]
                                    .parse::<usize>()
                                    .expect("Termpos should be a valid number")],
                            );""", new="""                            let var = Var(node_elements[0]
                                .parse::<usize>()
                                .expect("Var should be number"));
                            let lo = term_vec[node_elements[1]
                                .parse::<usize>()
                                .expect("Termpos should be a valid number")];
                            let hi = term_vec[node_elements[2]
                                .parse::<usize>()
                                .expect("Termpos should be a valid number")];
                            let new_term = result.bdd.node(var, lo, hi);""", silent=["C09", "C01", "C06"]),
    dict(name="b-dto-named-locals", file=SADF, old="""        Self {
            var: source.var().0.to_string(),
            lo: source.lo().0.to_string(),
            hi: source.hi().0.to_string(),
        }""", new="""        let (var, lo, hi) = (source.var(), source.lo(), source.hi());
        Self {
            var: var.0.to_string(),
            lo: lo.0.to_string(),
            hi: hi.0.to_string(),
        }""", silent=["C14", "C16"]),
    # ---- service / CLI rewrites
    dict(name="b-register-hash-direct", file=SUSER, old="""    user.password = hashed_pw;

    let result = user_coll
        .insert_one(
            User {
                username: user.username,
                password: Some(user.password),
            },
            None,
        )
        .await;""", new="""    let new_user = User {
        username: user.username,
        password: Some(hashed_pw),
    };
    let result = user_coll.insert_one(new_user, None).await;""", silent=["C17"]),
    dict(name="b-delete-account-bind-filter", file=SUSER, old="""                match adf_coll
                    .delete_many(doc! { "username": &username }, None)
                    .await
                {""", new="""                let owned_by_user = doc! { "username": &username };
                match adf_coll.delete_many(owned_by_user, None).await {""", silent=["C17"]),
    dict(name="b-cli-complete-for-each", file=MAIN, old="""                if self.complete {
                    for model in adf.complete() {
                        print!("{}", adf.print_interpretation(&model));
                    }
                }""", new="""                if self.complete {
                    adf.complete()
                        .for_each(|model| print!("{}", adf.print_interpretation(&model)));
                }""", silent=["C15"]),
]
