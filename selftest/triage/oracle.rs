//! TRIAGE ORACLE - not part of any registered check.
//!
//! Dropped into `lib/tests/` of a *scratch* worktree (never /repo) to decide whether a silent surviving mutant of the
//! mutation sweep changes observable behaviour (a gap of the static rules) or is equivalent.  It compares the library
//! with brute-force references computed from the definitions on random small inputs.  Deterministic (xorshift).
//! Usage: cp oracle.rs <wt>/lib/tests/triage_oracle.rs && cargo test -p adf_bdd --offline --test triage_oracle -- --nocapture
use adf_bdd::adf::heuristics::Heuristic;
use adf_bdd::adf::Adf;
use adf_bdd::adfbiodivine::Adf as BdAdf;
use adf_bdd::datatypes::{Term, Var};
use adf_bdd::nogoods::{NoGood, NoGoodStore};
use adf_bdd::obdd::Bdd;
use adf_bdd::parser::AdfParser;
use std::collections::{BTreeMap, BTreeSet};

struct Rng(u64);
impl Rng {
    fn next(&mut self) -> u64 {
        self.0 ^= self.0 << 13;
        self.0 ^= self.0 >> 7;
        self.0 ^= self.0 << 17;
        self.0
    }
    fn below(&mut self, n: u64) -> u64 {
        self.next() % n
    }
}

#[derive(Clone, Debug)]
enum F {
    V(usize),
    Top,
    Bot,
    Not(Box<F>),
    And(Box<F>, Box<F>),
    Or(Box<F>, Box<F>),
    Imp(Box<F>, Box<F>),
    Xor(Box<F>, Box<F>),
    Iff(Box<F>, Box<F>),
}
impl F {
    fn gen(r: &mut Rng, n: usize, d: usize) -> F {
        let k = if d == 0 { r.below(4) } else { r.below(11) };
        let b = |r: &mut Rng| Box::new(F::gen(r, n, d.saturating_sub(1)));
        match k {
            0 | 1 | 2 => F::V(r.below(n as u64) as usize),
            3 => {
                if r.below(3) == 0 {
                    if r.below(2) == 0 {
                        F::Top
                    } else {
                        F::Bot
                    }
                } else {
                    F::Not(Box::new(F::V(r.below(n as u64) as usize)))
                }
            }
            4 => F::Not(b(r)),
            5 | 6 => F::And(b(r), b(r)),
            7 => F::Or(b(r), b(r)),
            8 => F::Imp(b(r), b(r)),
            9 => F::Xor(b(r), b(r)),
            _ => F::Iff(b(r), b(r)),
        }
    }
    fn eval(&self, a: &[bool]) -> bool {
        match self {
            F::V(i) => a[*i],
            F::Top => true,
            F::Bot => false,
            F::Not(x) => !x.eval(a),
            F::And(x, y) => x.eval(a) && y.eval(a),
            F::Or(x, y) => x.eval(a) || y.eval(a),
            F::Imp(x, y) => !x.eval(a) || y.eval(a),
            F::Xor(x, y) => x.eval(a) != y.eval(a),
            F::Iff(x, y) => x.eval(a) == y.eval(a),
        }
    }
    fn text(&self, names: &[String]) -> String {
        match self {
            F::V(i) => names[*i].clone(),
            F::Top => "c(v)".into(),
            F::Bot => "c(f)".into(),
            F::Not(x) => format!("neg({})", x.text(names)),
            F::And(x, y) => format!("and({},{})", x.text(names), y.text(names)),
            F::Or(x, y) => format!("or({},{})", x.text(names), y.text(names)),
            F::Imp(x, y) => format!("imp({},{})", x.text(names), y.text(names)),
            F::Xor(x, y) => format!("xor({},{})", x.text(names), y.text(names)),
            F::Iff(x, y) => format!("iff({},{})", x.text(names), y.text(names)),
        }
    }
    fn build(&self, b: &mut Bdd) -> Term {
        match self {
            F::V(i) => b.variable(Var(*i)),
            F::Top => Bdd::constant(true),
            F::Bot => Bdd::constant(false),
            F::Not(x) => {
                let t = x.build(b);
                b.not(t)
            }
            F::And(x, y) => {
                let (s, t) = (x.build(b), y.build(b));
                b.and(s, t)
            }
            F::Or(x, y) => {
                let (s, t) = (x.build(b), y.build(b));
                b.or(s, t)
            }
            F::Imp(x, y) => {
                let (s, t) = (x.build(b), y.build(b));
                b.imp(s, t)
            }
            F::Xor(x, y) => {
                let (s, t) = (x.build(b), y.build(b));
                b.xor(s, t)
            }
            F::Iff(x, y) => {
                let (s, t) = (x.build(b), y.build(b));
                b.iff(s, t)
            }
        }
    }
}

// three-valued values: 0 = false, 1 = true, 2 = undecided
type I3 = Vec<u8>;

fn completions(v: &I3) -> Vec<Vec<bool>> {
    let und: Vec<usize> = (0..v.len()).filter(|i| v[*i] == 2).collect();
    let mut out = Vec::new();
    for m in 0..(1u32 << und.len()) {
        let mut a: Vec<bool> = v.iter().map(|x| *x == 1).collect();
        for (k, i) in und.iter().enumerate() {
            a[*i] = (m >> k) & 1 == 1;
        }
        out.push(a);
    }
    out
}
fn gamma(acs: &[F], v: &I3) -> I3 {
    let comps = completions(v);
    acs.iter()
        .map(|f| {
            let t = comps.iter().filter(|a| f.eval(a)).count();
            if t == comps.len() {
                1
            } else if t == 0 {
                0
            } else {
                2
            }
        })
        .collect()
}
fn lfp(acs: &[F]) -> I3 {
    let mut v: I3 = vec![2; acs.len()];
    loop {
        let g = gamma(acs, &v);
        // monotone from below: keep decided
        let n: I3 = v.iter().zip(g.iter()).map(|(a, b)| if *a == 2 { *b } else { *a }).collect();
        if n == v {
            return v;
        }
        v = n;
    }
}
fn all3(n: usize) -> Vec<I3> {
    let mut out = vec![vec![]];
    for _ in 0..n {
        out = out.into_iter().flat_map(|p: I3| (0..3u8).map(move |d| { let mut q = p.clone(); q.push(d); q })).collect();
    }
    out
}
fn subst_false(f: &F, falses: &[bool]) -> F {
    match f {
        F::V(i) => if falses[*i] { F::Bot } else { F::V(*i) },
        F::Top => F::Top,
        F::Bot => F::Bot,
        F::Not(x) => F::Not(Box::new(subst_false(x, falses))),
        F::And(x, y) => F::And(Box::new(subst_false(x, falses)), Box::new(subst_false(y, falses))),
        F::Or(x, y) => F::Or(Box::new(subst_false(x, falses)), Box::new(subst_false(y, falses))),
        F::Imp(x, y) => F::Imp(Box::new(subst_false(x, falses)), Box::new(subst_false(y, falses))),
        F::Xor(x, y) => F::Xor(Box::new(subst_false(x, falses)), Box::new(subst_false(y, falses))),
        F::Iff(x, y) => F::Iff(Box::new(subst_false(x, falses)), Box::new(subst_false(y, falses))),
    }
}
struct Reference {
    grounded: I3,
    complete: BTreeSet<I3>,
    twoval: BTreeSet<I3>,
    stable: BTreeSet<I3>,
}
fn reference(acs: &[F]) -> Reference {
    let n = acs.len();
    let grounded = lfp(acs);
    let mut complete = BTreeSet::new();
    let mut twoval = BTreeSet::new();
    let mut stable = BTreeSet::new();
    for v in all3(n) {
        if gamma(acs, &v) == v {
            complete.insert(v.clone());
            if v.iter().all(|x| *x != 2) {
                twoval.insert(v.clone());
                let falses: Vec<bool> = v.iter().map(|x| *x == 0).collect();
                let red: Vec<F> = acs.iter().map(|f| subst_false(f, &falses)).collect();
                let g = lfp(&red);
                if (0..n).all(|i| v[i] != 1 || g[i] == 1) {
                    stable.insert(v);
                }
            }
        }
    }
    Reference { grounded, complete, twoval, stable }
}
fn conv(v: &[Term]) -> I3 {
    v.iter().map(|t| if *t == Term::BOT { 0 } else if *t == Term::TOP { 1 } else { 2 }).collect()
}

#[derive(Default)]
struct Tally {
    bad: BTreeMap<String, (usize, String)>,
    checked: usize,
}
impl Tally {
    fn check(&mut self, what: &str, ok: bool, detail: impl FnOnce() -> String) {
        self.checked += 1;
        if !ok {
            let e = self.bad.entry(what.to_string()).or_insert((0, String::new()));
            e.0 += 1;
            if e.1.is_empty() {
                e.1 = detail();
            }
        }
    }
    fn set_eq(&mut self, what: &str, got: Vec<Vec<Term>>, want: &BTreeSet<I3>, input: &str) {
        let n = got.len();
        let s: BTreeSet<I3> = got.iter().map(|v| conv(v)).collect();
        self.check(what, &s == want && n == want.len(), || format!("{input}\n   want {want:?}\n   got  {s:?} ({n} items)"));
    }
    fn finish(&self, name: &str) {
        println!("[{name}] {} comparisons, {} categories with mismatches", self.checked, self.bad.len());
        for (k, (n, d)) in &self.bad {
            println!("MISMATCH {k}: {n} times; first: {d}");
        }
        assert!(self.bad.is_empty(), "behaviour differs from the definition");
    }
}

fn adf_text(r: &mut Rng, ns: usize, shuffle: bool) -> (String, Vec<F>, Vec<String>) {
    let names: Vec<String> = (0..ns).map(|i| format!("x{i}")).collect();
    let acs: Vec<F> = (0..ns).map(|_| { let d = r.below(3) as usize + 1; F::gen(r, ns, d) }).collect();
    let mut input = String::new();
    for n in &names {
        input += &format!("s({n}).");
    }
    let mut order: Vec<usize> = (0..ns).collect();
    if shuffle {
        for i in (1..ns).rev() {
            let j = r.below(i as u64 + 1) as usize;
            order.swap(i, j);
        }
    }
    for i in order {
        input += &format!("ac({},{}).", names[i], acs[i].text(&names));
    }
    (input, acs, names)
}

fn with_timeout<T: Send + 'static>(secs: u64, f: impl FnOnce() -> T + Send + 'static) -> Option<T> {
    let (s, r) = std::sync::mpsc::channel();
    std::thread::spawn(move || {
        let _ = s.send(f());
    });
    r.recv_timeout(std::time::Duration::from_secs(secs)).ok()
}

fn rounds(default: usize) -> usize {
    std::env::var("ORACLE_ROUNDS").ok().and_then(|s| s.parse().ok()).unwrap_or(default)
}

#[test]
fn semantics_all_backends() {
    let mut r = Rng(0x9E3779B97F4A7C15);
    let mut t = Tally::default();
    for round in 0..rounds(1500) {
        let ns = 1 + r.below(5) as usize;
        let (input, acs, _names) = adf_text(&mut r, ns, round % 2 == 1);
        let rf = reference(&acs);
        let parser = AdfParser::default();
        parser.parse()(&input).expect("well-formed input must parse");
        // grounded
        let mut adf = Adf::from_parser(&parser);
        t.check("grounded native", conv(&adf.grounded()) == rf.grounded, || format!("{input} want {:?}", rf.grounded));
        let bd = BdAdf::from_parser(&parser);
        t.check("grounded biodivine", conv(&bd.grounded()) == rf.grounded, || format!("{input} want {:?}", rf.grounded));
        t.check("grounded hybrid", conv(&bd.hybrid_step().grounded()) == rf.grounded, || input.clone());
        t.check("grounded hybrid(false)", conv(&bd.hybrid_step_opt(false).grounded()) == rf.grounded, || input.clone());
        t.check("grounded from_biodivine", conv(&Adf::from_biodivine(&bd).grounded()) == rf.grounded, || input.clone());
        // complete
        let mut adf = Adf::from_parser(&parser);
        let c: Vec<Vec<Term>> = adf.complete().collect();
        t.check("complete native first=grounded", c.first().map(|v| conv(v)) == Some(rf.grounded.clone()), || input.clone());
        t.set_eq("complete native", c, &rf.complete, &input);
        let c: Vec<Vec<Term>> = bd.complete().collect();
        t.check("complete biodivine first=grounded", c.first().map(|v| conv(v)) == Some(rf.grounded.clone()), || input.clone());
        t.set_eq("complete biodivine", c, &rf.complete, &input);
        t.set_eq("complete hybrid", bd.hybrid_step().complete().collect(), &rf.complete, &input);
        // stable, enumerate and check
        let mut adf = Adf::from_parser(&parser);
        t.set_eq("stable native", adf.stable().collect(), &rf.stable, &input);
        let mut adf = Adf::from_parser(&parser);
        t.set_eq("stable prefilter", adf.stable_with_prefilter().collect(), &rf.stable, &input);
        t.set_eq("stable biodivine", bd.stable().collect(), &rf.stable, &input);
        t.set_eq("stable biodivine rewriting2", bd.stable_bdd_representation(), &rf.stable, &input);
        let bdr = BdAdf::from_parser_with_stm_rewrite(&parser);
        t.set_eq("stable biodivine rewriting", bdr.stable_bdd_representation(), &rf.stable, &input);
        t.set_eq("stable hybrid", bd.hybrid_step().stable().collect(), &rf.stable, &input);
        let mut h = bd.hybrid_step_opt(false);
        t.set_eq("stable hybrid(false) prefilter", h.stable_with_prefilter().collect(), &rf.stable, &input);
        // counting-guided
        let mut adf = Adf::from_parser(&parser);
        t.set_eq("stable heu_a", adf.stable_count_optimisation_heu_a().collect(), &rf.stable, &input);
        let mut adf = Adf::from_parser(&parser);
        t.set_eq("stable heu_b", adf.stable_count_optimisation_heu_b().collect(), &rf.stable, &input);
        let mut adf = bd.hybrid_step();
        t.set_eq("stable heu_a hybrid", adf.stable_count_optimisation_heu_a().collect(), &rf.stable, &input);
        // nogood learner
        for (hn, heu) in [("simple", Heuristic::Simple), ("mmpv", Heuristic::MinModMinPathsMaxVarImp), ("mmvp", Heuristic::MinModMaxVarImpMinPaths), ("rand", Heuristic::Rand)] {
            let p2 = input.clone();
            let seed = [round as u8; 32];
            let res = with_timeout(20, move || {
                let parser = AdfParser::default();
                parser.parse()(&p2).unwrap();
                let mut adf = Adf::from_parser(&parser);
                adf.seed(seed);
                let st: Vec<Vec<Term>> = adf.stable_nogood(heu).collect();
                let mut adf = Adf::from_parser(&parser);
                adf.seed(seed);
                let (s, rc) = crossbeam_channel::unbounded();
                adf.stable_nogood_channel(heu, s);
                let st2: Vec<Vec<Term>> = rc.iter().collect();
                let mut adf = Adf::from_parser(&parser);
                adf.seed(seed);
                let (s, rc) = crossbeam_channel::unbounded();
                adf.two_val_nogood_channel(heu, s);
                let tv: Vec<Vec<Term>> = rc.iter().collect();
                (st, st2, tv)
            });
            match res {
                None => t.check(&format!("nogood {hn} terminates"), false, || input.clone()),
                Some((st, st2, tv)) => {
                    t.set_eq(&format!("nogood {hn} stable"), st, &rf.stable, &input);
                    t.set_eq(&format!("nogood {hn} stable channel"), st2, &rf.stable, &input);
                    t.set_eq(&format!("nogood {hn} two-valued"), tv, &rf.twoval, &input);
                }
            }
        }
    }
    t.finish("semantics");
}

#[test]
fn statement_less_adf() {
    // the ADF without statements is well-formed: one (empty) interpretation is grounded, complete, two-valued and stable
    let mut t = Tally::default();
    let want: BTreeSet<I3> = [vec![]].into_iter().collect();
    for (hn, heu) in [("simple", Heuristic::Simple), ("mmpv", Heuristic::MinModMinPathsMaxVarImp), ("mmvp", Heuristic::MinModMaxVarImpMinPaths), ("rand", Heuristic::Rand)] {
        let res = with_timeout(10, move || {
            let mut adf = Adf::default();
            let (s, r) = crossbeam_channel::bounded(1000);
            let h = std::thread::spawn(move || r.iter().take(5).collect::<Vec<Vec<Term>>>());
            adf.stable_nogood_channel(heu, s);
            let st = h.join().unwrap();
            let mut adf = Adf::default();
            let (s, r) = crossbeam_channel::bounded(1000);
            let h = std::thread::spawn(move || r.iter().take(5).collect::<Vec<Vec<Term>>>());
            adf.two_val_nogood_channel(heu, s);
            (st, h.join().unwrap())
        });
        match res {
            None => t.check(&format!("empty ADF nogood {hn} terminates"), false, || "Adf::default()".into()),
            Some((st, tv)) => {
                t.set_eq(&format!("empty ADF nogood {hn} stable"), st, &want, "Adf::default()");
                t.set_eq(&format!("empty ADF nogood {hn} two-valued"), tv, &want, "Adf::default()");
            }
        }
    }
    let mut adf = Adf::default();
    t.check("empty ADF grounded", adf.grounded().is_empty(), || String::new());
    t.set_eq("empty ADF complete", adf.complete().collect(), &want, "Adf::default()");
    t.set_eq("empty ADF stable", adf.stable().collect(), &want, "Adf::default()");
    t.set_eq("empty ADF heu_a", adf.stable_count_optimisation_heu_a().collect(), &want, "Adf::default()");
    t.finish("statement-less ADF");
}

fn eval_node(b: &Bdd, t: Term, a: &[bool]) -> bool {
    let mut cur = t;
    loop {
        if cur == Term::TOP {
            return true;
        }
        if cur == Term::BOT {
            return false;
        }
        let n = b.nodes[cur.value()];
        cur = if a[n.var().value()] { n.hi() } else { n.lo() };
    }
}
fn assignments(n: usize) -> Vec<Vec<bool>> {
    (0..(1u32 << n)).map(|m| (0..n).map(|k| (m >> k) & 1 == 1).collect()).collect()
}
fn paths(b: &Bdd, t: Term) -> (usize, usize, usize) {
    // (paths to bot, paths to top, depth)
    if t == Term::TOP {
        return (0, 1, 0);
    }
    if t == Term::BOT {
        return (1, 0, 0);
    }
    let n = b.nodes[t.value()];
    let (a, c, d1) = paths(b, n.lo());
    let (e, f, d2) = paths(b, n.hi());
    (a + e, c + f, d1.max(d2) + 1)
}

#[test]
fn diagrams_counts_cubes() {
    let mut r = Rng(0xD1B54A32D192ED03);
    let mut t = Tally::default();
    let nv = 4;
    for _ in 0..rounds(1500) / 3 {
        let mut b = Bdd::new();
        let mut seen: BTreeMap<Vec<bool>, Term> = BTreeMap::new();
        for k in 0..8 {
            let f = F::gen(&mut r, nv, 3);
            let h = f.build(&mut b);
            let tt: Vec<bool> = assignments(nv).iter().map(|a| f.eval(a)).collect();
            t.check("C07 function of the handle", assignments(nv).iter().all(|a| eval_node(&b, h, a) == f.eval(a)), || format!("{f:?}"));
            if let Some(prev) = seen.get(&tt) {
                t.check("C06 same function same handle", *prev == h, || format!("{f:?} {prev} {h}"));
            }
            for (tt2, h2) in &seen {
                if *tt2 != tt {
                    t.check("C06 different function different handle", *h2 != h, || format!("{f:?}"));
                }
            }
            seen.insert(tt.clone(), h);
            t.check("C06 valid iff TOP", (h == Term::TOP) == tt.iter().all(|x| *x), || format!("{f:?}"));
            t.check("C06 unsat iff BOT", (h == Term::BOT) == tt.iter().all(|x| !*x), || format!("{f:?}"));
            // restrict = cofactor
            let v = r.below(nv as u64) as usize;
            let val = r.below(2) == 1;
            let rh = b.restrict(h, Var(v), val);
            t.check("C07 restrict is the cofactor", assignments(nv).iter().all(|a| { let mut a2 = a.clone(); a2[v] = val; eval_node(&b, rh, a) == f.eval(&a2) }), || format!("{f:?} v{v}={val}"));
            // counts
            let (pb, pt, depth) = paths(&b, h);
            for memo in [true, false] {
                let pc = b.paths(h, memo);
                t.check("C13 paths", (pc.cmodels, pc.models) == (pb, pt), || format!("{f:?} memo={memo} got {pc:?} want ({pb},{pt})"));
                let mc = b.models(h, memo);
                let sat = tt.iter().filter(|x| **x).count();
                let unsat = tt.len() - sat;
                // documented exception: memoised model counts are all zero with ad-hoc path counting but without ad-hoc model counting (the default build)
                let documented_zero = memo && mc.models + mc.cmodels == 0;
                t.check("C13 models ratio", documented_zero || (mc.models * unsat == mc.cmodels * sat && (mc.models + mc.cmodels > 0)), || format!("{f:?} memo={memo} got {mc:?} sat {sat}/{unsat}"));
            }
            t.check("C13 depth", b.max_depth(h) == depth, || format!("{f:?} got {} want {depth}", b.max_depth(h)));
            let deps: BTreeSet<usize> = (0..nv).filter(|v| assignments(nv).iter().any(|a| { let mut a2 = a.clone(); a2[*v] = !a2[*v]; f.eval(a) != f.eval(&a2) })).collect();
            let got: BTreeSet<usize> = b.var_dependencies(h).iter().map(|v| v.value()).collect();
            t.check("C13 support", got == deps, || format!("{f:?} got {got:?} want {deps:?}"));
            // cubes
            if h != Term::TOP && h != Term::BOT {
                for goal in [true, false] {
                    let gv = r.below(nv as u64) as usize;
                    let cubes = b.interpretations(h, goal, Var(gv), &[], &[]);
                    let matches = |a: &Vec<bool>, c: &(Vec<Var>, Vec<Var>)| c.0.iter().all(|v| !a[v.value()]) && c.1.iter().all(|v| a[v.value()]);
                    for a in assignments(nv) {
                        let k2 = cubes.iter().filter(|c| matches(&a, c)).count();
                        t.check("C13 cubes disjoint", k2 <= 1, || format!("{f:?} goal {goal} gv {gv}"));
                        let want = f.eval(&a) == goal && a[gv] == goal;
                        if want {
                            t.check("C13 cubes cover goal models", k2 == 1, || format!("{f:?} goal {goal} gv {gv} a {a:?} cubes {cubes:?}"));
                        }
                        if k2 == 1 {
                            t.check("C13 cubes only goal value", f.eval(&a) == goal, || format!("{f:?} goal {goal} gv {gv} a {a:?}"));
                        }
                    }
                }
            }
            let _ = k;
        }
        // store shape
        for (i, n) in b.nodes.iter().enumerate().skip(2) {
            t.check("C06 reduced", n.lo() != n.hi(), || format!("node {i}"));
            t.check("C06 ordered", [n.lo(), n.hi()].iter().all(|c| c.value() < 2 || b.nodes[c.value()].var() > n.var()), || format!("node {i}"));
            t.check("C06 no duplicates", b.nodes.iter().skip(2).filter(|m| *m == n).count() == 1, || format!("node {i}"));
        }
    }
    t.finish("diagrams");
}

#[test]
fn iterators() {
    use adf_bdd::datatypes::adf::{ThreeValuedInterpretationsIterator, TwoValuedInterpretationsIterator};
    let mut t = Tally::default();
    for len in 0..6usize {
        for code in 0..(3usize.pow(len as u32)) {
            let mut c = code;
            let v: Vec<Term> = (0..len).map(|i| { let d = c % 3; c /= 3; match d { 0 => Term::BOT, 1 => Term::TOP, _ => Term(5 + i) } }).collect();
            let k = v.iter().filter(|x| !x.is_truth_value()).count();
            let two: Vec<Vec<Term>> = TwoValuedInterpretationsIterator::new(&v).collect();
            let set: BTreeSet<Vec<Term>> = two.iter().cloned().collect();
            t.check("C20 two count", two.len() == 1 << k && set.len() == two.len(), || format!("{v:?} {}", two.len()));
            t.check("C20 two completions", two.iter().all(|w| w.len() == len && (0..len).all(|i| if v[i].is_truth_value() { w[i] == v[i] } else { w[i].is_truth_value() })), || format!("{v:?}"));
            let three: Vec<Vec<Term>> = ThreeValuedInterpretationsIterator::new(&v).collect();
            let set3: BTreeSet<Vec<Term>> = three.iter().cloned().collect();
            t.check("C20 three count", three.len() == 3usize.pow(k as u32) && set3.len() == three.len(), || format!("{v:?} {}", three.len()));
            t.check("C20 three first", three.first() == Some(&v), || format!("{v:?}"));
            t.check("C20 three refinements", three.iter().all(|w| (0..len).all(|i| if v[i].is_truth_value() { w[i] == v[i] } else { w[i].is_truth_value() || w[i] == v[i] })), || format!("{v:?}"));
        }
    }
    t.finish("iterators");
}

#[test]
fn nogood_store() {
    use adf_bdd::nogoods::DuplicateElemination;
    let mut r = Rng(0x2545F4914F6CDD1D);
    let mut t = Tally::default();
    let n = 4usize;
    for _ in 0..rounds(1500) {
        for mode in [DuplicateElemination::None, DuplicateElemination::Equiv, DuplicateElemination::Subsume] {
            let mut store = NoGoodStore::new(n as u32);
            store.set_dup_elem(mode);
            let mut added: Vec<Vec<u8>> = Vec::new(); // per position 0/1/2(inactive)
            for _ in 0..(1 + r.below(5)) {
                let ng: Vec<u8> = (0..n).map(|_| match r.below(4) { 0 => 0, 1 => 1, _ => 2 }).collect();
                if ng.iter().all(|x| *x == 2) {
                    continue;
                }
                let tv: Vec<Term> = ng.iter().enumerate().map(|(i, x)| match x { 0 => Term::BOT, 1 => Term::TOP, _ => Term(7 + i) }).collect();
                store.add_ng(NoGood::from_term_vec(&tv));
                added.push(ng);
            }
            let interp: Vec<u8> = (0..n).map(|_| match r.below(3) { 0 => 0, 1 => 1, _ => 2 }).collect();
            let tv: Vec<Term> = interp.iter().enumerate().map(|(i, x)| match x { 0 => Term::BOT, 1 => Term::TOP, _ => Term(7 + i) }).collect();
            // total extensions of interp avoiding all added nogoods
            let und: Vec<usize> = (0..n).filter(|i| interp[*i] == 2).collect();
            let mut exts: Vec<Vec<u8>> = Vec::new();
            for m in 0..(1u32 << und.len()) {
                let mut a = interp.clone();
                for (k, i) in und.iter().enumerate() {
                    a[*i] = ((m >> k) & 1) as u8;
                }
                if added.iter().all(|ng| !(0..n).all(|i| ng[i] == 2 || ng[i] == a[i])) {
                    exts.push(a);
                }
            }
            let matched = added.iter().any(|ng| (0..n).all(|i| ng[i] == 2 || ng[i] == interp[i]));
            match store.conclusions(&NoGood::from_term_vec(&tv)) {
                None => {
                    t.check("C18 conflict only if no extension", exts.is_empty(), || format!("{mode:?} added {added:?} interp {interp:?}"));
                }
                Some(c) => {
                    t.check("C18 conflict when matched", !matched, || format!("{mode:?} added {added:?} interp {interp:?}"));
                    let mut upd = false;
                    let out = c.update_term_vec(&tv, &mut upd);
                    for i in 0..n {
                        if interp[i] != 2 {
                            t.check("C18 keeps decided", out[i] == tv[i], || format!("{mode:?} {added:?} {interp:?}"));
                        } else if out[i].is_truth_value() {
                            let val = if out[i].is_true() { 1 } else { 0 };
                            t.check("C18 conclusions forced", exts.iter().all(|a| a[i] == val), || format!("{mode:?} added {added:?} interp {interp:?} pos {i} -> {val}"));
                        }
                    }
                }
            }
        }
    }
    t.finish("nogood store");
}

#[test]
fn persistence_and_history() {
    let mut r = Rng(0x94D049BB133111EB);
    let mut t = Tally::default();
    for round in 0..rounds(1500) / 5 {
        let ns = 2 + r.below(4) as usize;
        let (input, acs, _n) = adf_text(&mut r, ns, round % 2 == 0);
        let rf = reference(&acs);
        let parser = AdfParser::default();
        parser.parse()(&input).unwrap();
        let mut adf = Adf::from_parser(&parser);
        // history: counts, stable, complete, then grounded again
        let _ = adf.formulacounts(true);
        let _: Vec<_> = adf.stable().collect();
        let _: Vec<_> = adf.complete().collect();
        let _: Vec<_> = adf.stable_count_optimisation_heu_b().collect();
        t.check("C11 grounded after history", conv(&adf.grounded()) == rf.grounded, || input.clone());
        t.set_eq("C11 complete after history", adf.complete().collect(), &rf.complete, &input);
        t.set_eq("C11 stable after history", adf.stable().collect(), &rf.stable, &input);
        // serde round trip
        let json = serde_json::to_string(&adf).unwrap();
        let mut back: Adf = serde_json::from_str(&json).unwrap();
        back.fix_import();
        t.check("C14 nodes identical", back.bdd.nodes == adf.bdd.nodes && back.ac == adf.ac, || input.clone());
        t.check("C14 grounded after import", conv(&back.grounded()) == rf.grounded, || input.clone());
        t.set_eq("C14 complete after import", back.complete().collect(), &rf.complete, &input);
        t.set_eq("C14 stable after import", back.stable().collect(), &rf.stable, &input);
        t.set_eq("C14 heu_a after import", back.stable_count_optimisation_heu_a().collect(), &rf.stable, &input);
        for i in 0..adf.bdd.nodes.len() {
            t.check("C14 counts after import", back.bdd.paths(Term(i), true) == adf.bdd.paths(Term(i), false) && back.bdd.models(Term(i), true) == adf.bdd.models(Term(i), false) && back.bdd.var_dependencies(Term(i)) == adf.bdd.var_dependencies(Term(i)), || input.clone());
        }
        // rebuild from parts
        let mut re = Adf::from((adf.ordering.clone(), Bdd::from(adf.bdd.nodes.clone()), adf.ac.clone()));
        t.check("C14 rebuild nodes identical", re.bdd.nodes == adf.bdd.nodes, || input.clone());
        // continue building on all three stores: the same operations must give the same handles and node tables
        let mut orig = Adf::from_parser(&parser);
        let _ = orig.formulacounts(true);
        let _: Vec<_> = orig.stable().collect();
        let _: Vec<_> = orig.complete().collect();
        let _: Vec<_> = orig.stable_count_optimisation_heu_b().collect();
        let mut back2: Adf = serde_json::from_str(&json).unwrap();
        back2.fix_import();
        let mut re2 = Adf::from((adf.ordering.clone(), Bdd::from(adf.bdd.nodes.clone()), adf.ac.clone()));
        let base_len = adf.bdd.nodes.len();
        for i in 0..ns {
            for j in 0..ns {
                let v = Var((i + j) % ns);
                let mut hs = Vec::new();
                for st in [&mut orig, &mut back2, &mut re2] {
                    let (a, b) = (st.ac[i], st.ac[j]);
                    let x = st.bdd.xor(a, b);
                    let y = st.bdd.restrict(x, v, i < j);
                    let z = st.bdd.imp(y, a);
                    hs.push((x, y, z, st.bdd.var_dependencies(z), st.bdd.paths(z, true)));
                }
                t.check("C14/C06 same handles when building on after import", hs[0] == hs[1], || format!("{input} ac{i} ac{j}"));
                t.check("C14/C06 same handles when building on after rebuild", hs[0] == hs[2], || format!("{input} ac{i} ac{j}"));
            }
        }
        t.check("C14 node tables after building on", orig.bdd.nodes[..base_len] == back2.bdd.nodes[..base_len] && orig.bdd.nodes == back2.bdd.nodes && orig.bdd.nodes == re2.bdd.nodes, || input.clone());
        t.check("C14 grounded after rebuild", conv(&re.grounded()) == rf.grounded, || input.clone());
        t.set_eq("C14 complete after rebuild", re.complete().collect(), &rf.complete, &input);
        t.set_eq("C14 stable after rebuild", re.stable().collect(), &rf.stable, &input);
    }
    t.finish("persistence/history");
}
