"""Single-instance source mutations used as positive fixtures (Appendix B of DESIGN.md)."""
OBDD = "lib/src/obdd.rs"
ADF = "lib/src/adf.rs"
FRONT = "lib/src/obdd/frontend.rs"
SRVADF = "server/src/adf.rs"
MUTANTS = [
    # ---------------- C06 / C19
    dict(name="c06-node-reduction-extra-conjunct", file=OBDD, old="        if lo == hi {\n            lo\n",
         new="        if lo == hi && lo.is_truth_value() {\n            lo\n", expect=["C06"]),
    dict(name="c06-node-handle-after-push", file=OBDD, old="                    let new_term = Term(self.nodes.len());\n                    self.nodes.push(node);\n",
         new="                    self.nodes.push(node);\n                    let new_term = Term(self.nodes.len());\n", expect=["C06"]),
    dict(name="c06-node-cache-other-key", file=OBDD, old="                    self.cache.insert(node, new_term);",
         new="                    self.cache.insert(BddNode::new(var, hi, lo), new_term);", expect=["C06"]),
    dict(name="c06-new-caller-of-node", file=OBDD, old="        self.if_then_else(term, Term::BOT, Term::TOP)\n",
         new="        if term.value() == usize::MAX { return self.node(Var(0), Term::TOP, term); }\n        self.if_then_else(term, Term::BOT, Term::TOP)\n", expect=["C06"]),
    dict(name="c06-server-writes-nodes", file=SRVADF, old="            let mut adf: Adf = simp_adf.into();\n",
         new="            let mut adf: Adf = simp_adf.into();\n            adf.bdd.nodes.dedup();\n", expect=["C06", "C19"]),
    dict(name="c19-send-before-push", file=OBDD, old="                    self.nodes.push(node);\n                    self.cache.insert(node, new_term);\n                    #[cfg(feature = \"frontend\")]\n                    if let Some(send) = &self.sender {\n                        match send.send(node) {\n                            Ok(_) => log::trace!(\"Sent {node} to the channel.\"),\n                            Err(e) => {\n                                log::error!(\"Error {e} occurred when sending {node} to {:?}\", send)\n                            }\n                        }\n                    }\n",
         new="                    #[cfg(feature = \"frontend\")]\n                    if let Some(send) = &self.sender {\n                        match send.send(node) {\n                            Ok(_) => log::trace!(\"Sent {node} to the channel.\"),\n                            Err(e) => {\n                                log::error!(\"Error {e} occurred when sending {node} to {:?}\", send)\n                            }\n                        }\n                    }\n                    self.nodes.push(node);\n                    self.cache.insert(node, new_term);\n", expect=["C19"]),
    dict(name="c19-send-on-hit", file=OBDD, old="                Some(t) => *t,\n",
         new="                Some(t) => {\n                    #[cfg(feature = \"frontend\")]\n                    if let Some(send) = &self.sender {\n                        let _ = send.send(node);\n                    }\n                    *t\n                }\n", expect=["C19"]),
    dict(name="c19-recv-no-forward", file=FRONT, old="                        if let Some(send) = &self.sender {\n                            match send.send(node) {",
         new="                        if let Some(send) = self.sender.as_ref().filter(|_| new_term.value() % 2 == 0) {\n                            match send.send(node) {", expect=["C19"]),
    dict(name="c19-recv-true-on-err", file=FRONT, old="                    Err(_) => return false,", new="                    Err(_) => return term.value() <= self.nodes.len(),", expect=["C19"]),
    dict(name="c19-recv-skips-cache", file=FRONT, old="                        self.cache.insert(node, new_term);\n", new="", expect=["C19", "C06"]),
    dict(name="c19-recv-le", file=FRONT, old="        if term.value() < self.nodes.len() {", new="        if term.value() <= self.nodes.len() {", expect=["C19"]),
    # ---------------- C07
    dict(name="c07-imp-swapped", file=OBDD, old="self.if_then_else(term_a, term_b, Term::TOP)",
         new="self.if_then_else(term_b, term_a, Term::TOP)", expect=["C07"]),
    dict(name="c07-xor-is-iff", file=OBDD, old="self.if_then_else(term_a, not_b, term_b)",
         new="self.if_then_else(term_a, term_b, not_b)", expect=["C07"]),
    dict(name="c07-ite-children-swapped", file=OBDD, old="self.node(minvar, bot_ite, top_ite)",
         new="self.node(minvar, top_ite, bot_ite)", expect=["C07"]),
    dict(name="c07-ite-invalid-shortcut", file=OBDD, old="} else if t == Term::TOP && e == Term::BOT {",
         new="} else if t == Term::BOT && e == Term::TOP {", expect=["C07"]),
    dict(name="c07-restrict-eq-wrong-child", file=OBDD, old="let result = self.restrict(node.hi(), var, val);",
         new="let result = self.restrict(node.lo(), var, val);", expect=["C07"]),
    dict(name="c07-restrict-memo-key", file=OBDD, old="self.restrict_cache.insert((tree, var, val), result);", nth=0,
         new="self.restrict_cache.insert((tree, var, !val), result);", expect=["C07"]),
    dict(name="c07-restrict-ge", file=OBDD, old="if node.var() > var || node.var() >= Var::BOT {",
         new="if node.var() >= var || node.var() >= Var::BOT {", expect=["C07"]),
    dict(name="c07-ite-memo-key", file=OBDD, old="self.ite_cache.get(&(i, t, e))", new="self.ite_cache.get(&(i, e, t))", expect=["C07"]),
    dict(name="c07-ite-min-drops-e", file=OBDD, old="                    self.nodes[e.value()].var().value(),\n",
         new="                    self.nodes[t.value()].var().value(),\n", expect=["C07"]),
    dict(name="c07-ite-cofactor-wrong-polarity", file=OBDD, old="let ebot = self.restrict(e, minvar, false);",
         new="let ebot = self.restrict(e, minvar, true);", expect=["C07"]),
]
