"""Fact generation: runs `cargo +nightly check` on /repo with the factgen driver as
RUSTC_WORKSPACE_WRAPPER, once per (package, feature set) configuration.

Facts are keyed by a content hash of every compilation input under /repo (sources,
manifests, lock file), the driver binary and the toolchain version.  A check that finds
facts for exactly the current content re-uses them; any edit to /repo yields a new key and
therefore a fresh compilation.  Set VCHECK_NO_CACHE=1 to force regeneration.
"""
import fcntl
import hashlib
import os
import shutil
import subprocess
import sys
import time

VERIF = os.path.dirname(os.path.dirname(os.path.abspath(__file__)))
REPO = os.environ.get("VCHECK_REPO", "/repo")
WORK = os.environ.get("VCHECK_WORK") or os.path.join(VERIF, "work")   # VCHECK_WORK: separate cache/target dir for parallel self-test workers
DRIVER = os.path.join(VERIF, "factgen", "target", "release", "factgen")

PKGS = {"lib": "adf_bdd", "bin": "adf-bdd-bin", "server": "adf-bdd-server"}

LIB_FEATURE_SETS = []
for _c in ([], ["adhoccounting"], ["adhoccounting", "adhoccountmodels"]):
    for _v in ([], ["variablelist"]):
        for _f in ([], ["frontend"]):
            LIB_FEATURE_SETS.append(tuple(sorted(_c + _v + _f)))
LIB_DEFAULT = ("adhoccounting", "frontend", "variablelist")


class Config:
    """one cargo invocation: package kind + explicit feature list (None = package default)"""

    def __init__(self, kind, feats=None):
        self.kind = kind
        self.feats = None if feats is None else tuple(sorted(feats))

    @property
    def name(self):
        if self.feats is None:
            return "%s@default" % self.kind
        return "%s@%s" % (self.kind, "+".join(self.feats) if self.feats else "none")

    def cargo_args(self):
        a = ["-p", PKGS[self.kind]]
        if self.feats is not None:
            if self.kind in ("lib", "bin"):
                a.append("--no-default-features")
            if self.feats:
                a += ["--features", ",".join(self.feats)]
        return a

    def __repr__(self):
        return self.name


# quick tier: every cfg arm at least once, and every feature both with and without each of the other two groups it is interleaved with in Bdd::node
# (counting without variablelist/frontend: 3rd; variablelist and frontend without counting: 4th) - a block slipped into a neighbouring cfg region shows
LIB_QUICK = [Config("lib"), Config("lib", []), Config("lib", ["adhoccounting", "adhoccountmodels"]), Config("lib", ["frontend", "variablelist"])]
LIB_ALL = [Config("lib")] + [Config("lib", fs) for fs in LIB_FEATURE_SETS if fs != LIB_DEFAULT]
BIN_QUICK = [Config("bin")]
BIN_ALL = [Config("bin"), Config("bin", []), Config("bin", ["variablelist"]), Config("bin", ["adhoccounting"]),
           Config("bin", ["adhoccounting", "variablelist"])]
SERVER_QUICK = [Config("server")]
SERVER_ALL = [Config("server"), Config("server", ["cors_for_local_development"]),
              Config("server", ["mock_long_computations"]),
              Config("server", ["cors_for_local_development", "mock_long_computations"])]


def _sysroot():
    return subprocess.check_output(["rustc", "+nightly", "--print", "sysroot"], text=True).strip()


_HASH = None


def source_hash():
    """content hash of all compilation inputs"""
    global _HASH
    if _HASH is not None:
        return _HASH
    h = hashlib.sha256()
    roots = ["Cargo.toml", "Cargo.lock", "lib", "bin", "server"]
    files = []
    for r in roots:
        p = os.path.join(REPO, r)
        if os.path.isfile(p):
            files.append(p)
        elif os.path.isdir(p):
            for dp, dn, fn in os.walk(p):
                dn[:] = sorted(d for d in dn if d not in ("target", ".git", "node_modules"))
                for f in sorted(fn):
                    files.append(os.path.join(dp, f))
    for f in sorted(files):
        h.update(os.path.relpath(f, REPO).encode())
        h.update(b"\0")
        try:
            with open(f, "rb") as fh:
                h.update(fh.read())
        except OSError:
            h.update(b"<unreadable>")
        h.update(b"\0")
    try:
        with open(DRIVER, "rb") as fh:
            h.update(hashlib.sha256(fh.read()).digest())
    except OSError:
        pass
    h.update(subprocess.check_output(["rustc", "+nightly", "--version"], text=True).encode())
    _HASH = h.hexdigest()[:20]
    return _HASH


def _prune(keep):
    """remove fact dirs of other source hashes (disk is limited)"""
    base = os.path.join(WORK, "facts")
    if not os.path.isdir(base):
        return
    for d in os.listdir(base):
        if d != keep:
            shutil.rmtree(os.path.join(base, d), ignore_errors=True)


def ensure(config, log=None):
    """returns the directory holding the fact files of `config` for the current tree"""
    if not os.path.exists(DRIVER):
        raise RuntimeError("factgen driver not built; run MANIFEST.setup_cmd (./setup.sh)")
    key = source_hash()
    out = os.path.join(WORK, "facts", key, config.name)
    want = os.path.join(out, PKGS[config.kind] + ".json")
    stamp = os.path.join(out, ".ok")
    os.makedirs(WORK, exist_ok=True)
    lockf = open(os.path.join(WORK, ".lock"), "w")
    fcntl.flock(lockf, fcntl.LOCK_EX)
    try:
        if os.environ.get("VCHECK_NO_CACHE") != "1" and os.path.exists(stamp) and os.path.exists(want):
            return out, {"cached": True, "wall_s": 0.0, "key": key}
        _prune(key)
        shutil.rmtree(out, ignore_errors=True)
        os.makedirs(out)
        target = os.path.join(WORK, "target")
        fp = os.path.join(target, "debug", ".fingerprint")
        if os.path.isdir(fp):
            for d in os.listdir(fp):
                if d.startswith(("adf_bdd-", "adf-bdd-bin-", "adf-bdd-server-")):
                    shutil.rmtree(os.path.join(fp, d), ignore_errors=True)
        env = dict(os.environ)
        env["LD_LIBRARY_PATH"] = _sysroot() + "/lib" + (":" + env["LD_LIBRARY_PATH"] if env.get("LD_LIBRARY_PATH") else "")
        env["RUSTFLAGS"] = "-Zmir-opt-level=0 -Awarnings"
        env["RUSTC_WORKSPACE_WRAPPER"] = DRIVER
        env["FACTGEN_OUT"] = out
        env["CARGO_TARGET_DIR"] = target
        env["CARGO_NET_OFFLINE"] = "true"
        env.pop("RUSTC_WRAPPER", None)
        cmd = ["cargo", "+nightly", "check", "--offline", "--locked"] + config.cargo_args()
        t0 = time.time()
        p = subprocess.run(cmd, cwd=REPO, env=env, stdout=subprocess.PIPE, stderr=subprocess.STDOUT, text=True)
        dt = time.time() - t0
        if p.returncode != 0 or not os.path.exists(want):
            tail = "\n".join(p.stdout.splitlines()[-40:])
            raise RuntimeError("fact generation failed for %s (exit %d):\n%s" % (config.name, p.returncode, tail))
        with open(stamp, "w") as f:
            f.write("%s\n" % " ".join(cmd))
        return out, {"cached": False, "wall_s": round(dt, 2), "key": key}
    finally:
        fcntl.flock(lockf, fcntl.LOCK_UN)
        lockf.close()
