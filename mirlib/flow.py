"""Expression reconstruction by reaching definitions, iterator-chain descriptions,
closure roles and simple provenance queries (E2 of DESIGN.md).

Expressions (tuples):
  ('param', i)                       i-th parameter (1-based local index)
  ('const', value-dict)              constant operand
  ('call', path, trait_path, (args...), bb)   result of a call (path = resolved impl if known)
  ('adt', path, variant, ((field, e),...)) ('tuple', (e...)) ('array', (e...))
  ('closure', def, (captures...))
  ('field', e, name) ('index', e, idx) ('downcast', e, variant)
  ('binop', op, l, r) ('unop', op, e) ('cast', e) ('discr', e)
  ('phi', local, ndefs)              a local with several definitions (loop variable, mutable)
  ('upvar', i, name)                 closure capture i
References, dereferences and re-borrows are transparent (dropped).
"""
import re
from collections import defaultdict

from . import ir

TRANSPARENT_CALLS = (
    "std::ops::Deref::deref", "std::ops::DerefMut::deref_mut",
    "std::convert::AsRef::as_ref", "std::borrow::Borrow::borrow",
    "std::convert::AsMut::as_mut",
)


def sg(p):
    """strip generic arguments from a path"""
    prev = None
    while prev != p:
        prev = p
        p = re.sub(r"<[^<>]*>", "", p)
    return p.replace("::::", "::")


def fname(p):
    """last path segment(s) with generics stripped: 'Iterator::filter'"""
    q = sg(p)
    parts = [x for x in q.split("::") if x]
    return "::".join(parts[-2:]) if len(parts) >= 2 else q


def last(p):
    q = sg(p)
    parts = [x for x in q.split("::") if x]
    return parts[-1] if parts else q


class Defs:
    """definition sites of the locals of one body"""

    def __init__(self, body):
        self.body = body
        self.defs = defaultdict(list)   # local -> [(bb, idx|'term', kind, payload)]
        self.partial = defaultdict(list)  # local -> assignments to projections of the local
        for bb, blk in enumerate(body.blocks):
            for i, s in enumerate(blk["stmts"]):
                if s["k"] == "assign":
                    pl = s["pl"]
                    if not pl["p"]:
                        self.defs[pl["l"]].append((bb, i, "assign", s))
                    else:
                        self.partial[pl["l"]].append((bb, i, "assign", s))
            t = blk["term"]
            if t["k"] == "call":
                pl = t["dest"]
                if not pl["p"]:
                    self.defs[pl["l"]].append((bb, "term", "call", t))
                else:
                    self.partial[pl["l"]].append((bb, "term", "call", t))
            elif t["k"] == "yield":
                pass
        self.upnames = body.upvar_names() if body.kind == "closure" else {}
        self._memo = {}

    def all_defs_exprs(self, l, depth=0):
        """expressions of every full definition of local l (for multiply assigned locals)"""
        out = []
        for bb, idx, kind, payload in self.defs.get(l, []):
            if kind == "assign":
                out.append((bb, self.expr_rvalue(payload["rv"], depth + 1)))
            else:
                out.append((bb, self.expr_call(payload, bb, depth + 1)))
        return out

    def partial_field_defs(self, l, field):
        """assignments `l.field = ..` (first projection is the field): list of (bb, expr)"""
        out = []
        for bb, idx, kind, payload in self.partial.get(l, []):
            pl = payload["pl"] if kind == "assign" else payload["dest"]
            ps = [pe for pe in pl["p"] if pe["k"] != "deref"]
            if len(ps) == 1 and ps[0]["k"] == "field" and ps[0].get("name") == field:
                e = self.expr_rvalue(payload["rv"]) if kind == "assign" else self.expr_call(payload, bb)
                out.append((bb, e))
        return out

    # ------------------------------------------------------------------
    def expr_local(self, l, depth=0):
        if l in self._memo:
            return self._memo[l]
        body = self.body
        if 1 <= l <= body.argc:
            if self.defs[l]:
                e = ("phi", l, len(self.defs[l]) + 1)
            else:
                e = ("param", l)
            self._memo[l] = e
            return e
        ds = self.defs.get(l, [])
        if len(ds) != 1 or depth > 40:
            e = ("phi", l, len(ds))
            self._memo[l] = e
            return e
        self._memo[l] = ("phi", l, -1)  # cycle guard
        bb, idx, kind, payload = ds[0]
        if kind == "assign":
            e = self.expr_rvalue(payload["rv"], depth + 1)
        else:
            e = self.expr_call(payload, bb, depth + 1)
        self._memo[l] = e
        return e

    def expr_call(self, t, bb, depth=0):
        ci = ir.callee_of(t)
        args = tuple(self.expr_operand(a, depth + 1) for a in t["args"])
        if ci is None:
            f = self.expr_operand(t["f"], depth + 1)
            return ("call", "<indirect>", "<indirect>", (f,) + args, bb)
        path = ir.callee_path(ci, True)
        tpath = ci["path"]
        if sg(tpath) in TRANSPARENT_CALLS and args:
            return args[0]
        return ("call", path, tpath, args, bb)

    def expr_place(self, p, depth=0):
        e = self.expr_local(p["l"], depth)
        body = self.body
        for i, pe in enumerate(p["p"]):
            k = pe["k"]
            if k == "deref":
                continue
            if k == "field":
                name = pe["name"] if pe.get("name") is not None else str(pe["i"])
                # closure captures: _1.<i>
                if body.kind == "closure" and p["l"] == 1 and e == ("param", 1):
                    e = ("upvar", pe["i"], self.upnames.get(pe["i"]))
                    continue
                e = field_of(e, name)
            elif k == "index":
                e = ("index", e, self.expr_local(pe["l"], depth + 1))
            elif k == "cindex":
                e = ("index", e, ("const", {"int": pe["i"]}))
            elif k == "downcast":
                e = ("downcast", e, pe.get("variant"))
            elif k == "subslice":
                e = ("subslice", e, pe["from"], pe["to"])
        return e

    def expr_operand(self, o, depth=0):
        k = o["k"]
        if k in ("copy", "move"):
            return self.expr_place(o["pl"], depth)
        if k == "const":
            v = o.get("v")
            if isinstance(v, dict) and "fn" in v:
                f = v["fn"]
                return ("fnitem", ir.callee_path(f, True), f["path"])
            if isinstance(v, dict) and "promoted" in v:
                return self.expr_promoted(v["promoted"])
            return ("const", freeze(v))
        return ("const", None)

    def expr_promoted(self, idx):
        owner = self.body if self.body.promoted_of is None else self.body.promoted_of
        try:
            pb = owner.promoted[idx]
        except IndexError:
            return ("const", None)
        d = Defs(pb)
        return d.expr_local(0)

    def expr_rvalue(self, rv, depth=0):
        k = rv["k"]
        if k == "use":
            return self.expr_operand(rv["o"], depth)
        if k in ("ref", "rawptr"):
            return self.expr_place(rv["pl"], depth)
        if k == "cast":
            e = self.expr_operand(rv["o"], depth)
            if rv["kind"].startswith("PointerCoercion") or rv["kind"] in ("PtrToPtr", "Transmute", "Subtype"):
                return e
            return ("cast", e, rv["kind"])
        if k == "binop":
            return ("binop", rv["op"], self.expr_operand(rv["l"], depth), self.expr_operand(rv["r"], depth))
        if k == "unop":
            return ("unop", rv["op"], self.expr_operand(rv["o"], depth))
        if k == "discriminant":
            return ("discr", self.expr_place(rv["pl"], depth))
        if k == "aggregate":
            kind = rv["kind"]
            ops = tuple(self.expr_operand(o, depth) for o in rv["ops"])
            kk = kind["k"]
            if kk == "tuple":
                return ("tuple", ops)
            if kk == "array":
                return ("array", ops)
            if kk == "adt":
                return ("adt", kind["path"], kind["variant"], tuple(zip(kind["fields"], ops)))
            if kk in ("closure", "coroutine", "coroutineclosure"):
                return ("closure", kind["def"], ops)
            return ("agg", kk, ops)
        if k == "repeat":
            return ("repeat", self.expr_operand(rv["o"], depth))
        return ("other", rv.get("s", k)[:80])


def freeze(v):
    if isinstance(v, dict):
        return tuple(sorted((k, freeze(x)) for k, x in v.items()))
    if isinstance(v, list):
        return tuple(freeze(x) for x in v)
    return v


def field_of(e, name):
    if e[0] == "adt":
        for k, x in e[3]:
            if k == name:
                return x
    if e[0] == "tuple":
        try:
            i = int(name)
            if i < len(e[1]):
                return e[1][i]
        except ValueError:
            pass
    return ("field", e, name)


def const_val(e):
    """python value of a ('const', ...) expression: int/bool/str or ('adt', path, bits)"""
    if e[0] != "const" or e[1] is None:
        return None
    d = dict(e[1])
    if "val" in d:
        d = dict(d["val"])
    for k in ("int", "bool", "str", "char"):
        if k in d:
            return d[k]
    if "adt" in d:
        return ("adt", d["adt"], int(d["bits"]))
    if "bits" in d:
        return int(d["bits"])
    if "item" in d:
        return ("item", d["item"])
    if "zst" in d:
        return ("zst", d["zst"])
    if "tyconst" in d:
        t = d["tyconst"]
        if isinstance(t, str) and len(t) >= 2 and t[0] == '"' and t[-1] == '"':
            return t[1:-1]
    return None


def walk(e, f):
    if not isinstance(e, tuple):
        return
    if f(e):
        return
    t = e[0]
    if t == "call":
        for a in e[3]:
            walk(a, f)
    elif t == "oparam":
        return
    elif t in ("tuple", "array"):
        for a in e[1]:
            walk(a, f)
    elif t == "adt":
        for _, a in e[3]:
            walk(a, f)
    elif t in ("closure", "agg"):
        for a in e[2]:
            walk(a, f)
    elif t in ("field", "downcast", "cast", "discr", "repeat", "subslice"):
        walk(e[1], f)
    elif t == "index":
        walk(e[1], f)
        walk(e[2], f)
    elif t == "binop":
        walk(e[2], f)
        walk(e[3], f)
    elif t == "unop":
        walk(e[2], f)
    elif t == "alts":
        for a in e[1]:
            walk(a, f)


def find(e, pred):
    res = []

    def f(n):
        if pred(n):
            res.append(n)
        return False

    walk(e, f)
    return res


def show(e, depth=0):
    if not isinstance(e, tuple) or not e:
        return repr(e)
    if depth > 14:
        return "..."
    d = depth + 1
    t = e[0]
    if t == "param":
        return "p%d" % e[1]
    if t == "oparam":
        return "%s.p%d" % (last(e[1]) if "{closure" not in e[1] else e[1].split("::", 2)[-1], e[2])
    if t == "upvar":
        return "up:%s" % (e[2] or e[1])
    if t == "const":
        v = const_val(e)
        return "c(%s)" % (v,)
    if t == "call":
        return "%s(%s)" % (fname(e[1]), ", ".join(show(a, d) for a in e[3]))
    if t == "fnitem":
        return "fn<%s>" % fname(e[1])
    if t in ("tuple", "array"):
        return "(" + ", ".join(show(a, d) for a in e[1]) + ")"
    if t == "adt":
        return "%s::%s{%s}" % (last(e[1]), e[2], ", ".join("%s: %s" % (k, show(a, d)) for k, a in e[3]))
    if t == "closure":
        return "closure<%s>[%s]" % (e[1].split("::", 1)[-1], ", ".join(show(a, d) for a in e[2]))
    if t == "field":
        return "%s.%s" % (show(e[1], d), e[2])
    if t == "index":
        return "%s[%s]" % (show(e[1], d), show(e[2], d))
    if t == "downcast":
        return "(%s as %s)" % (show(e[1], d), e[2])
    if t == "binop":
        return "%s(%s, %s)" % (e[1], show(e[2], d), show(e[3], d))
    if t == "unop":
        return "%s(%s)" % (e[1], show(e[2], d))
    if t == "phi":
        return "phi(_%d)" % e[1]
    if t == "alts":
        return "{" + " | ".join(show(a, d) for a in e[1]) + "}"
    if t == "discr":
        return "discr(%s)" % show(e[1], d)
    if t == "cast":
        return "cast(%s)" % show(e[1], d)
    return repr(e)


# ------------------------------------------------------------------ iterator chains
# adaptor -> (is_source, short_circuit, closure_param_model)
ITER_SOURCES = {"iter", "iter_mut", "into_iter", "drain", "chars", "split", "lines", "keys", "values", "bytes"}
NON_SHORT_ADAPTORS = {
    "map", "filter", "filter_map", "enumerate", "zip", "rev", "copied", "cloned", "chain", "flat_map", "flatten",
    "inspect", "peekable", "into_iter", "iter", "iter_mut", "by_ref", "map_ok", "fuse",
}
EXHAUSTIVE_CONSUMERS = {"collect", "for_each", "fold", "count", "sum", "product", "extend", "append", "unzip",
                        "partition", "try_collect", "from_iter", "to_vec", "into_iter"}
SHORT_CIRCUIT = {"try_for_each", "try_fold", "find", "find_map", "any", "all", "take", "take_while", "skip",
                 "skip_while", "step_by", "nth", "last", "min", "max", "min_by", "max_by", "min_by_key",
                 "max_by_key", "next", "position", "rposition", "map_while", "scan", "try_collect?"}


def chain_of(e):
    """decompose an iterator expression into (source_expr, [(adaptor, extra_args, callexpr), ...])
    walking receiver arguments of Iterator/IntoIterator/slice methods."""
    steps = []
    cur = e
    while cur[0] == "call" and cur[3]:
        name = last(cur[2])
        tp = sg(cur[2])
        is_iter_method = (
            tp.startswith(("std::iter::Iterator::", "std::iter::IntoIterator::", "std::iter::DoubleEndedIterator::",
                           "core::iter::Iterator::", "core::iter::IntoIterator::", "futures_util::TryStreamExt::",
                           "futures_util::StreamExt::", "futures_util::stream::TryStreamExt::",
                           "futures_util::stream::StreamExt::"))
            or (name in ITER_SOURCES and ("slice::" in tp or "vec::" in tp or "collections::" in tp
                                          or "crossbeam_channel::" in tp or "std::str::" in tp or "core::str::" in tp)))
        if not is_iter_method:
            break
        steps.append((name, cur[3][1:], cur))
        cur = cur[3][0]
    steps.reverse()
    return cur, steps


class ClosureRole:
    def __init__(self, closure_def, parent, call_expr, arg_index, defs):
        self.closure_def = closure_def
        self.parent = parent
        self.call = call_expr       # ('call', ...) the closure is passed to
        self.arg_index = arg_index  # position among the call's args
        self.defs = defs

    @property
    def adaptor(self):
        return last(self.call[2])

    @property
    def adaptor_path(self):
        return self.call[2]

    @property
    def receiver(self):
        return self.call[3][0] if self.call[3] else None

    def receiver_chain(self):
        return chain_of(self.receiver)


def closure_roles(parent_body):
    """find, for every closure created in `parent_body`, the call it is passed to"""
    d = Defs(parent_body)
    roles = {}
    for bb, t, ci in parent_body.calls():
        e = d.expr_call(t, bb)
        if e[0] != "call":
            continue
        for i, a in enumerate(e[3]):
            if a[0] == "closure" and a[1] not in roles:
                roles[a[1]] = ClosureRole(a[1], parent_body, e, i, d)
    return roles, d


def all_call_exprs(body, defs=None):
    d = defs or Defs(body)
    res = []
    for bb, t, ci in body.calls():
        res.append((bb, t, ci, d.expr_call(t, bb)))
    return res, d


def map_expr(e, f):
    """bottom-up rewrite of a flow expression"""
    if not isinstance(e, tuple) or not e:
        return e
    t = e[0]
    if t == "call":
        e = ("call", e[1], e[2], tuple(map_expr(a, f) for a in e[3]), e[4])
    elif t in ("field", "downcast", "cast", "discr", "repeat"):
        e = (t, map_expr(e[1], f)) + tuple(e[2:])
    elif t == "index":
        e = ("index", map_expr(e[1], f), map_expr(e[2], f))
    elif t in ("tuple", "array"):
        e = (t, tuple(map_expr(a, f) for a in e[1]))
    elif t == "adt":
        e = ("adt", e[1], e[2], tuple((k, map_expr(a, f)) for k, a in e[3]))
    elif t in ("closure", "agg"):
        e = (t, e[1], tuple(map_expr(a, f) for a in e[2]))
    elif t == "binop":
        e = ("binop", e[1], map_expr(e[2], f), map_expr(e[3], f))
    elif t == "unop":
        e = ("unop", e[1], map_expr(e[2], f))
    elif t == "alts":
        e = ("alts", tuple(map_expr(a, f) for a in e[1]))
    return f(e)


def resolve_captures(crate, closure_body):
    """capture expressions of `closure_body`; parameters of enclosing bodies appear as
    ('oparam', owner_path, i) so that they cannot be confused with the closure's own ('param', i);
    upvars of intermediate closures are substituted recursively"""
    parent = crate.bodies.get(closure_body.parent)
    if parent is None:
        return None
    roles, pdefs = closure_roles(parent)
    r = roles.get(closure_body.path)
    if r is not None:
        caps = list(r.call[3][r.arg_index][2])
    else:
        # a closure / async block that is not passed to a call directly: find its construction
        caps = None
        for _, _, s_ in parent.statements():
            if s_["k"] == "assign" and s_["rv"]["k"] == "aggregate" and s_["rv"]["kind"].get("def") == closure_body.path:
                caps = [pdefs.expr_operand(o) for o in s_["rv"]["ops"]]
        if caps is None:
            return None
    pc = resolve_captures(crate, parent) if parent.kind == "closure" else None

    def f(e):
        if e[0] == "param":
            return ("oparam", parent.path, e[1])
        if e[0] == "upvar":
            if pc is not None and e[1] < len(pc):
                return pc[e[1]]
        return e
    return [map_expr(c, f) for c in caps]


def resolve_captures_local(crate, closure_body):
    """capture expressions over the immediate parent's own locals/params/upvars (no owner tagging, one level)"""
    parent = crate.bodies.get(closure_body.parent)
    if parent is None:
        return None
    roles, pdefs = closure_roles(parent)
    r = roles.get(closure_body.path)
    if r is not None:
        return list(r.call[3][r.arg_index][2])
    for _, _, s_ in parent.statements():
        if s_["k"] == "assign" and s_["rv"]["k"] == "aggregate" and s_["rv"]["kind"].get("def") == closure_body.path:
            return [pdefs.expr_operand(o) for o in s_["rv"]["ops"]]
    return None


def closure_ret(crate, closure_body, defs=None):
    """return expression of a closure with its upvars replaced by the resolved captures"""
    d = defs or Defs(closure_body)
    ret = d.expr_local(0)
    return subst_upvars(ret, resolve_captures(crate, closure_body) or [])


def subst_upvars(e, caps):
    def f(x):
        if x[0] == "upvar" and x[1] < len(caps):
            return caps[x[1]]
        return x
    return map_expr(e, f)


def is_oparam(e, i, owner_suffix=None):
    return isinstance(e, tuple) and e and e[0] == "oparam" and e[2] == i and (owner_suffix is None or sg(e[1]).endswith(owner_suffix))


def expand_phi(defs, e, depth=0, seen=None):
    """replace ('phi', l, n) by ('alts', (expr of each definition, ...)) recursively (bounded)"""
    seen = seen or set()

    def f(x):
        if x[0] == "phi" and x[1] not in seen and depth < 4:
            alts = tuple(expand_phi(defs, a, depth + 1, seen | {x[1]}) for _, a in defs.all_defs_exprs(x[1]))
            if alts:
                return ("alts", alts)
        return x
    return map_expr(e, f)



def push_loop(b):
    """the map().collect() written as a loop: `let mut v = Vec::new()/with_capacity(..); for x in SRC { v.push(E(x)); } v` with v returned.
    Returns (src expression of the iterated value, the `next` call expression (the round's item is ('field', ('downcast', next, 'Some'), '0')), pushed value expression)
    or None.  Conditions: exactly one loop, left only when the iterator is exhausted; exactly one push, inside the loop, into the vector that is returned."""
    calls, d = all_call_exprs(b)
    pushes = [(bb, t, e) for bb, t, ci, e in calls if e[0] == "call" and last(e[2]) == "push" and "Vec" in e[1]]
    nexts = [(bb, t, e) for bb, t, ci, e in calls if e[0] == "call" and last(e[2]) == "next" and "d:ForLoop" in (t.get("exp") or [])]
    loops = b.natural_loops()
    if len(pushes) != 1 or len(nexts) != 1 or len(loops) != 1:
        return None
    head, blocks = next(iter(loops.items()))
    exits = set()
    for bb in blocks:
        for s_ in b.succs(bb):
            if s_ not in blocks and not (b.blocks[s_]["term"]["k"] == "unreachable" and not b.blocks[s_]["stmts"]):
                exits.add((bb, s_))
    if len(exits) != 1 or pushes[0][0] not in blocks or nexts[0][0] not in blocks:
        return None
    bbp, tp, ep = pushes[0]
    recv_l = None
    a0 = tp["args"][0]
    if a0["k"] in ("move", "copy") and not a0["pl"]["p"]:
        for _, _, s_ in b.statements():
            if s_["k"] == "assign" and s_["pl"]["l"] == a0["pl"]["l"] and not s_["pl"]["p"] and s_["rv"]["k"] == "ref" and not s_["rv"]["pl"]["p"]:
                recv_l = s_["rv"]["pl"]["l"]
    # the vector reaches the return place through moves only (directly, or through the return place of an inlined helper)
    aliases = {recv_l}
    changed = recv_l is not None
    while changed:
        changed = False
        for _, _, s_ in b.statements():
            if (s_["k"] == "assign" and not s_["pl"]["p"] and s_["rv"]["k"] == "use" and s_["rv"]["o"]["k"] in ("move", "copy")
                    and not s_["rv"]["o"]["pl"]["p"] and s_["rv"]["o"]["pl"]["l"] in aliases and s_["pl"]["l"] not in aliases):
                aliases.add(s_["pl"]["l"])
                changed = True
    if recv_l is None or 0 not in aliases:
        return None
    ne = nexts[0][2]
    src = ne[3][0] if ne[3] else None
    while src is not None and src[0] == "call" and last(src[2]) in ("into_iter", "iter") and src[3]:
        src = src[3][0]
    # every element is visited: no adaptor between the collection and the loop (skip / take / filter / rev / zip ... would drop or reorder elements)
    if src is None or (src[0] == "call" and ("iter::" in sg(src[2]) or last(src[2]) in ("skip", "take", "step_by", "filter", "filter_map", "rev", "zip", "chain", "skip_while",
                                                                                      "take_while", "enumerate", "map", "peekable", "fuse", "cycle"))):
        return None
    return src, ne, ep[3][1]
