"""Transparent helpers: functions that do not exist in the reference tree are inlined into their callers (E2 of DESIGN.md, §1.2).

The rules anchor on the functions of the tree they were written against (public API paths, and private functions located by role).
"Extract a private helper" is the most common behaviour-preserving edit, and it moves an anchored construct (a restriction fold, a
comparison loop, a conflict test) out of the body in which a rule looks for it.  Instead of teaching every rule to follow calls, the
loader normalises the program: a local function whose path is not in the frozen list of reference functions (rules/known_fns.json) is
*new*; every direct call of a new function from a local body is replaced by the callee's MIR (locals and blocks renumbered, arguments
assigned to the callee's parameter locals, `return` turned into an assignment of the call's destination and a jump to the call's
target, `resume` into a jump to the call's unwind target).  Closures defined in the helper are duplicated per call site and
re-parented to the caller, so that "the closure passed to fold in Adf::stable" is found again.  Recursive helpers, async functions
and trait-impl methods are left alone.  The analysed program has the same paths and effects as the source program: inlining is
semantics-preserving by construction, so no obligation is weakened - a defect inside a helper is seen in every caller.

A new private helper all of whose uses were inlined is dropped from the list of bodies that rules scan (it is dead after
normalisation); a new public function stays visible (it is new API surface, e.g. for the who-may-write rules)."""
import copy
import json
import re

MAX_EXPANSIONS_PER_BODY = 48


def strip_generics(p):
    return re.sub(r"::<[^<>]*>", "", p)


def _walk(x, f):
    """apply f to every dict in a JSON tree (pre-order)"""
    if isinstance(x, dict):
        f(x)
        for v in x.values():
            _walk(v, f)
    elif isinstance(x, list):
        for v in x:
            _walk(v, f)


def _renumber(blocks, loff, boff, poff):
    def fix(d):
        if isinstance(d.get("l"), int) and not isinstance(d.get("l"), bool):
            d["l"] = d["l"] + loff
        if isinstance(d.get("promoted"), int) and not isinstance(d.get("promoted"), bool) and len(d) == 1:
            d["promoted"] = d["promoted"] + poff
    _walk(blocks, fix)
    for bl in blocks:
        t = bl["term"]
        for key in ("t", "otherwise", "unwind", "drop", "imaginary"):
            if isinstance(t.get(key), int) and not isinstance(t.get(key), bool):
                t[key] = t[key] + boff
        if t["k"] == "switch":
            t["targets"] = [[v, b + boff] for v, b in t["targets"]]


def callee_path_of(t):
    f = t.get("f") or {}
    if f.get("k") == "const" and isinstance(f.get("v"), dict) and "fn" in f["v"]:
        ci = f["v"]["fn"]
        if "impl" in ci:
            return ci["impl"]["path"]
        return ci["path"]
    return None


class Inliner:
    def __init__(self, crate, known):
        self.crate = crate
        self.known = known
        self.raws = {}          # path -> (possibly rewritten) raw body
        self.order = []
        for b in crate.all_bodies:
            self.raws[b.path] = b.raw
            self.order.append(b.path)
        self.children = {}
        for b in crate.all_bodies:
            if b.kind == "closure" and b.parent:
                self.children.setdefault(b.parent, []).append(b.path)
        self.new = {}
        for b in crate.all_bodies:
            if b.kind in ("fn", "method") and not b.is_coroutine and b.impl_trait is None and strip_generics(b.path) not in known:
                if any(bl["term"]["k"] == "yield" for bl in b.raw["blocks"]):
                    continue
                self.new[b.path] = b
        self.by_stripped = {}
        for p in self.new:
            self.by_stripped.setdefault(strip_generics(p), p)
        self.done = set()
        self.recursive = set()
        self.stack = []
        self.counter = 0
        self.changed = set()
        self.added = []         # raw closure duplicates
        self.uninlined_uses = set()
        self.instances = []     # (caller, helper)

    def helper_for(self, path):
        if path is None:
            return None
        if path in self.new:
            return path
        return self.by_stripped.get(strip_generics(path))

    def closures_under(self, hp):
        """all closure bodies whose parent chain leads to hp (including duplicates created by earlier inlining into hp)"""
        res, work = [], list(self.children.get(hp, []))
        while work:
            c = work.pop(0)
            res.append(c)
            work.extend(self.children.get(c, []))
        return res

    def owner(self, p):
        seen = 0
        while self.raws[p].get("kind") == "closure" and self.raws[p].get("parent") in self.raws and seen < 50:
            p = self.raws[p]["parent"]
            seen += 1
        return p

    def expand(self, path):
        if path in self.done:
            return
        if path in self.stack:
            self.recursive.update(self.stack[self.stack.index(path):])
            return
        self.stack.append(path)
        raw = self.raws[path]
        n = 0
        bi = 0
        while bi < len(raw["blocks"]):
            t = raw["blocks"][bi]["term"]
            if t["k"] == "call":
                hp = self.helper_for(callee_path_of(t))
                if hp is not None and hp in self.stack:
                    self.recursive.update(self.stack[self.stack.index(hp):])
                if hp is not None and hp not in self.stack and hp not in self.recursive:
                    self.expand(hp)
                    for cp in self.closures_under(hp):
                        self.expand(cp)
                if hp is not None and hp not in self.stack and hp not in self.recursive and n < MAX_EXPANSIONS_PER_BODY and len(t["args"]) == self.raws[hp]["argc"]:
                    if path not in self.changed:
                        raw = copy.deepcopy(raw)
                        self.raws[path] = raw
                        self.changed.add(path)
                        t = raw["blocks"][bi]["term"]
                    self.inline_at(path, raw, bi, t, hp)
                    n += 1
                elif hp is not None:
                    self.uninlined_uses.add(hp)
            bi += 1
        # closures of this body are expanded too (a helper may be called from a closure)
        self.stack.pop()
        self.done.add(path)

    def inline_at(self, caller_path, cr, bi, t, hp):
        self.counter += 1
        tag = "@i%d" % self.counter
        hr = self.raws[hp]
        subtree = self.closures_under(hp)
        renames = [(json.dumps(c), json.dumps(c + tag)) for c in sorted(subtree, key=len, reverse=True)]

        def rename(text_):
            for old, new in renames:
                text_ = text_.replace(old, new)
            return text_
        text = rename(json.dumps({"locals": hr["locals"], "blocks": hr["blocks"], "debug": hr["debug"], "promoted": hr.get("promoted", [])}))
        part = json.loads(text)
        loff, boff, poff = len(cr["locals"]), len(cr["blocks"]), len(cr.get("promoted", []))
        _renumber(part["blocks"], loff, boff, poff)
        for d in part["debug"]:
            v = d.get("v")
            if isinstance(v, dict) and isinstance(v.get("l"), int):
                _walk(v, lambda x: x.__setitem__("l", x["l"] + loff) if isinstance(x.get("l"), int) and not isinstance(x.get("l"), bool) else None)
            d["arg"] = None
            d["inlined_from"] = hp
        cr["locals"].extend(part["locals"])
        cr["debug"].extend(part["debug"])
        if part["promoted"]:
            cr.setdefault("promoted", []).extend(part["promoted"])
        # arguments -> parameter locals
        blk = cr["blocks"][bi]
        for i, a in enumerate(t["args"]):
            blk["stmts"].append({"k": "assign", "pl": {"l": loff + 1 + i, "p": []}, "rv": {"k": "use", "o": a}, "loc": t.get("loc"), "exp": t.get("exp"), "inl": hp})
        dest, target, unwind = t["dest"], t["t"], t.get("unwind")
        blk["term"] = {"k": "goto", "t": boff, "loc": t.get("loc"), "exp": t.get("exp"), "inl_call": hp}
        for nb in part["blocks"]:
            nt = nb["term"]
            if nt["k"] == "return":
                nb["stmts"].append({"k": "assign", "pl": dest, "rv": {"k": "use", "o": {"k": "move", "pl": {"l": loff, "p": []}}}, "loc": t.get("loc"), "exp": t.get("exp"), "inl": hp})
                nb["term"] = {"k": "goto", "t": target, "loc": nt.get("loc"), "exp": nt.get("exp")} if target is not None else {"k": "unreachable", "loc": nt.get("loc"), "exp": nt.get("exp")}
            elif nt["k"] == "resume" and isinstance(unwind, int):
                nb["term"] = {"k": "goto", "t": unwind, "loc": nt.get("loc"), "exp": nt.get("exp")}
        cr["blocks"].extend(part["blocks"])
        # closures of the helper: one duplicate per call site, re-parented to the caller
        for cp in subtree:
            dup = json.loads(rename(json.dumps(self.raws[cp])))
            if dup.get("parent") == hp:
                dup["parent"] = caller_path
            dup["inlined_from"] = cp
            self.raws[dup["path"]] = dup
            self.order.append(dup["path"])
            self.children.setdefault(dup["parent"], []).append(dup["path"])
            self.done.add(dup["path"])
            self.added.append(dup["path"])
        self.instances.append((caller_path, hp))


def apply(crate, known, Body):
    """rewrites `crate` in place; returns a summary dict (None if nothing is new)"""
    inl = Inliner(crate, known)
    if not inl.new:
        return None
    for p in list(inl.order):
        inl.expand(p)
    # fn-item references that are not calls keep a helper alive
    referenced = set()
    for p, raw in inl.raws.items():
        def see(d):
            if "fn" in d and isinstance(d["fn"], dict) and "path" in d["fn"]:
                hp = inl.helper_for(d["fn"]["impl"]["path"] if "impl" in d["fn"] else d["fn"]["path"])
                if hp is not None:
                    referenced.add((p, hp))
        _walk(raw["blocks"], see)
    still_used = set(inl.uninlined_uses)
    for p, hp in referenced:
        owner = inl.owner(p)
        if owner in inl.new and inl.helper_for(owner) == hp:
            continue            # the helper's own (recursive) reference
        if owner in inl.new:
            # a reference from another new helper counts only if that helper stays
            still_used.add(("via", p, hp))
        else:
            still_used.add(hp)
    dropped = set()
    for hp, b in inl.new.items():
        private = not str(b.vis or "").startswith("Public")
        used_elsewhere = hp in still_used
        if private and not used_elsewhere and any(h == hp for _, h in inl.instances):
            dropped.add(hp)
    # helpers referenced only from dropped helpers are fine; helpers referenced from kept new helpers stay
    for item in list(still_used):
        if isinstance(item, tuple):
            _, p, hp = item
            owner = inl.owner(p)
            if owner not in dropped and hp in dropped:
                dropped.discard(hp)
    new_all = []
    for p in inl.order:
        if inl.owner(p) in dropped:
            continue
        raw = inl.raws[p]
        if p in inl.changed or p not in crate.bodies:
            body = Body(crate, raw)
            body.inlined = [h for c, h in inl.instances if c == p]
        else:
            body = crate.bodies[p]
        new_all.append(body)
    crate.all_bodies = new_all
    for b in new_all:
        crate.bodies[b.path] = b
    crate._children.clear()
    for b in crate.all_bodies:
        if b.kind == "closure" and b.parent:
            crate._children[b.parent].append(b)
    return {"new_functions": sorted(inl.new), "inlined_call_sites": len(inl.instances), "dropped_after_inlining": sorted(dropped),
            "kept": sorted(set(inl.new) - dropped)}
