"""Fact loader, CFG utilities and a MIR pretty-printer (E2 of DESIGN.md).

Everything here is rule independent.  A *fact file* is the JSON written by
factgen for one package under one feature configuration.
"""
import json
import os
import re
from collections import defaultdict


def _strip_generics(p):
    # remove lifetime/generic decorations "::<'_>" for matching convenience
    return re.sub(r"::<[^<>]*>", "", p)


class Body:
    def __init__(self, crate, raw, promoted_of=None, promoted_idx=None):
        self.crate = crate
        self.raw = raw
        self.promoted_of = promoted_of
        if promoted_of is None:
            self.path = raw["path"]
            self.kind = raw["kind"]
            self.parent = raw.get("parent")
            self.vis = raw.get("vis")
            self.loc = raw.get("loc")
            self.span = raw.get("span")
            self.impl_trait = raw.get("impl_trait")
            self.impl_self = raw.get("impl_self")
            self.is_coroutine = raw.get("coroutine", False)
            self.promoted = [Body(crate, p, self, i) for i, p in enumerate(raw.get("promoted", []))]
        else:
            self.path = "%s::{promoted#%d}" % (promoted_of.path, promoted_idx)
            self.kind = "promoted"
            self.parent = promoted_of.path
            self.vis = None
            self.loc = promoted_of.loc
            self.span = promoted_of.span
            self.impl_trait = None
            self.impl_self = None
            self.is_coroutine = False
            self.promoted = []
        self.argc = raw["argc"]
        self.locals = raw["locals"]
        self.debug = raw["debug"]
        self.blocks = raw["blocks"]
        self._succ = {}
        self._names = None

    # ------------------------------------------------------------ naming
    @property
    def short(self):
        return _strip_generics(self.path)

    @property
    def qual(self):
        """`Type::method` (inherent or trait impl) / plain fn name; closures: qual of the enclosing fn"""
        b = self
        while b is not None and b.kind in ("closure", "promoted"):
            b = self.crate.bodies.get(b.parent) if b.parent else None
        if b is None:
            return self.short
        name = [x for x in _strip_generics(b.path).split("::") if x][-1]
        st = b.impl_self
        if st is not None:
            t = st
            while t.get("k") in ("ref", "ptr"):
                t = t["to"]
            if t.get("k") == "adt":
                return "%s::%s" % (t["path"].split("::")[-1], name)
            return "%s::%s" % (t.get("s", "?"), name)
        return name

    @property
    def file(self):
        return self.loc[0] if self.loc else None

    def where(self, loc=None):
        loc = loc or self.loc
        if not loc:
            return "?"
        return "%s:%d" % (loc[0], loc[1])

    def local_names(self):
        """local index -> source name (only for bare locals)"""
        if self._names is None:
            n = {}
            for d in self.debug:
                v = d["v"]
                if "l" in v and not v["p"]:
                    n[v["l"]] = d["name"]
            self._names = n
        return self._names

    def upvar_names(self):
        """closure capture index -> source name (from debug info on _1)"""
        res = {}
        for d in self.debug:
            v = d["v"]
            if "l" in v and v["l"] == 1 and v["p"]:
                for pe in v["p"]:
                    if pe["k"] == "field":
                        res[pe["i"]] = d["name"]
                        break
        return res

    # ------------------------------------------------------------ CFG
    def succs(self, bb, unwind=False, imaginary=False):
        key = (bb, unwind, imaginary)
        if key in self._succ:
            return self._succ[key]
        t = self.blocks[bb]["term"]
        k = t["k"]
        out = []
        if k == "goto":
            out = [t["t"]]
        elif k == "switch":
            out = [x[1] for x in t["targets"]] + [t["otherwise"]]
        elif k in ("drop", "assert", "falseunwind"):
            out = [t["t"]]
            if unwind and isinstance(t.get("unwind"), int):
                out.append(t["unwind"])
        elif k == "call":
            if t["t"] is not None:
                out = [t["t"]]
            if unwind and isinstance(t.get("unwind"), int):
                out.append(t["unwind"])
        elif k == "yield":
            out = [t["t"]]
            if unwind and t.get("drop") is not None:
                out.append(t["drop"])
        elif k == "falseedge":
            out = [t["t"]]
            if imaginary:
                out.append(t["imaginary"])
        # return/resume/unreachable/terminate/tailcall: none
        # dedupe, keep order
        seen = []
        for x in out:
            if x not in seen:
                seen.append(x)
        self._succ[key] = seen
        return seen

    def preds(self, unwind=False):
        p = defaultdict(list)
        for b in range(len(self.blocks)):
            for s in self.succs(b, unwind):
                p[s].append(b)
        return p

    def reachable(self, start=0, unwind=False, stop=None):
        """blocks reachable from start; `stop(bb)` true = do not expand bb"""
        seen = set()
        work = [start]
        while work:
            b = work.pop()
            if b in seen:
                continue
            seen.add(b)
            if stop and stop(b):
                continue
            work.extend(self.succs(b, unwind))
        return seen

    def dominators(self, unwind=False):
        """returns dict bb -> set of dominators (iterative; bodies are small)"""
        n = len(self.blocks)
        reach = self.reachable(0, unwind)
        preds = self.preds(unwind)
        dom = {b: set(reach) for b in reach}
        dom[0] = {0}
        changed = True
        order = sorted(reach)
        while changed:
            changed = False
            for b in order:
                if b == 0:
                    continue
                ps = [p for p in preds[b] if p in reach]
                if not ps:
                    continue
                new = set.intersection(*[dom[p] for p in ps]) | {b}
                if new != dom[b]:
                    dom[b] = new
                    changed = True
        return dom

    def reach_avoiding(self, starts, avoid, unwind=False):
        """blocks reachable from `starts` (list) along paths that never enter a block in `avoid`"""
        seen = set()
        work = [s for s in starts if s not in avoid]
        while work:
            b = work.pop()
            if b in seen:
                continue
            seen.add(b)
            for s in self.succs(b, unwind):
                if s not in avoid and s not in seen:
                    work.append(s)
        return seen

    def edge_dominates(self, src, dst, bb, unwind=False):
        """every path from entry to bb traverses the CFG edge src -> dst"""
        seen = set()
        work = [0]
        while work:
            b = work.pop()
            if b in seen:
                continue
            seen.add(b)
            if b == bb:
                return False
            for s in self.succs(b, unwind):
                if b == src and s == dst:
                    continue
                work.append(s)
        return True

    def call_blocks(self, pred):
        """blocks whose terminator is a call satisfying pred(callee_path, term)"""
        res = []
        for i, t in self.terminators():
            if t["k"] == "call":
                ci = callee_of(t)
                p = callee_path(ci) if ci else None
                if pred(p or "", t):
                    res.append(i)
        return res

    def back_edges(self, unwind=False):
        dom = self.dominators(unwind)
        res = []
        for b in dom:
            for s in self.succs(b, unwind):
                if s in dom.get(b, ()):  # s dominates b
                    res.append((b, s))
        return res

    def natural_loops(self, unwind=False):
        """head -> set of blocks"""
        preds = self.preds(unwind)
        loops = defaultdict(set)
        for (tail, head) in self.back_edges(unwind):
            body = {head, tail}
            work = [tail]
            while work:
                x = work.pop()
                if x == head:
                    continue
                for p in preds[x]:
                    if p not in body:
                        body.add(p)
                        work.append(p)
            loops[head] |= body
        return dict(loops)

    # ------------------------------------------------------------ queries
    def terminators(self):
        for i, b in enumerate(self.blocks):
            yield i, b["term"]

    def calls(self, pred=None):
        """yield (bb, term, callee_info) for call terminators. callee_info is the
        'fn' dict (path,args,impl?) or None for indirect calls."""
        for i, t in self.terminators():
            if t["k"] != "call":
                continue
            ci = callee_of(t)
            if pred is None or pred(ci, t):
                yield i, t, ci

    def statements(self):
        for i, b in enumerate(self.blocks):
            for j, s in enumerate(b["stmts"]):
                yield i, j, s

    # ------------------------------------------------------------ printing
    def pretty(self):
        out = []
        names = self.local_names()
        out.append("fn %s  [%s]  argc=%d" % (self.path, self.where(), self.argc))
        for i, l in enumerate(self.locals):
            out.append("  let _%d: %s%s" % (i, ty_str(l["ty"]), ("  // " + names[i]) if i in names else ""))
        for d in self.debug:
            if "l" in d["v"] and d["v"]["p"]:
                out.append("  debug %s => %s" % (d["name"], place_str(d["v"])))
        for i, b in enumerate(self.blocks):
            out.append("  bb%d%s:" % (i, " (cleanup)" if b["cleanup"] else ""))
            for s in b["stmts"]:
                if s["k"] == "assign":
                    out.append("    %s = %s%s" % (place_str(s["pl"]), rv_str(s["rv"]), exp_str(s.get("exp"))))
                elif s["k"] == "setdiscr":
                    out.append("    discr(%s) = %d" % (place_str(s["pl"]), s["vi"]))
            out.append("    " + term_str(b["term"]) + exp_str(b["term"].get("exp")))
        return "\n".join(out)


def exp_str(e):
    if not e:
        return ""
    return "   #[" + ">".join(e) + "]"


def callee_of(t):
    f = t["f"]
    if f["k"] == "const" and isinstance(f.get("v"), dict) and "fn" in f["v"]:
        return f["v"]["fn"]
    return None


def callee_path(ci, resolved=True):
    """path of the callee; with resolved=True prefer the impl a trait call resolves to"""
    if ci is None:
        return None
    if resolved and "impl" in ci:
        return ci["impl"]["path"]
    return ci["path"]


def ty_str(t):
    k = t.get("k")
    if k == "adt":
        a = t.get("args") or []
        return _strip_crate(t["path"]) + ("<" + ", ".join(ty_str(x) for x in a) + ">" if a else "")
    if k == "ref":
        return "&" + ("mut " if t["mut"] else "") + ty_str(t["to"])
    if k == "ptr":
        return "*" + ("mut " if t["mut"] else "const ") + ty_str(t["to"])
    if k == "tuple":
        return "(" + ", ".join(ty_str(x) for x in t["elems"]) + ")"
    if k == "slice":
        return "[" + ty_str(t["elem"]) + "]"
    if k == "array":
        return "[" + ty_str(t["elem"]) + "; _]"
    if k in ("closure", "coroutine", "coroutineclosure"):
        return "{%s %s}" % (k, _strip_crate(t["def"]))
    if k == "fndef":
        return "fn{" + _strip_crate(t["path"]) + "}"
    return t.get("s", k or "?")


def _strip_crate(p):
    return p


def place_str(p):
    s = "_%d" % p["l"]
    for e in p["p"]:
        k = e["k"]
        if k == "deref":
            s = "(*%s)" % s
        elif k == "field":
            s = "%s.%s" % (s, e["name"] if e.get("name") is not None else e["i"])
        elif k == "index":
            s = "%s[_%d]" % (s, e["l"])
        elif k == "cindex":
            s = "%s[%s%d]" % (s, "-" if e.get("from_end") else "", e["i"])
        elif k == "downcast":
            s = "(%s as %s)" % (s, e.get("variant"))
        elif k == "subslice":
            s = "%s[%d..%s%d]" % (s, e["from"], "-" if e.get("from_end") else "", e["to"])
        else:
            s = "%s.<%s>" % (s, k)
    return s


def const_str(c):
    v = c.get("v")
    if v is None:
        return "const ?:" + ty_str(c["ty"])
    if "fn" in v:
        f = v["fn"]
        s = f["path"]
        if "impl" in f:
            s += " => " + f["impl"]["path"]
        return s
    if "int" in v:
        return str(v["int"])
    if "bool" in v:
        return str(v["bool"]).lower()
    if "str" in v:
        return json.dumps(v["str"])
    if "char" in v:
        return repr(v["char"])
    if "promoted" in v:
        return "promoted[%d]" % v["promoted"]
    if "item" in v:
        if "val" in v:
            return "%s{=%s}" % (v["item"], const_str({"v": v["val"], "ty": c["ty"]}))
        return v["item"]
    if "adt" in v:
        return "%s(#%s)" % (v["adt"], v["bits"])
    if "zst" in v:
        return "zst " + v["zst"]
    return "const " + json.dumps(v)


def op_str(o):
    k = o["k"]
    if k in ("copy", "move"):
        return ("move " if k == "move" else "") + place_str(o["pl"])
    if k == "const":
        return const_str(o)
    return k


def rv_str(rv):
    k = rv["k"]
    if k == "use":
        return op_str(rv["o"])
    if k == "ref":
        return "&%s%s" % ("mut " if rv["mut"] else ("fake " if rv.get("fake") else ""), place_str(rv["pl"]))
    if k == "rawptr":
        return "&raw " + place_str(rv["pl"])
    if k == "cast":
        return "%s as %s (%s)" % (op_str(rv["o"]), ty_str(rv["ty"]), rv["kind"])
    if k == "binop":
        return "%s(%s, %s)" % (rv["op"], op_str(rv["l"]), op_str(rv["r"]))
    if k == "unop":
        return "%s(%s)" % (rv["op"], op_str(rv["o"]))
    if k == "discriminant":
        return "discriminant(%s)" % place_str(rv["pl"])
    if k == "aggregate":
        kind = rv["kind"]
        ops = ", ".join(op_str(o) for o in rv["ops"])
        if kind["k"] == "adt":
            return "%s::%s{%s}" % (kind["path"], kind["variant"], ops)
        if kind["k"] in ("closure", "coroutine", "coroutineclosure"):
            return "{%s %s}[%s]" % (kind["k"], kind["def"], ops)
        return "%s(%s)" % (kind["k"], ops)
    if k == "repeat":
        return "[%s; %s]" % (op_str(rv["o"]), rv["n"])
    return rv.get("s", k)


def term_str(t):
    k = t["k"]
    if k == "goto":
        return "goto bb%d" % t["t"]
    if k == "switch":
        return "switch %s [%s, otherwise bb%d]" % (
            op_str(t["d"]), ", ".join("%s: bb%d" % (v, b) for v, b in t["targets"]), t["otherwise"])
    if k == "call":
        f = op_str(t["f"])
        return "%s = %s(%s) -> %s unwind %s" % (
            place_str(t["dest"]), f, ", ".join(op_str(a) for a in t["args"]),
            ("bb%d" % t["t"]) if t["t"] is not None else "!", t["unwind"])
    if k == "drop":
        return "drop(%s) -> bb%d unwind %s" % (place_str(t["pl"]), t["t"], t["unwind"])
    if k == "assert":
        return "assert(%s == %s, %s) -> bb%d" % (op_str(t["cond"]), t["expected"], t["msg"], t["t"])
    if k == "yield":
        return "yield(%s) -> bb%d" % (op_str(t["value"]), t["t"])
    if k in ("falseedge",):
        return "falseedge -> bb%d (imag bb%d)" % (t["t"], t["imaginary"])
    if k == "falseunwind":
        return "falseunwind -> bb%d" % t["t"]
    return k


def _sig(b):
    """signature of a raw fn body: kind, impl self type, types of the return place and the parameters"""
    return json.dumps([b.get("kind"), b.get("impl_self"), b.get("impl_trait"), [l["ty"] for l in b["locals"][:b["argc"] + 1]]], sort_keys=True)


def renamed_functions(raw, path):
    """{new path: old path} for private functions that were renamed: a function of the reference tree that is missing under this configuration although the
    reference tree has it there, and exactly one new function (not in the reference tree) in the same module/impl with the identical signature.  The loader
    analyses the new function under the old name (callers, closures and all), so that a rename of a private helper does not lose the anchors of the rules;
    the code that is analysed is still the code that is called."""
    known_all = known_functions(raw["package"])
    cfg = os.path.basename(os.path.dirname(os.path.abspath(path)))
    per_cfg = (_KNOWN or {}).get("@by_config", {}).get(raw["package"], {}).get(cfg)
    if known_all is None or per_cfg is None:
        return {}
    present = {}
    for b in raw["bodies"]:
        if b["kind"] != "closure":
            present[_strip_generics(b["path"])] = b
    missing = [k for k in per_cfg if k not in present]
    new = [k for k in present if k not in known_all]
    res = {}
    used = set()
    import hashlib
    for m in missing:
        cont = m.rsplit("::", 1)[0]
        want = per_cfg[m] if isinstance(per_cfg, dict) else None
        cands = [n for n in new if n.rsplit("::", 1)[0] == cont and n not in used and not str(present[n].get("vis") or "").startswith("Public")
                 and (want is None or hashlib.md5(_sig(present[n]).encode()).hexdigest()[:10] == want)]
        # exactly one new private function of the same module/impl with the identical signature, and no second missing function competes for it
        rivals = [x for x in missing if x != m and x.rsplit("::", 1)[0] == cont and (want is None or per_cfg.get(x) == want)]
        if len(cands) == 1 and not rivals:
            res[present[cands[0]]["path"]] = (m, cands[0])
            used.add(cands[0])
    return res


class Crate:
    def __init__(self, path):
        with open(path) as f:
            text = f.read()
        raw = json.loads(text)
        self.renamed = {}
        if not os.environ.get("VCHECK_NO_INLINE"):
            ren = renamed_functions(raw, path)
            if ren:
                for newp, (oldstripped, newstripped) in ren.items():
                    # the raw path may carry lifetime decorations (AdfParser::<'_>::f): replace the last segment only
                    oldp = newp.rsplit("::", 1)[0] + "::" + oldstripped.rsplit("::", 1)[1]
                    a, b_ = json.dumps(newp)[1:-1], json.dumps(oldp)[1:-1]
                    text = text.replace('"' + a + '"', '"' + b_ + '"').replace('"' + a + '::{', '"' + b_ + '::{')
                    self.renamed[newp] = oldp
                raw = json.loads(text)
        self.file = path
        self.name = raw["crate"]
        self.package = raw["package"]
        self.features = raw["features"]
        self.adts = {a["path"]: a for a in raw["adts"]}
        self.statics = raw.get("statics", [])
        self.bodies = {}
        self.all_bodies = []
        for b in raw["bodies"]:
            body = Body(self, b)
            self.bodies[body.path] = body
            self.all_bodies.append(body)
        self._children = defaultdict(list)
        for b in self.all_bodies:
            if b.kind == "closure" and b.parent:
                self._children[b.parent].append(b)
        # functions that are not part of the reference tree are transparent: inlined into their callers (mirlib/inline.py)
        self.inlining = None
        known = known_functions(self.package)
        if known is not None and not os.environ.get("VCHECK_NO_INLINE"):
            from mirlib import inline
            self.inlining = inline.apply(self, known, Body)

    def body(self, path):
        return self.bodies.get(path)

    def find(self, suffix):
        """bodies whose generic-stripped path ends with `suffix`"""
        res = [b for b in self.all_bodies if b.short.endswith(suffix) or b.path.endswith(suffix)]
        return res

    def one(self, suffix):
        r = [b for b in self.find(suffix) if b.kind != "closure"]
        if len(r) != 1:
            raise LookupError("expected exactly one body matching %r in %s, found %d: %s" % (
                suffix, self.package, len(r), [b.path for b in r][:5]))
        return r[0]

    def trait_impl_fn(self, trait_suffix, self_suffix, arg_suffix=None, name=None):
        """the method body of `impl Trait<Arg> for Self` (matched on resolved types, not on path text)"""
        res = []
        for b in self.all_bodies:
            if b.kind == "closure" or not b.impl_trait or not b.impl_trait.endswith(trait_suffix):
                continue
            if b.impl_self is None or not ty_str(b.impl_self).endswith(self_suffix):
                continue
            ta = b.raw.get("impl_trait_args") or []
            if arg_suffix is not None and not (ta and ty_str(ta[-1]).endswith(arg_suffix)):
                continue
            if name is not None and not b.short.endswith("::" + name):
                continue
            res.append(b)
        if len(res) != 1:
            raise LookupError("expected one impl %s<%s> for %s, found %d" % (trait_suffix, arg_suffix, self_suffix, len(res)))
        return res[0]

    def closures_of(self, body, recursive=False):
        res = list(self._children.get(body.path, []))
        if recursive:
            for c in list(res):
                res.extend(self.closures_of(c, True))
        return res

    def enclosing_fn(self, body):
        b = body
        while b is not None and b.kind == "closure":
            b = self.bodies.get(b.parent)
        return b

    def adt(self, suffix):
        r = [a for p, a in self.adts.items() if p.endswith(suffix)]
        if len(r) != 1:
            raise LookupError("expected exactly one adt matching %r, found %d" % (suffix, len(r)))
        return r[0]


_KNOWN = None


def known_functions(package):
    """frozen list of the functions of the reference tree (mirlib/known_fns.json, written by tools/gen_known_fns.py); None if absent"""
    global _KNOWN
    if _KNOWN is None:
        p = os.path.join(os.path.dirname(os.path.abspath(__file__)), "known_fns.json")
        _KNOWN = json.load(open(p)) if os.path.exists(p) else {}
    v = _KNOWN.get(package)
    return set(v) if v is not None else None


def load(facts_dir, package):
    return Crate(os.path.join(facts_dir, package + ".json"))
