"""Tiny pattern matcher over flow expressions."""
from . import flow


class V:
    """capture variable"""

    def __init__(self, name):
        self.name = name

    def __repr__(self):
        return "?" + self.name


class _Any:
    def __repr__(self):
        return "_"


ANY = _Any()


class C:
    """call pattern: name matches the resolved `Type::fn` or the trait path's last segment; args may be shorter (prefix)
    unless exact=True. Transparent copies (clone/into/to_vec/deref) around the expression are skipped unless name is one of them."""

    def __init__(self, name, *args, exact=True):
        self.name = name
        self.args = args
        self.exact = exact

    def __repr__(self):
        return "%s(%s)" % (self.name, ", ".join(map(repr, self.args)))


class P:
    def __init__(self, i):
        self.i = i

    def __repr__(self):
        return "p%d" % self.i


class OP:
    """parameter i of an enclosing body whose path ends with owner (generic-stripped)"""

    def __init__(self, owner, i):
        self.owner = owner
        self.i = i

    def __repr__(self):
        return "%s.p%d" % (self.owner, self.i)


class F:
    def __init__(self, base, name):
        self.base = base
        self.name = name

    def __repr__(self):
        return "%r.%s" % (self.base, self.name)


class CLOS:
    """closure value; binds its def path to var (str name) and optionally matches captures"""

    def __init__(self, var, caps=None):
        self.var = var
        self.caps = caps


class TUP:
    def __init__(self, *items):
        self.items = items


class ADT:
    def __init__(self, variant, **fields):
        self.variant = variant
        self.fields = fields


class IDX:
    def __init__(self, base, idx):
        self.base = base
        self.idx = idx


class K:
    """constant with python value"""

    def __init__(self, v):
        self.v = v


COPIES = ("clone", "into", "to_vec", "to_owned", "from", "as_slice", "as_ref", "borrow", "to_string", "copied", "cloned")


def skip_copies(e):
    while e[0] == "call" and flow.last(e[2]) in COPIES and e[3]:
        e = e[3][0]
    return e


def name_matches(e, name):
    return flow.fname(e[1]).endswith(name) or flow.last(e[2]) == name or flow.fname(e[2]).endswith(name)


def match(e, p, env=None):
    """returns env dict on success, None on failure"""
    env = {} if env is None else env
    if p is ANY:
        return env
    if isinstance(p, V):
        if p.name in env:
            return env if skip_copies(env[p.name]) == skip_copies(e) else None
        env = dict(env)
        env[p.name] = e
        return env
    if isinstance(p, C):
        x = e
        if not (x[0] == "call" and name_matches(x, p.name)):
            x = skip_copies(e)
        if not (x[0] == "call" and name_matches(x, p.name)):
            return None
        args = x[3]
        if p.exact and len(args) != len(p.args):
            return None
        if len(args) < len(p.args):
            return None
        for a, pa in zip(args, p.args):
            env = match(a, pa, env)
            if env is None:
                return None
        return env
    x = skip_copies(e)
    if isinstance(p, P):
        return env if x == ("param", p.i) else None
    if isinstance(p, OP):
        return env if flow.is_oparam(x, p.i, p.owner) else None
    if isinstance(p, F):
        if x[0] == "field" and x[2] == p.name:
            return match(x[1], p.base, env)
        if x[0] == "upvar" and p.name is not None:
            return None
        return None
    if isinstance(p, CLOS):
        if x[0] != "closure":
            return None
        env = dict(env)
        env[p.var] = x[1]
        env[p.var + ".caps"] = x[2]
        if p.caps is not None:
            if len(p.caps) != len(x[2]):
                return None
            for a, pa in zip(x[2], p.caps):
                env = match(a, pa, env)
                if env is None:
                    return None
        return env
    if isinstance(p, TUP):
        if x[0] != "tuple" or len(x[1]) != len(p.items):
            return None
        for a, pa in zip(x[1], p.items):
            env = match(a, pa, env)
            if env is None:
                return None
        return env
    if isinstance(p, ADT):
        if x[0] != "adt" or x[2] != p.variant:
            return None
        fs = dict(x[3])
        for k, pa in p.fields.items():
            k2 = k[1:] if k.startswith("_") else k
            if k2 not in fs:
                return None
            env = match(fs[k2], pa, env)
            if env is None:
                return None
        return env
    if isinstance(p, IDX):
        if x[0] == "index":
            env = match(x[1], p.base, env)
            return match(x[2], p.idx, env) if env is not None else None
        if x[0] == "call" and flow.last(x[2]) in ("index", "index_mut") and len(x[3]) == 2:
            env = match(x[3][0], p.base, env)
            return match(x[3][1], p.idx, env) if env is not None else None
        return None
    if isinstance(p, K):
        return env if (x[0] == "const" and flow.const_val(x) == p.v) else None
    if isinstance(p, tuple):
        return env if x == p else None
    raise TypeError("bad pattern %r" % (p,))
