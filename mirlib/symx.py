"""symx - path-sensitive abstract/symbolic summariser over MIR bodies (E3 of DESIGN.md).

Not an executor of the program under test: inputs are symbols or elements of finite
abstract domains (integer intervals, term classes), calls to unknown functions are
uninterpreted applications, loops are cut at their back edges with loop-carried locals
havocked.  The result of `summarise` is the list of abstract paths through one body:
path condition, returned value, ordered effects (calls) and how the path ended.

Values (immutable tuples):
  ('int', lo, hi)                abstract integer interval, hi may be INF; concrete iff lo == hi
  ('bool', b)
  ('str', s)
  ('unit',)
  ('adt', path, variant, ((field, value), ...))
  ('tuple', (values...))
  ('ref', cell_id, (proj...))    reference into the abstract store
  ('closure', def_path, (captured values...))
  ('fn', path, resolved_path)    function item
  ('sym', name)                  symbolic atom
  ('app', fname, (args...))      uninterpreted application / symbolic operation
  ('field', base, name) ('deref', base) ('downcast', base, variant) ('index', base, idx)
  ('lin', const, ((atom, coeff), ...))  linear integer expression over symbolic atoms
"""
import itertools
import re

INF = float("inf")


class Unsupported(Exception):
    pass


class PathLimit(Exception):
    pass


# ------------------------------------------------------------------ value helpers
def vint(lo, hi=None):
    return ("int", lo, lo if hi is None else hi)


def vbool(b):
    return ("bool", bool(b))


UNIT = ("unit",)


def is_concrete_int(v):
    return v[0] == "int" and v[1] == v[2]


def mk_adt(path, variant, fields):
    return ("adt", path, variant, tuple(fields))


def adt_get(v, name):
    for k, x in v[3]:
        if k == name:
            return x
    return None


def adt_set(v, name, val):
    fs = []
    done = False
    for k, x in v[3]:
        if k == name:
            fs.append((k, val))
            done = True
        else:
            fs.append((k, x))
    if not done:
        fs.append((name, val))
    return ("adt", v[1], v[2], tuple(fs))


def walk(v, f):
    """pre-order walk over a value tree, f(node) -> True to stop descending"""
    if not isinstance(v, tuple):
        return
    if f(v):
        return
    tag = v[0] if v and isinstance(v[0], str) else None
    if tag == "adt":
        for _, x in v[3]:
            walk(x, f)
    elif tag in ("tuple",):
        for x in v[1]:
            walk(x, f)
    elif tag == "closure":
        for x in v[2]:
            walk(x, f)
    elif tag == "app":
        for x in v[2]:
            walk(x, f)
    elif tag in ("field", "deref", "downcast"):
        walk(v[1], f)
    elif tag == "index":
        walk(v[1], f)
        walk(v[2], f)
    elif tag == "lin":
        for a, _ in v[2]:
            walk(a, f)
    elif tag == "loopvar":
        walk(v[3], f)


def find_all(v, pred):
    res = []

    def f(n):
        if pred(n):
            res.append(n)
        return False

    walk(v, f)
    return res


def contains(v, pred):
    return bool(find_all(v, pred))


def show(v, depth=0):
    """compact human readable rendering"""
    if not isinstance(v, tuple) or not v:
        return repr(v)
    t = v[0]
    if depth > 12:
        return "..."
    d = depth + 1
    if t == "int":
        if v[1] == v[2]:
            return str(v[1])
        return "[%s..%s]" % (v[1], "inf" if v[2] == INF else v[2])
    if t == "bool":
        return "true" if v[1] else "false"
    if t == "str":
        return repr(v[1])
    if t == "unit":
        return "()"
    if t == "adt":
        name = v[1].split("::")[-1]
        if v[2] and v[2] != name:
            name += "::" + v[2]
        fs = v[3]
        if all(k.isdigit() for k, _ in fs):
            return "%s(%s)" % (name, ", ".join(show(x, d) for _, x in fs))
        return "%s{%s}" % (name, ", ".join("%s: %s" % (k, show(x, d)) for k, x in fs))
    if t == "tuple":
        return "(" + ", ".join(show(x, d) for x in v[1]) + ")"
    if t == "ref":
        return "&cell%d%s" % (v[1], "".join("." + str(p) for p in v[2]))
    if t == "closure":
        return "closure<%s>[%s]" % (v[1].split("::", 1)[-1], ", ".join(show(x, d) for x in v[2]))
    if t == "fn":
        return "fn<%s>" % (v[2] or v[1])
    if t == "sym":
        return str(v[1])
    if t == "app":
        return "%s(%s)" % (short_fn(v[1]), ", ".join(show(x, d) for x in v[2]))
    if t == "field":
        return "%s.%s" % (show(v[1], d), v[2])
    if t == "deref":
        return "*%s" % show(v[1], d)
    if t == "downcast":
        return "(%s as %s)" % (show(v[1], d), v[2])
    if t == "index":
        return "%s[%s]" % (show(v[1], d), show(v[2], d))
    if t == "lin":
        parts = []
        for a, c in v[2]:
            parts.append(("%s" % show(a, d)) if c == 1 else "%s*%s" % (c, show(a, d)))
        if v[1] != 0 or not parts:
            parts.append(str(v[1]))
        return "(" + " + ".join(parts) + ")"
    if t == "loopvar":
        return "loopvar<bb%d,_%d>" % (v[1], v[2])
    return repr(v)


def short_fn(p):
    p = re.sub(r"<[^<>]*>", "", p)
    p = re.sub(r"<[^<>]*>", "", p)
    parts = [x for x in p.split("::") if x]
    return "::".join(parts[-2:]) if len(parts) >= 2 else p


# ------------------------------------------------------------------ linear arithmetic
def to_lin(v):
    """-> (const, {atom: coeff}) or None"""
    if v[0] == "int":
        if v[1] == v[2]:
            return (v[1], {})
        return None
    if v[0] == "lin":
        return (v[1], dict(v[2]))
    if v[0] in ("sym", "app", "field", "deref", "index", "loopvar", "downcast"):
        return (0, {v: 1})
    return None


def from_lin(c, atoms):
    atoms = {a: k for a, k in atoms.items() if k != 0}
    if not atoms:
        return vint(c)
    if c == 0 and len(atoms) == 1:
        (a, k), = atoms.items()
        if k == 1:
            return a
    return ("lin", c, tuple(sorted(atoms.items(), key=lambda x: repr(x[0]))))


def lin_add(a, b, sign=1):
    la, lb = to_lin(a), to_lin(b)
    if la is None or lb is None:
        return None
    c = la[0] + sign * lb[0]
    atoms = dict(la[1])
    for k, v in lb[1].items():
        atoms[k] = atoms.get(k, 0) + sign * v
    return from_lin(c, atoms)


def interval_binop(op, a, b):
    (_, al, ah), (_, bl, bh) = a, b
    if op == "Add":
        return vint(al + bl, ah + bh)
    if op == "Sub":
        return vint(al - bh, ah - bl)
    if op == "Mul":
        cands = []
        for x in (al, ah):
            for y in (bl, bh):
                if (x in (INF, -INF) and y == 0) or (y in (INF, -INF) and x == 0):
                    cands.append(0)
                else:
                    cands.append(x * y)
        return vint(min(cands), max(cands))
    return None


def interval_cmp(op, a, b):
    """returns True/False/None(unknown)"""
    (_, al, ah), (_, bl, bh) = a, b
    if op == "Eq":
        if al == ah == bl == bh:
            return True
        if ah < bl or bh < al:
            return False
        return None
    if op == "Ne":
        r = interval_cmp("Eq", a, b)
        return None if r is None else (not r)
    if op == "Lt":
        if ah < bl:
            return True
        if al >= bh:
            return False
        return None
    if op == "Le":
        if ah <= bl:
            return True
        if al > bh:
            return False
        return None
    if op == "Gt":
        return interval_cmp("Lt", b, a)
    if op == "Ge":
        return interval_cmp("Le", b, a)
    return None


CMP_OPS = ("Eq", "Ne", "Lt", "Le", "Gt", "Ge")


# ------------------------------------------------------------------ state
class State:
    __slots__ = ("cells", "cond", "effects", "assume", "ncell", "notes", "symmem", "written")

    def __init__(self):
        self.cells = {}
        self.cond = []       # list of (expr, value) assumptions in order
        self.assume = {}     # expr -> value
        self.effects = []
        self.ncell = [0]
        self.notes = []
        self.symmem = {}     # symbolic pointer value -> value stored through it
        self.written = set()  # cells written after creation

    def fork(self):
        s = State()
        s.cells = dict(self.cells)
        s.cond = list(self.cond)
        s.assume = dict(self.assume)
        s.effects = list(self.effects)
        s.ncell = self.ncell  # shared counter (ids unique across forks)
        s.notes = list(self.notes)
        s.symmem = dict(self.symmem)
        s.written = set(self.written)
        return s

    def new_cell(self, val):
        self.ncell[0] += 1
        cid = self.ncell[0]
        self.cells[cid] = val
        return cid


class Path:
    def __init__(self, state, ret, end, end_bb, frame_locals=None):
        self.cond = state.cond
        self.ret = ret
        self.effects = state.effects
        self.end = end          # 'return' | 'backedge' | 'diverge' | 'unreachable'
        self.end_bb = end_bb
        self.state = state
        self.locals = frame_locals or {}
        self.notes = state.notes

    def describe(self):
        c = " && ".join("%s==%s" % (show(e), show(v)) for e, v in self.cond) or "true"
        eff = "; ".join("%s(%s)" % (short_fn(e["callee"]), ", ".join(show(a) for a in e["args"])) for e in self.effects)
        return "[%s] if %s  =>  ret %s  effects{%s}" % (self.end, c, show(self.ret) if self.ret is not None else "-", eff)


class Effect(dict):
    pass


# ------------------------------------------------------------------ the engine
LOG_MACROS = ("m:log::trace", "m:log::debug", "m:log::info", "m:log::warn", "m:log::error",
              "m:trace", "m:debug", "m:info", "m:warn", "m:error")


def in_log(exp):
    return bool(exp) and any(e in LOG_MACROS or e.startswith("m:log::") for e in exp)


class Engine:
    def __init__(self, crates, inline=None, no_inline=None, max_paths=4000, max_depth=6,
                 intrinsics=None, auto_inline=True, max_inline_blocks=60):
        """crates: list of ir.Crate (local bodies may be inlined)."""
        self.crates = crates if isinstance(crates, (list, tuple)) else [crates]
        self.inline = set(strip_generics(x) for x in (inline or []))
        self.no_inline = set(strip_generics(x) for x in (no_inline or []))
        self.max_paths = max_paths
        self.max_depth = max_depth
        self.auto_inline = auto_inline
        self.max_inline_blocks = max_inline_blocks
        self.intrinsics = dict(DEFAULT_INTRINSICS)
        if intrinsics:
            self.intrinsics.update(intrinsics)
        self.npaths = 0
        self._serial = itertools.count(1)
        self.fninfo = {}
        self.index_hook = None   # f(engine, state, base_value, index_value) -> value | None
        self.call_hook = None    # f(engine, state, frame, path, resolved, args, term) -> list | NotImplemented

    # -------------------------------------------------------------- lookup
    def find_body(self, path):
        for c in self.crates:
            b = c.body(path)
            if b is not None:
                return b
        return None

    # -------------------------------------------------------------- places
    def read_path(self, st, val, proj):
        """read projection list `proj` (already evaluated elems) from value"""
        for pe in proj:
            val = self.project(st, val, pe)
        return val

    def project(self, st, val, pe):
        k = pe[0]
        if k == "deref":
            if val[0] == "ref":
                return self.read_path(st, st.cells[val[1]], val[2])
            if val in st.symmem:
                return st.symmem[val]
            return ("deref", val)
        if k == "field":
            name = pe[1]
            if val[0] == "adt":
                x = adt_get(val, name)
                if x is not None:
                    return x
                if val[1] == "?open":
                    return ("field", adt_get(val, "__base"), name)
                return ("field", val, name)
            if val[0] == "tuple":
                i = int(name)
                if i < len(val[1]):
                    return val[1][i]
            if val[0] == "closure":
                i = int(name)
                if i < len(val[2]):
                    return val[2][i]
            return ("field", val, name)
        if k == "downcast":
            if val[0] == "adt":
                return val
            return ("downcast", val, pe[1])
        if k == "index":
            if self.index_hook is not None:
                v = self.index_hook(self, st, val, pe[1])
                if v is not None:
                    return v
            return ("index", val, pe[1])
        raise Unsupported("projection %r" % (pe,))

    def eval_proj(self, st, frame, p):
        out = []
        for pe in p["p"]:
            k = pe["k"]
            if k == "deref":
                out.append(("deref",))
            elif k == "field":
                out.append(("field", pe["name"] if pe.get("name") is not None else str(pe["i"])))
            elif k == "downcast":
                out.append(("downcast", pe.get("variant")))
            elif k == "index":
                out.append(("index", self.read_local(st, frame, pe["l"])))
            elif k == "cindex":
                out.append(("index", vint(pe["i"]) if not pe.get("from_end") else ("app", "from_end", (vint(pe["i"]),))))
            elif k == "subslice":
                out.append(("index", ("app", "subslice", (vint(pe["from"]), vint(pe["to"]), vbool(pe.get("from_end"))))))
            else:
                out.append(("field", "<%s>" % k))
        return out

    def read_local(self, st, frame, l):
        cid = frame["cells"][l]
        return st.cells[cid]

    def read_place(self, st, frame, p):
        val = self.read_local(st, frame, p["l"])
        return self.read_path(st, val, self.eval_proj(st, frame, p))

    def ref_place(self, st, frame, p):
        """value of `&place`"""
        cid = frame["cells"][p["l"]]
        proj = self.eval_proj(st, frame, p)
        # normalise: follow derefs through concrete refs
        cur_c, cur_p = cid, []
        for pe in proj:
            if pe[0] == "deref":
                v = self.read_path(st, st.cells[cur_c], cur_p)
                if v[0] == "ref":
                    cur_c, cur_p = v[1], list(v[2])
                    continue
                # reference to something behind a symbolic pointer: reborrow = same pointer
                rest = proj[proj.index(pe) + 1:] if False else None
                # build a symbolic address
                base = v
                idx = proj.index(pe)
                tail = proj[idx + 1:]
                val = ("deref", base)
                for t in tail:
                    val = self.project(st, val, t)
                # &*(sym).f  -> represent as ('app','&',(value,)) unless plain reborrow
                if not tail:
                    return base
                return ("app", "&", (val,))
            cur_p.append(pe)
        return ("ref", cur_c, tuple(cur_p))

    def write_value(self, old, proj, new, st):
        """functional update of `old` at projection path"""
        if not proj:
            return new
        pe = proj[0]
        k = pe[0]
        if k == "field":
            name = pe[1]
            if old[0] == "adt":
                cur = adt_get(old, name)
                if cur is None:
                    cur = ("field", old, name)
                return adt_set(old, name, self.write_value(cur, proj[1:], new, st))
            if old[0] == "tuple":
                i = int(name)
                items = list(old[1])
                while len(items) <= i:
                    items.append(("sym", "uninit"))
                items[i] = self.write_value(items[i], proj[1:], new, st)
                return ("tuple", tuple(items))
            if old[0] == "closure":
                i = int(name)
                items = list(old[2])
                if i < len(items):
                    items[i] = self.write_value(items[i], proj[1:], new, st)
                    return ("closure", old[1], tuple(items))
            # symbolic base: turn into an open adt remembering its base
            cur = ("field", old, name)
            return adt_set(("adt", "?open", "", (("__base", old),)), name, self.write_value(cur, proj[1:], new, st))
        if k == "downcast":
            return self.write_value(old, proj[1:], new, st)
        if k == "deref":
            if old[0] == "ref":
                self.write_cell(st, old[1], list(old[2]) + list(proj[1:]), new)
                return old
            rest = list(proj[1:])
            if rest:
                cur = st.symmem.get(old, ("deref", old))
                whole = self.write_value(cur, rest, new, st)
            else:
                whole = new
            st.symmem[old] = whole
            st.effects.append(Effect(kind="store", callee="<store>", resolved="<store>",
                                     args=(old, new), proj=tuple(proj[1:]), loc=None))
            return old
        if k == "index":
            st.effects.append(Effect(kind="store_index", callee="<store_index>", resolved="<store_index>",
                                     args=(old, pe[1], new), proj=tuple(proj[1:]), loc=None))
            return ("app", "store_index", (old, pe[1], new))
        raise Unsupported("write projection %r" % (pe,))

    def write_cell(self, st, cid, proj, new):
        st.written.add(cid)
        st.cells[cid] = self.write_value(st.cells[cid], proj, new, st)

    def write_place(self, st, frame, p, new):
        cid = frame["cells"][p["l"]]
        proj = self.eval_proj(st, frame, p)
        self.write_cell(st, cid, proj, new)

    # -------------------------------------------------------------- operands
    def const_value(self, frame, c):
        v = c.get("v")
        ty = c["ty"]
        if v is None:
            return ("sym", "const?")
        if "fn" in v:
            f = v["fn"]
            key = ("fn", f["path"], f["impl"]["path"] if "impl" in f else None)
            self.fninfo[key] = f
            return key
        if "promoted" in v:
            return ("promoted", v["promoted"])
        return self.plain_const(v, ty)

    def plain_const(self, v, ty):
        if "int" in v:
            return vint(v["int"])
        if "bool" in v:
            return vbool(v["bool"])
        if "str" in v:
            return ("str", v["str"])
        if "char" in v:
            return ("str", v["char"])
        if "item" in v:
            if "val" in v:
                return self.plain_const(v["val"], ty)
            return ("sym", "const:" + v["item"])
        if "adt" in v:
            # scalar newtype constant: Term(1) etc.
            return mk_adt(v["adt"], v["adt"].split("::")[-1], [("0", vint(int(v["bits"])))])
        if "zst" in v:
            if ty.get("k") == "tuple" and not ty.get("elems"):
                return UNIT
            return ("sym", "zst:" + v["zst"])
        if "bits" in v:
            return vint(int(v["bits"]))
        if "tyconst" in v:
            t = v["tyconst"]
            if len(t) >= 2 and t[0] == '"' and t[-1] == '"':
                try:
                    import json as _json
                    return ("str", _json.loads(t))
                except ValueError:
                    return ("str", t[1:-1])
        return ("sym", "const:" + repr(v))

    def operand(self, st, frame, o):
        k = o["k"]
        if k in ("copy", "move"):
            return self.read_place(st, frame, o["pl"])
        if k == "const":
            v = self.const_value(frame, o)
            if v[0] == "promoted":
                return self.eval_promoted(st, frame, v[1])
            return v
        return ("sym", "runtimecheck")

    def eval_promoted(self, st, frame, idx):
        body = frame["body"]
        owner = body if body.promoted_of is None else body.promoted_of
        key = (owner.path, idx)
        pb = owner.promoted[idx]
        # promoted bodies are straight-line constant computations returning a reference
        paths = self.run_body(st, pb, [], depth=frame["depth"] + 1)
        if len(paths) != 1:
            raise Unsupported("promoted with %d paths" % len(paths))
        st2, ret = paths[0]
        # merge state (st2 is a fork of st): adopt cells
        st.cells.update(st2.cells)
        return ret

    # -------------------------------------------------------------- rvalues
    def binop(self, st, op, a, b):
        base = op.replace("WithOverflow", "").replace("Unchecked", "")
        with_overflow = op.endswith("WithOverflow")
        res = None
        if base in ("Add", "Sub", "Mul"):
            if a[0] == "int" and b[0] == "int":
                res = interval_binop(base, a, b)
            if res is None and base in ("Add", "Sub"):
                res = lin_add(a, b, 1 if base == "Add" else -1)
            if res is None:
                res = ("app", base, (a, b))
            if with_overflow:
                return ("tuple", (res, vbool(False)))
            return res
        if base in CMP_OPS:
            a2, b2 = self.scalarize(a), self.scalarize(b)
            if a2[0] == "int" and b2[0] == "int":
                r = interval_cmp(base, a2, b2)
                if r is not None:
                    return vbool(r)
            if a2[0] == "bool" and b2[0] == "bool" and base in ("Eq", "Ne"):
                return vbool((a2[1] == b2[1]) == (base == "Eq"))
            if a2 == b2 and a2[0] != "int":
                if base in ("Eq", "Le", "Ge"):
                    return vbool(True)
                return vbool(False)
            d = lin_add(a2, b2, -1)
            if d is not None and d[0] == "int":
                # difference is a constant
                return vbool(interval_cmp(base, d, vint(0)))
            if base in ("Eq", "Ne") and a2[0] == "bool":
                # bool == sym  -> sym or not sym
                return ("app", base, (a2, b2))
            # canonical form of an order comparison with an exact integer constant: Le(x, k) or Gt(x, k), constant on the right
            # (x < 2, 2 > x, 1 >= x all become Le(x, 1)), so that rules recognise one spelling of e.g. `is a truth value`
            if base in ("Lt", "Le", "Gt", "Ge"):
                ca = a2[0] == "int" and a2[1] == a2[2]
                cb = b2[0] == "int" and b2[1] == b2[2]
                if cb and not ca:
                    k = b2[1]
                    if base == "Lt" and k >= 1:
                        return ("app", "Le", (a2, vint(k - 1)))
                    if base == "Ge" and k >= 1:
                        return ("app", "Gt", (a2, vint(k - 1)))
                elif ca and not cb:
                    k = a2[1]
                    if base == "Lt":
                        return ("app", "Gt", (b2, a2))
                    if base == "Le" and k >= 1:
                        return ("app", "Gt", (b2, vint(k - 1)))
                    if base == "Gt" and k >= 1:
                        return ("app", "Le", (b2, vint(k - 1)))
                    if base == "Ge":
                        return ("app", "Le", (b2, a2))
            return ("app", base, (a2, b2))
        if base in ("BitAnd", "BitOr", "BitXor"):
            if a[0] == "bool" and b[0] == "bool":
                return vbool({"BitAnd": a[1] and b[1], "BitOr": a[1] or b[1], "BitXor": a[1] != b[1]}[base])
            if a[0] == "bool":
                a, b = b, a
            if b[0] == "bool":
                if base == "BitAnd":
                    return a if b[1] else vbool(False)
                if base == "BitOr":
                    return vbool(True) if b[1] else a
            return ("app", base, (a, b))
        return ("app", base, (a, b))

    def scalarize(self, v):
        return v

    def unop(self, st, op, a):
        if op == "Not":
            if a[0] == "bool":
                return vbool(not a[1])
            if a[0] == "app" and a[1] == "Not":
                return a[2][0]
            return ("app", "Not", (a,))
        if op == "Neg":
            if a[0] == "int":
                return vint(-a[2], -a[1])
            return ("app", "Neg", (a,))
        if op == "PtrMetadata":
            return ("app", "len", (a,))
        return ("app", op, (a,))

    def rvalue(self, st, frame, rv):
        k = rv["k"]
        if k == "use":
            return self.operand(st, frame, rv["o"])
        if k == "ref" or k == "rawptr":
            return self.ref_place(st, frame, rv["pl"])
        if k == "binop":
            return self.binop(st, rv["op"], self.operand(st, frame, rv["l"]), self.operand(st, frame, rv["r"]))
        if k == "unop":
            return self.unop(st, rv["op"], self.operand(st, frame, rv["o"]))
        if k == "cast":
            v = self.operand(st, frame, rv["o"])
            kind = rv["kind"]
            if kind.startswith("PointerCoercion") or kind in ("IntToInt", "PtrToPtr", "Transmute", "Subtype"):
                return v
            return ("app", "cast:" + kind, (v,))
        if k == "discriminant":
            v = self.read_place(st, frame, rv["pl"])
            return self.discriminant(st, frame, v, rv["pl"])
        if k == "aggregate":
            kind = rv["kind"]
            ops = [self.operand(st, frame, o) for o in rv["ops"]]
            kk = kind["k"]
            if kk == "tuple":
                if not ops:
                    return UNIT
                return ("tuple", tuple(ops))
            if kk == "array":
                return ("app", "array", tuple(ops))
            if kk == "adt":
                return mk_adt(kind["path"], kind["variant"], list(zip(kind["fields"], ops)))
            if kk in ("closure", "coroutine", "coroutineclosure"):
                return ("closure", kind["def"], tuple(ops))
            return ("app", "aggregate:" + kk, tuple(ops))
        if k == "repeat":
            return ("app", "repeat", (self.operand(st, frame, rv["o"]),))
        return ("sym", "rvalue:" + rv.get("s", k)[:60])

    def discriminant(self, st, frame, v, place=None):
        if v[0] == "adt":
            # need the variant index: look it up via adt table
            for c in self.crates:
                a = c.adts.get(v[1])
                if a:
                    for i, var in enumerate(a["variants"]):
                        if var["name"] == v[2]:
                            return vint(i)
            std = {"Some": 1, "None": 0, "Ok": 0, "Err": 1, "Less": -1, "Equal": 0, "Greater": 1,
                   "Continue": 0, "Break": 1}
            if v[2] in std:
                return vint(std[v[2]])
            return ("app", "discr", (v,))
        if v[0] == "bool":
            return vint(1 if v[1] else 0)
        return ("app", "discr", (v,))

    # -------------------------------------------------------------- calls
    def callee_info(self, st, frame, t):
        f = t["f"]
        if f["k"] == "const":
            v = self.const_value(frame, f)
            if v[0] == "fn":
                return v
            return None
        v = self.operand(st, frame, f)
        if v[0] == "fn":
            return v
        return ("dyn", v)

    def should_inline(self, body, depth):
        if body is None:
            return False
        sp = strip_generics(body.path)
        if sp in self.no_inline:
            return False
        if sp in self.inline:
            return True
        if not self.auto_inline:
            return False
        if depth >= self.max_depth:
            return False
        if len(body.blocks) > self.max_inline_blocks:
            return False
        if body.back_edges():
            return False
        return True

    # -------------------------------------------------------------- run
    def summarise(self, body, args=None, state=None):
        """args: list of initial values for the parameters (None entries = default symbols).
        Returns list of Path."""
        self.npaths = 0
        st = state or State()
        n = body.argc
        vals = []
        for i in range(n):
            if args is not None and i < len(args) and args[i] is not None:
                vals.append(args[i])
            else:
                vals.append(self.default_arg(st, body, i + 1))
        out = []
        self._run(st, body, vals, 0, out, top=True)
        return out

    def default_arg(self, st, body, local):
        ty = body.locals[local]["ty"]
        name = "arg%d" % local
        return self.sym_of_type(st, ty, name)

    def sym_of_type(self, st, ty, name):
        k = ty.get("k")
        if k == "ref":
            inner = self.sym_of_type(st, ty["to"], "*" + name)
            cid = st.new_cell(inner)
            return ("ref", cid, ())
        if k == "tuple":
            if not ty["elems"]:
                return UNIT
            return ("tuple", tuple(self.sym_of_type(st, e, "%s.%d" % (name, i)) for i, e in enumerate(ty["elems"])))
        if k == "prim" and ty.get("s") == "bool":
            return ("sym", name)
        return ("sym", name)

    def run_body(self, st, body, args, depth):
        """run a callee to completion; returns list of (state, retval) for normal returns.
        Diverging paths are dropped (recorded in notes)."""
        out = []
        self._run(st.fork(), body, args, depth, out, top=False)
        res = []
        for p in out:
            if p.end == "return":
                res.append((p.state, p.ret))
            elif p.end == "backedge":
                raise Unsupported("loop in inlined callee " + body.path)
        return res

    def _run(self, st, body, args, depth, out, top):
        frame = {"body": body, "cells": {}, "depth": depth, "loops": body.natural_loops(), "heads_seen": set()}
        for i in range(len(body.locals)):
            frame["cells"][i] = st.new_cell(("sym", "uninit"))
        for i, a in enumerate(args):
            st.cells[frame["cells"][i + 1]] = a
        self._exec(st, frame, 0, out, top, set())

    def _finish(self, st, frame, end, bb, out):
        self.npaths += 1
        if self.npaths > self.max_paths:
            raise PathLimit("more than %d paths in %s" % (self.max_paths, frame["body"].path))
        ret = st.cells[frame["cells"][0]] if end == "return" else None
        if ret is not None:
            ret = self.deep_resolve(st, ret)
        loc = {i: st.cells[c] for i, c in frame["cells"].items()}
        out.append(Path(st, ret, end, bb, loc))

    def deep_resolve(self, st, v, depth=0):
        """no-op placeholder: references stay references (callers may read cells)"""
        return v

    def loop_assigned_locals(self, body, blocks):
        res = set()
        for b in blocks:
            blk = body.blocks[b]
            for s in blk["stmts"]:
                if s["k"] in ("assign", "setdiscr"):
                    if not any(pe["k"] == "deref" for pe in s["pl"]["p"]):
                        res.add(s["pl"]["l"])
                    # a mutable borrow inside the loop: the borrowed local may change
                    if s["k"] == "assign" and s["rv"]["k"] == "ref" and s["rv"].get("mut") \
                            and not any(pe["k"] == "deref" for pe in s["rv"]["pl"]["p"]):
                        res.add(s["rv"]["pl"]["l"])
            t = blk["term"]
            if t["k"] == "call":
                res.add(t["dest"]["l"])
                # &mut arguments may be modified: handled at call time (havoc of referent)
        return res

    def _exec(self, st, frame, bb, out, top, heads_active):
        body = frame["body"]
        while True:
            # loop handling
            if bb in frame["loops"]:
                if bb in heads_active:
                    self._finish(st, frame, "backedge", bb, out)
                    return
                heads_active = heads_active | {bb}
                # havoc loop-carried locals
                for l in sorted(self.loop_assigned_locals(body, frame["loops"][bb])):
                    cid = frame["cells"][l]
                    init = st.cells[cid]
                    st.cells[cid] = ("loopvar", bb, l, init)
                st.notes.append(("loop", bb))
            blk = body.blocks[bb]
            for s in blk["stmts"]:
                k = s["k"]
                if k == "assign":
                    if in_log(s.get("exp")):
                        continue
                    val = self.rvalue(st, frame, s["rv"])
                    self.write_place(st, frame, s["pl"], val)
                elif k == "setdiscr":
                    pass
            t = blk["term"]
            k = t["k"]
            if k == "goto":
                bb = t["t"]
                continue
            if k in ("falseedge", "falseunwind"):
                bb = t["t"]
                continue
            if k == "return":
                self._finish(st, frame, "return", bb, out)
                return
            if k in ("unreachable",):
                self._finish(st, frame, "unreachable", bb, out)
                return
            if k in ("resume", "terminate"):
                self._finish(st, frame, "diverge", bb, out)
                return
            if k == "drop":
                if not t.get("replace"):
                    v = None
                    st.effects.append(Effect(kind="drop", callee="<drop>", resolved="<drop>",
                                             args=(self.place_id(st, frame, t["pl"]),), loc=t.get("loc"),
                                             local=t["pl"]["l"], ncond=len(st.cond)))
                bb = t["t"]
                continue
            if k == "assert":
                c = self.operand(st, frame, t["cond"])
                if c[0] == "bool" and c[1] != t["expected"]:
                    self._finish(st, frame, "diverge", bb, out)
                    return
                if c[0] != "bool":
                    st.notes.append(("assert", t["msg"], c))
                bb = t["t"]
                continue
            if k == "switch":
                d = self.operand(st, frame, t["d"])
                if in_log(t.get("exp")):
                    # log level test: take the "disabled" edge
                    zero = [b for v, b in t["targets"] if v == "0"]
                    bb = zero[0] if zero else t["otherwise"]
                    continue
                nxt = self.switch(st, frame, t, d)
                if len(nxt) == 1:
                    st, bb = nxt[0]
                    continue
                for (s2, b2) in nxt:
                    self._exec(s2, frame_fork(frame), b2, out, top, heads_active)
                return
            if k == "yield":
                st.effects.append(Effect(kind="yield", callee="<yield>", resolved="<yield>",
                                         args=(self.operand(st, frame, t["value"]),), loc=t.get("loc"),
                                         ncond=len(st.cond)))
                bb = t["t"]
                continue
            if k == "call":
                if in_log(t.get("exp")):
                    if t["t"] is None:
                        self._finish(st, frame, "diverge", bb, out)
                        return
                    self.write_place(st, frame, t["dest"], ("sym", "log"))
                    bb = t["t"]
                    continue
                conts = self.call(st, frame, t)
                if t["t"] is None:
                    for (s2, _v) in conts:
                        self._finish(s2, frame, "diverge", bb, out)
                    return
                if len(conts) == 1:
                    st, v = conts[0]
                    if v is DIVERGE:
                        self._finish(st, frame, "diverge", bb, out)
                        return
                    self.write_place(st, frame, t["dest"], v)
                    bb = t["t"]
                    continue
                for (s2, v) in conts:
                    if v is DIVERGE:
                        self._finish(s2, frame, "diverge", bb, out)
                        continue
                    f2 = frame_fork(frame)
                    self.write_place(s2, f2, t["dest"], v)
                    self._exec(s2, f2, t["t"], out, top, heads_active)
                return
            if k == "tailcall":
                raise Unsupported("tailcall")
            raise Unsupported("terminator " + k)

    def place_id(self, st, frame, p):
        return ("ref", frame["cells"][p["l"]], tuple(self.eval_proj(st, frame, p)))

    def switch(self, st, frame, t, d):
        """returns list of (state, target bb); the failing arm of a debug_assert! is not followed: a debug assertion is an assumption of the code, compiled out of
        the shipped binary, and its panic path is not a behaviour the rules have to account for"""
        res = self._switch(st, frame, t, d)
        body = frame["body"]

        def dbg_fail(bb):
            tt = body.blocks[bb]["term"]
            return tt["k"] == "call" and tt.get("t") is None and any(str(x_).startswith("m:debug_assert") for x_ in (tt.get("exp") or []))
        kept = [(s_, b_) for s_, b_ in res if not dbg_fail(b_)]
        return kept if kept else res

    def _switch(self, st, frame, t, d):
        targets = [(int(v), b) for v, b in t["targets"]]
        if d[0] == "bool":
            d = vint(1 if d[1] else 0)
        if d[0] == "int":
            if d[1] == d[2]:
                for v, b in targets:
                    if v == d[1]:
                        return [(st, b)]
                return [(st, t["otherwise"])]
            # interval: fork over feasible targets
            res = []
            covered_all = True
            for v, b in targets:
                if d[1] <= v <= d[2]:
                    s2 = st.fork()
                    s2.cond.append((d, vint(v)))
                    res.append((s2, b))
            # otherwise feasible if interval has values outside targets
            tv = set(v for v, _ in targets)
            rng_size = (d[2] - d[1] + 1) if d[2] != INF else INF
            if rng_size == INF or any(x not in tv for x in range(int(d[1]), int(d[2]) + 1)):
                s2 = st.fork()
                s2.cond.append((d, ("sym", "other")))
                res.append((s2, t["otherwise"]))
            return res
        # symbolic discriminant
        key = d
        if key not in st.assume:
            # a test of !x after x was decided on this path (or the other way round) takes the consistent edge only: `let c = x; if !c {..}; !c` does not fork twice
            nk = key[2][0] if (key[0] == "app" and key[1] == "Not" and len(key[2]) == 1) else ("app", "Not", (key,))
            a = st.assume.get(nk)
            if a is not None and a[0] == "int" and a[1] == a[2] and a[1] in (0, 1):
                st.assume[key] = vint(1 - a[1])
            # `x?` on an Option/Result whose variant was decided on this path: discr(Try::branch(x)) (Continue = 0, Break = 1) follows discr(x)
            # (Option: None = 0, Some = 1; Result: Ok = 0, Err = 1), also through as_ref / as_mut
            if key not in st.assume and key[0] == "app" and key[1] == "discr" and len(key[2]) == 1:
                y = key[2][0]
                if y[0] == "app" and str(y[1]).endswith("::branch") and len(y[2]) == 1:
                    is_opt = "option::Option" in str(y[1])
                    o = y[2][0]
                    while o[0] == "app" and str(o[1]).split("::")[-1] in ("as_ref", "as_mut", "&", "as_deref") and o[2]:
                        o = o[2][0]
                    if o[0] == "adt" and o[2] in ("Some", "None", "Ok", "Err"):
                        st.assume[key] = vint(0 if o[2] in ("Some", "Ok") else 1)
                    a2 = st.assume.get(("app", "discr", (o,)))
                    if a2 is not None and a2[0] == "notin" and len(a2[1]) == 1 and a2[1][0] in (0, 1):
                        a2 = vint(1 - a2[1][0])      # Option / Result have two variants: "not Some" is None
                    if a2 is not None and a2[0] == "int" and a2[1] == a2[2] and a2[1] in (0, 1):
                        st.assume[key] = vint(1 - a2[1]) if is_opt else vint(a2[1])
        if key in st.assume:
            a = st.assume[key]
            if a[0] == "int":
                for v, b in targets:
                    if v == a[1]:
                        return [(st, b)]
                return [(st, t["otherwise"])]
            # assumed "not any of"
            excl = a[1]
            res = []
            for v, b in targets:
                if v not in excl:
                    s2 = st.fork()
                    s2.cond.append((key, vint(v)))
                    s2.assume[key] = vint(v)
                    res.append((s2, b))
            s2 = st.fork()
            res.append((s2, t["otherwise"]))
            return res
        res = []
        is_boolish = self.is_bool_discr(frame, t)
        for v, b in targets:
            s2 = st.fork()
            s2.cond.append((key, vint(v)))
            s2.assume[key] = vint(v)
            res.append((s2, b))
        ob = t["otherwise"]
        # unreachable otherwise blocks are skipped
        if frame["body"].blocks[ob]["term"]["k"] == "unreachable" and not frame["body"].blocks[ob]["stmts"]:
            return res
        s2 = st.fork()
        if is_boolish and len(targets) == 1:
            other = 1 - targets[0][0]
            s2.cond.append((key, vint(other)))
            s2.assume[key] = vint(other)
        else:
            s2.cond.append((key, ("notin", tuple(v for v, _ in targets))))
            s2.assume[key] = ("notin", tuple(v for v, _ in targets))
        res.append((s2, ob))
        return res

    def is_bool_discr(self, frame, t):
        ty = t.get("dty") or {}
        return ty.get("k") == "prim" and ty.get("s") == "bool"

    # -------------------------------------------------------------- call dispatch
    def call(self, st, frame, t):
        """returns list of (state, value|DIVERGE)"""
        ci = self.callee_info(st, frame, t)
        args = [self.operand(st, frame, a) for a in t["args"]]
        loc = t.get("loc")
        if ci is None:
            return [(st, ("sym", "call?"))]
        if ci[0] == "dyn":
            # call through a function value (fn pointer / dyn Fn): uninterpreted
            return [(st, self.record_call(st, "<indirect>", "<indirect>", [ci[1]] + args, loc, t))]
        path, resolved, finfo = ci[1], ci[2], self.fninfo.get(ci)
        return self.dispatch(st, frame, path, resolved, finfo, args, loc, t)

    def dispatch(self, st, frame, path, resolved, finfo, args, loc, t):
        target = resolved or path
        # 1. closure call through Fn/FnMut/FnOnce
        base = path.split("::")[-1]
        if path in ("std::ops::Fn::call", "std::ops::FnMut::call_mut", "std::ops::FnOnce::call_once",
                    "core::ops::Fn::call", "core::ops::FnMut::call_mut", "core::ops::FnOnce::call_once"):
            clo = args[0]
            if clo[0] == "ref":
                clo_v = self.read_path(st, st.cells[clo[1]], clo[2])
            else:
                clo_v = clo
            if clo_v[0] == "closure":
                cb = self.find_body(clo_v[1])
                if cb is not None and frame["depth"] < self.max_depth:
                    packed = args[1]
                    spread = list(packed[1]) if packed[0] == "tuple" else ([] if packed == UNIT else [packed])
                    env = clo if clo[0] == "ref" else ("ref", st.new_cell(clo_v), ())
                    # by-value closures (FnOnce) take the closure itself
                    first_ty = cb.locals[1]["ty"]
                    a0 = env if first_ty.get("k") == "ref" else clo_v
                    return self.inline_call(st, frame, cb, [a0] + spread)
            if clo_v[0] == "fn":
                spread = list(args[1][1]) if args[1][0] == "tuple" else ([] if args[1] == UNIT else [args[1]])
                return self.dispatch(st, frame, clo_v[1], clo_v[2], self.fninfo.get(clo_v), spread, loc, t)
        if self.call_hook is not None:
            r = self.call_hook(self, st, frame, path, target, args, t)
            if r is not NotImplemented:
                return r
        # 2. intrinsics
        for key in (target, path):
            h = self.intrinsics.get(key)
            if h is None:
                h = self.intrinsics.get(strip_generics(key))
            if h is not None:
                r = h(self, st, frame, args, finfo, t)
                if r is not NotImplemented:
                    return r
        for pat, h in PATTERN_INTRINSICS:
            if pat.search(target) or pat.search(path):
                r = h(self, st, frame, args, finfo, t)
                if r is not NotImplemented:
                    return r
        # 3. local body inlining
        b = self.find_body(target)
        if b is None and resolved is None:
            b = self.find_body(path)
        if b is not None and b.kind != "closure" and self.should_inline(b, frame["depth"]):
            if not self.recursing(frame, b):
                return self.inline_call(st, frame, b, args)
        # 4. uninterpreted
        return [(st, self.record_call(st, path, target, args, loc, t, frame))]

    def recursing(self, frame, b):
        f = frame
        while f is not None:
            if f["body"].path == b.path:
                return True
            f = f.get("caller")
        return False

    def inline_call(self, st, frame, body, args):
        out = []
        st2 = st.fork()
        sub = []
        fr = {"body": body, "cells": {}, "depth": frame["depth"] + 1, "loops": body.natural_loops(),
              "caller": frame}
        for i in range(len(body.locals)):
            fr["cells"][i] = st2.new_cell(("sym", "uninit"))
        for i, a in enumerate(args):
            if i + 1 < len(body.locals):
                st2.cells[fr["cells"][i + 1]] = a
        self._exec(st2, fr, 0, sub, False, set())
        res = []
        for p in sub:
            if p.end == "return":
                res.append((p.state, p.ret))
            elif p.end in ("diverge", "unreachable"):
                res.append((p.state, DIVERGE))
            elif p.end == "backedge":
                # loop inside an inlined callee: keep the cut path as a diverging one but note it
                p.state.notes.append(("inlined-loop-cut", body.path))
                res.append((p.state, ("app", "loopcut:" + body.path, ())))
        return res

    def record_call(self, st, path, target, args, loc, t, frame=None):
        n = next(self._serial)
        # arguments as seen at call time (references resolved one level for readability)
        seen = tuple(self.snapshot(st, a) for a in args)
        res = ("app", target, seen)
        st.effects.append(Effect(kind="call", callee=path, resolved=target, args=seen, raw_args=tuple(args),
                                 loc=loc, ncond=len(st.cond), serial=n, result=res,
                                 exp=t.get("exp") if t else None))
        # std collection mutators called through `&mut`: the referent gets a new version
        if t is not None and frame is not None:
            external = target.startswith(STD_PREFIXES) or self.find_body(target) is None
            for i, a in enumerate(args):
                if not external and i == 0:
                    continue  # `&mut self` of a local, non-inlined callee: its effects are the rule's business
                if a[0] == "ref" and i < len(t["args"]) and self.is_mut_ref_operand(frame, t["args"][i]):
                    old = self.read_path(st, st.cells[a[1]], a[2])
                    others = tuple(x for j, x in enumerate(seen) if j != i)
                    self.write_cell(st, a[1], list(a[2]), ("app", "upd:" + target, (old,) + others))
        return res

    def is_mut_ref_operand(self, frame, o):
        if o["k"] not in ("move", "copy"):
            return False
        pl = o["pl"]
        if pl["p"]:
            return False
        ty = frame["body"].locals[pl["l"]]["ty"]
        return ty.get("k") == "ref" and ty.get("mut")

    def snapshot(self, st, v, depth=0):
        """replace concrete references by their current referent value (&v)"""
        if depth > 4:
            return v
        if v[0] == "ref":
            inner = self.read_path(st, st.cells[v[1]], v[2])
            return ("app", "&", (self.snapshot(st, inner, depth + 1),))
        if v in st.symmem:
            return ("app", "&", (self.snapshot(st, st.symmem[v], depth + 1),))
        if v[0] == "tuple":
            return ("tuple", tuple(self.snapshot(st, x, depth + 1) for x in v[1]))
        if v[0] == "adt":
            return ("adt", v[1], v[2], tuple((k, self.snapshot(st, x, depth + 1)) for k, x in v[3]))
        if v[0] == "closure":
            return ("closure", v[1], tuple(self.snapshot(st, x, depth + 1) for x in v[2]))
        if v[0] == "app":
            return ("app", v[1], tuple(self.snapshot(st, x, depth + 1) for x in v[2]))
        return v

    # -------------------------------------------------------------- closures
    def closure_env(self, st, closure_body, captures):
        """build the first argument of a closure body from capture values (given as plain values);
        captures used through a dereference in the body are passed by reference"""
        byref = set()
        for d in closure_body.debug:
            v = d["v"]
            if "l" in v and v["l"] == 1:
                ps = v["p"]
                for i, pe in enumerate(ps):
                    if pe["k"] == "field":
                        if any(q["k"] == "deref" for q in ps[i + 1:]):
                            byref.add(pe["i"])
                        break
        # also scan the body for (*_1.i) uses
        for _, _, s_ in closure_body.statements():
            pass
        vals = []
        for i, c in enumerate(captures):
            if i in byref and c[0] != "ref":
                vals.append(("ref", st.new_cell(c), ()))
            else:
                vals.append(c)
        clo = ("closure", closure_body.path, tuple(vals))
        first_ty = closure_body.locals[1]["ty"]
        if first_ty.get("k") == "ref":
            return ("ref", st.new_cell(clo), ())
        return clo


DIVERGE = object()
STD_PREFIXES = ("std::", "core::", "alloc::", "hashbrown::", "<std::", "<core::", "<alloc::", "<hashbrown::")


def frame_fork(frame):
    f = dict(frame)
    return f


def strip_generics(p):
    prev = None
    while prev != p:
        prev = p
        p = re.sub(r"::<[^<>]*>", "", p)
    return p


# ------------------------------------------------------------------ intrinsic models
def deref_val(eng, st, v):
    """value behind a reference value (concrete cell or symbolic)"""
    if v[0] == "ref":
        return eng.read_path(st, st.cells[v[1]], v[2])
    if v[0] == "app" and v[1] == "&":
        return v[2][0]
    return ("deref", v)


def newtype_int(v):
    """Term(n)/Var(n) -> the int value n, otherwise None"""
    if v[0] == "adt" and len(v[3]) == 1 and v[3][0][0] == "0":
        return v[3][0][1]
    return None


def _i_identity(eng, st, frame, args, finfo, t):
    return [(st, args[0])]


def _i_deref(eng, st, frame, args, finfo, t):
    # Deref::deref(&x) -> &(target); for newtypes Term/Var: &x.0 ; for Vec/String/Arc etc: keep symbolic view
    a = args[0]
    inner = deref_val(eng, st, a)
    nt = newtype_int(inner)
    if nt is not None and a[0] == "ref":
        return [(st, ("ref", a[1], a[2] + (("field", "0"),)))]
    # Vec<T> -> [T], String -> str, Arc<T> -> T ...: same object viewed differently
    return [(st, a)]


def _i_clone(eng, st, frame, args, finfo, t):
    a = args[0]
    inner = deref_val(eng, st, a)
    return [(st, inner)]


def _i_partial_eq(neg):
    def h(eng, st, frame, args, finfo, t):
        a, b = deref_val(eng, st, args[0]), deref_val(eng, st, args[1])
        # look through one more reference level (&&T == &&T)
        for _ in range(2):
            if a[0] == "ref" or (a[0] == "app" and a[1] == "&"):
                a = deref_val(eng, st, a)
            if b[0] == "ref" or (b[0] == "app" and b[1] == "&"):
                b = deref_val(eng, st, b)
        r = values_eq(eng, st, a, b)
        if r[0] == "bool":
            return [(st, vbool(r[1] != neg))]
        if neg:
            return [(st, ("app", "Not", (r,)))]
        return [(st, r)]
    return h


def values_eq(eng, st, a, b):
    if a == b and not contains(a, lambda n: n[0] == "int" and n[1] != n[2]):
        return vbool(True)
    if a[0] == "adt" and b[0] == "adt" and a[1] == b[1]:
        if a[2] != b[2]:
            return vbool(False)
        acc = vbool(True)
        for (k, x) in a[3]:
            y = adt_get(b, k)
            if y is None:
                return ("app", "Eq", (a, b))
            r = values_eq(eng, st, x, y)
            if r[0] == "bool":
                if not r[1]:
                    return vbool(False)
            else:
                acc = r if acc == vbool(True) else ("app", "BitAnd", (acc, r))
        return acc
    if a[0] == "tuple" and b[0] == "tuple" and len(a[1]) == len(b[1]):
        acc = vbool(True)
        for x, y in zip(a[1], b[1]):
            r = values_eq(eng, st, x, y)
            if r[0] == "bool":
                if not r[1]:
                    return vbool(False)
            else:
                acc = r if acc == vbool(True) else ("app", "BitAnd", (acc, r))
        return acc
    if a[0] in ("int", "lin") or b[0] in ("int", "lin"):
        return eng.binop(st, "Eq", a, b)
    if a[0] == "bool" and b[0] == "bool":
        return vbool(a[1] == b[1])
    if a[0] == "str" and b[0] == "str":
        return vbool(a[1] == b[1])
    return ("app", "Eq", tuple(sorted((a, b), key=repr)))


def _i_partial_ord(op):
    def h(eng, st, frame, args, finfo, t):
        a, b = deref_val(eng, st, args[0]), deref_val(eng, st, args[1])
        na, nb = newtype_int(a), newtype_int(b)
        if na is not None and nb is not None:
            a, b = na, nb
        return [(st, eng.binop(st, op, a, b))]
    return h


def _i_minmax(which):
    def h(eng, st, frame, args, finfo, t):
        a, b = args[0], args[1]
        if a[0] == "int" and b[0] == "int" and a[1] == a[2] and b[1] == b[2]:
            return [(st, vint(min(a[1], b[1]) if which == "min" else max(a[1], b[1])))]
        xs = []
        for x in (a, b):
            if x[0] == "app" and x[1] == which:
                xs.extend(x[2])
            else:
                xs.append(x)
        xs = tuple(sorted(set(xs), key=repr))
        if len(xs) == 1:
            return [(st, xs[0])]
        return [(st, ("app", which, xs))]
    return h


def _ty_key(t):
    from . import ir as _ir
    return _ir.ty_str(t)


def _i_from_into(eng, st, frame, args, finfo, t):
    """<T as Into<U>>::into(x) = <U as From<T>>::from(x): inline a local From impl if there is one"""
    if finfo is None:
        return NotImplemented
    targs = (finfo.get("impl") or {}).get("args") or finfo.get("args") or []
    if len(targs) < 2:
        return NotImplemented
    T, U = targs[0], targs[1]
    if _ty_key(T) == _ty_key(U):
        return [(st, args[0])]
    for c in eng.crates:
        for b in c.all_bodies:
            if b.impl_trait in ("std::convert::From", "core::convert::From") and b.impl_self is not None:
                ta = b.raw.get("impl_trait_args") or []
                if _ty_key(b.impl_self) == _ty_key(U) and ta and _ty_key(ta[-1]) == _ty_key(T):
                    if eng.should_inline(b, frame["depth"]) and not eng.recursing(frame, b):
                        return eng.inline_call(st, frame, b, args)
    return NotImplemented


def _i_try_into(eng, st, frame, args, finfo, t):
    """integer TryInto/TryFrom: modelled as the successful conversion Ok(x)"""
    return [(st, mk_adt("std::result::Result", "Ok", [("0", args[0])]))]


def _i_pow(eng, st, frame, args, finfo, t):
    a, b = args[0], args[1]
    if is_concrete_int(a) and is_concrete_int(b) and 0 <= b[1] < 256:
        return [(st, vint(a[1] ** b[1]))]
    return [(st, ("app", "pow", (a, b)))]


def _i_index(eng, st, frame, args, finfo, t):
    """Index::index(&container, idx) -> reference to the element (hookable)"""
    base = deref_val(eng, st, args[0])
    idx = args[1]
    mutable = bool(finfo) and finfo.get("path", "").endswith("index_mut")
    v = None
    if eng.index_hook is not None:
        v = eng.index_hook(eng, st, base, idx)
    if mutable:
        # element handed out for writing: a cell whose final content the rules can read back
        init = v if v is not None else ("index", base, idx)
        cid = st.new_cell(init)
        st.effects.append(Effect(kind="index_mut", callee="<index_mut>", resolved="<index_mut>", args=(base, idx), cell=cid,
                                 init=init, loc=t.get("loc") if t else None, ncond=len(st.cond)))
        return [(st, ("ref", cid, ()))]
    if v is not None:
        return [(st, ("ref", st.new_cell(v), ()))]
    return [(st, ("app", "&", (("index", base, idx),)))]


def _i_option_unwrap(eng, st, frame, args, finfo, t):
    a = args[0]
    if a[0] == "adt" and a[2] in ("Some", "Ok"):
        return [(st, a[3][0][1])]
    return [(st, ("app", "unwrap", (a,)))]


def _i_discr_test(variant_idx, negate=False):
    """Option::is_some / is_none / Result::is_ok / is_err: fork on the discriminant so that later matches agree"""
    def h(eng, st, frame, args, finfo, t):
        v = deref_val(eng, st, args[0])
        d = eng.discriminant(st, frame, v)
        if d[0] == "int" and d[1] == d[2]:
            return [(st, vbool((d[1] == variant_idx) != negate))]
        if d in st.assume:
            a = st.assume[d]
            if a[0] == "int":
                return [(st, vbool((a[1] == variant_idx) != negate))]
        s1, s2 = st.fork(), st.fork()
        s1.cond.append((d, vint(variant_idx)))
        s1.assume[d] = vint(variant_idx)
        other = 1 - variant_idx
        s2.cond.append((d, vint(other)))
        s2.assume[d] = vint(other)
        return [(s1, vbool(not negate)), (s2, vbool(negate))]
    return h


def _i_box_new(eng, st, frame, args, finfo, t):
    return [(st, ("app", "Box", (args[0],)))]


DEFAULT_INTRINSICS = {
    "std::ops::Deref::deref": _i_deref,
    "std::ops::DerefMut::deref_mut": _i_deref,
    "<std::vec::Vec<T, A> as std::ops::Deref>::deref": _i_deref,
    "<std::vec::Vec<T, A> as std::ops::DerefMut>::deref_mut": _i_deref,
    "std::clone::Clone::clone": _i_clone,
    "std::cmp::PartialEq::eq": _i_partial_eq(False),
    "std::cmp::PartialEq::ne": _i_partial_eq(True),
    "std::cmp::PartialOrd::lt": _i_partial_ord("Lt"),
    "std::cmp::PartialOrd::le": _i_partial_ord("Le"),
    "std::cmp::PartialOrd::gt": _i_partial_ord("Gt"),
    "std::cmp::PartialOrd::ge": _i_partial_ord("Ge"),
    "std::cmp::min": _i_minmax("min"),
    "std::cmp::max": _i_minmax("max"),
    "std::cmp::Ord::min": _i_minmax("min"),
    "std::cmp::Ord::max": _i_minmax("max"),
    "std::option::Option::<T>::expect": _i_option_unwrap,
    "std::option::Option::<T>::unwrap": _i_option_unwrap,
    "std::result::Result::<T, E>::expect": _i_option_unwrap,
    "std::result::Result::<T, E>::unwrap": _i_option_unwrap,
    "std::boxed::Box::<T>::new": _i_box_new,
    "std::option::Option::<T>::is_some": _i_discr_test(1),
    "std::option::Option::<T>::is_none": _i_discr_test(1, True),
    "std::result::Result::<T, E>::is_ok": _i_discr_test(0),
    "std::result::Result::<T, E>::is_err": _i_discr_test(0, True),
    "std::ops::Index::index": _i_index,
    "<T as std::convert::Into<U>>::into": _i_from_into,
    "std::convert::Into::into": _i_from_into,
    "<T as std::convert::TryInto<U>>::try_into": _i_try_into,
    "std::convert::TryInto::try_into": _i_try_into,
    "std::ops::IndexMut::index_mut": _i_index,
}


def _p_clone(eng, st, frame, args, finfo, t):
    return _i_clone(eng, st, frame, args, finfo, t)


def _p_eq_impl(eng, st, frame, args, finfo, t):
    return _i_partial_eq(False)(eng, st, frame, args, finfo, t)


PATTERN_INTRINSICS = [
    (re.compile(r"^(core|std)::convert::num::<impl (std|core)::convert::TryFrom<\w+> for \w+>::try_from$"), _i_try_into),
    (re.compile(r"^(core|std)::num::<impl (usize|u32|u64|i32|i64|u8|u16)>::pow$"), _i_pow),
    (re.compile(r"^<.* as std::clone::Clone>::clone$"), _p_clone),
    (re.compile(r"^std::cmp::impls::<impl std::cmp::PartialEq.*>::eq$"), _p_eq_impl),
    (re.compile(r"^std::cmp::impls::<impl std::cmp::PartialEq.*>::ne$"), _i_partial_eq(True)),
    (re.compile(r"^std::cmp::impls::<impl std::cmp::PartialOrd.*>::lt$"), _i_partial_ord("Lt")),
    (re.compile(r"^std::cmp::impls::<impl std::cmp::PartialOrd.*>::le$"), _i_partial_ord("Le")),
    (re.compile(r"^std::cmp::impls::<impl std::cmp::PartialOrd.*>::gt$"), _i_partial_ord("Gt")),
    (re.compile(r"^std::cmp::impls::<impl std::cmp::PartialOrd.*>::ge$"), _i_partial_ord("Ge")),
    (re.compile(r"^std::cmp::impls::<impl std::cmp::Ord for (usize|u32|u64|i32|i64)>::min$"), _i_minmax("min")),
    (re.compile(r"^std::cmp::impls::<impl std::cmp::Ord for (usize|u32|u64|i32|i64)>::max$"), _i_minmax("max")),
]
